import MidoModel.Smf
import MidoProofs.Lemmas.Vlq
import MidoProofs.Spec.SmfEnc
import MidoProofs.Lemmas.SmfEnc
import MidoProofs.Props.C07
import MidoProofs.Lemmas.SmfClip
/-!
  C08 — file bytes conform to the Standard MIDI File format in both directions.
-/
namespace Mido
open List

/-- **Padded VLQs are read.** Any standard-conformant spelling of a number, however much it is
    padded with 0x80 bytes, is read back as that number. -/
theorem C08_read_any_vlq (d : List Nat) (acc n : Nat) (h : VlqDenotes d acc n) (rest : List Nat) :
    readVlqAcc acc (d ++ rest) = .ok (n, rest) := readVlqAcc_denotes d acc n h rest

/-- padding with 0x80 does not change the value -/
theorem C08_padding (d : List Nat) (n : Nat) (h : VlqDenotes d 0 n) : VlqDenotes (0x80 :: d) 0 n :=
  .cont 0 0x80 d n (by decide) (by decide) (by simpa using h)

/-- what `save` writes is the minimal spelling -/
theorem C08_written_vlq_minimal (n : Nat) :
    VlqShape (encVlq n) ∧ ∃ b r, encVlq n = b :: r ∧ (r ≠ [] → b ≠ 0x80) :=
  ⟨encVlq_shape n, encVlq_minimal n⟩

/-- clipping does not touch valid data bytes -/
theorem C08_clip_valid (d : List Nat) (h : d.all (· ≤ 127) = true) : d.map clipByte = d := by
  induction d with
  | nil => rfl
  | cons x xs ih =>
    simp only [all_cons, Bool.and_eq_true, decide_eq_true_eq] at h
    simp only [map_cons, ih h.2, clipByte]
    by_cases hx : x < 127
    · simp [hx]
    · have : x = 127 := by omega
      simp [this]

/-- clipping produces valid data bytes, and only changes bytes above 127 (to 127) -/
theorem C08_clip_range (b : Nat) : clipByte b ≤ 127 ∧ (b ≤ 127 → clipByte b = b) ∧ (127 < b → clipByte b = 127) := by
  unfold clipByte
  by_cases h : b < 127
  · simp [h]; omega
  · simp [h]; omega

/-- every track chunk written ends with FF 2F 00 preceded by a delta time -/
theorem fixEot_last (tr : List TEvent) : ∀ (acc : PyVal) (fixed : List TEvent),
    fixEotEvents acc tr = .ok fixed → ∃ init t, fixed = init ++ [eotEvent t] := by
  induction tr with
  | nil => intro acc fixed h; simp [fixEotEvents] at h; exact ⟨[], acc, by simp [← h]⟩
  | cons x xs ih =>
    intro acc fixed h
    simp only [fixEotEvents] at h
    split at h
    · cases ha : pyAdd acc x.time with
      | error e => rw [ha] at h; simp [bind, Except.bind] at h
      | ok a => rw [ha] at h; exact ih a fixed h
    · split at h
      · cases ha : pyAdd acc x.time with
        | error e => rw [ha] at h; simp [bind, Except.bind] at h
        | ok a =>
          rw [ha] at h; simp only [bind, Except.bind] at h
          cases hr : fixEotEvents (.int 0) xs with
          | error e => rw [hr] at h; cases h
          | ok r =>
            rw [hr] at h; simp only [pure, Except.pure, Except.ok.injEq] at h; subst h
            obtain ⟨init, t, rfl⟩ := ih _ r hr
            exact ⟨_ :: init, t, rfl⟩
      · cases hr : fixEotEvents (.int 0) xs with
        | error e => rw [hr] at h; simp [bind, Except.bind] at h
        | ok r =>
          rw [hr] at h; simp only [bind, Except.bind, pure, Except.pure, Except.ok.injEq] at h; subst h
          obtain ⟨init, t, rfl⟩ := ih _ r hr
          exact ⟨_ :: init, t, rfl⟩


/-- **Read direction.**  Every standard-conformant encoding of a file — `EncFile`: any legal use
    of running status, variable-length quantities padded at will (delta times, sysex and meta
    lengths), a header chunk of 6 or more bytes — loads to exactly that event list, with clip on
    or off.  (Any charset, utf-8 included; payloads within the reader's 1 000 000-byte limit, which is
    part of `EncEv`.) -/
theorem C08_read_any (cs : Charset) (f : LFile) (bytes : List Nat) (h : EncFile cs f bytes)
    (clip : Bool) : readFile cs clip bytes = .ok f :=
  readFile_enc cs clip f bytes h

/-- on a conformant file `clip=True` and `clip=False` give the same result -/
theorem C08_clip_same_on_valid (cs : Charset) (f : LFile) (bytes : List Nat)
    (h : EncFile cs f bytes) : readFile cs true bytes = readFile cs false bytes := by
  rw [C08_read_any cs f bytes h true, C08_read_any cs f bytes h false]

/-- **clip=True never changes what clip=False accepts** — for every byte string, conformant or not. -/
theorem C08_clip_keeps_strict (cs : Charset) (bytes : List Nat) (f : LFile) (h : readFile cs false bytes = .ok f) :
    readFile cs true bytes = .ok f := readFile_strict_clip cs bytes f h

/-- **The only difference.**  If `clip=True` loads a byte string, `clip=False` loads the very same file from it or
    stops with the error raised for a data byte above 127 (`OSError` in a channel message, `ValueError` in sysex data);
    it never fails otherwise and never returns a different file. -/
theorem C08_clip_only_difference (cs : Charset) (bytes : List Nat) (f : LFile) (h : readFile cs true bytes = .ok f) :
    readFile cs false bytes = .ok f ∨ ∃ e, (e = .OSError ∨ e = .ValueError) ∧ readFile cs false bytes = .error e :=
  readFile_clip_strict cs bytes f h

/-- **What clipping does to a message**: reading with `clip=True` is reading with `clip=False` after every data byte the
    message consumes (the peeked running-status byte included) has been replaced by `min(byte, 127)`. -/
theorem C08_clip_message (st : Nat) (peek bs : List Nat) (L : Nat)
    (hL : (match specLen st with | some n => n | none => 0) = L) :
    readChannelish true st peek bs =
      readChannelish false st (peek.map clipByte) ((bs.take (L - 1 - peek.length)).map clipByte ++ bs.drop (L - 1 - peek.length)) :=
  readChannelish_clip st peek bs L hL

/-- the same for sysex: identical framing; payload bytes above 127 become 127 with clip, are an error without -/
theorem C08_clip_sysex (clip : Bool) (bs : List Nat) :
    readSysex clip bs = (do
      let (d, r) ← sysexPayload bs
      if clip then pure (.msg (.sysex (d.map clipByte)), r)
      else if d.all (· ≤ 127) then pure (.msg (.sysex d), r) else throw .ValueError) :=
  readSysex_clip_spec clip bs

/-- a file whose note has velocity byte 200: clip gives 127, strict raises; after it a sysex with payload byte 0x90 -/
def highBytes : List Nat :=
  [77, 84, 104, 100, 0, 0, 0, 6, 0, 0, 0, 1, 0, 96,
   77, 84, 114, 107, 0, 0, 0, 14, 0, 0x90, 60, 200, 0, 0xf0, 3, 1, 0x90, 0xf7, 0, 255, 47, 0]

example : readFile .latin1 true highBytes = .ok ⟨0, 96, [[⟨.msg (.chan3 .note_on 0 60 127), 0⟩,
      ⟨.msg (.sysex [1, 127]), 0⟩, ⟨.metaEv ⟨.end_of_track, []⟩, 0⟩]]⟩ ∧
    readFile .latin1 false highBytes = .error .OSError := by decide +kernel

/-- **Write direction.**  What `save` writes for a storable file is a member of the encoding
    relation for exactly the in-memory header and `fix_end_of_track` of every track: exact chunk
    lengths, running status only where the relation allows it (directly after a channel message
    of equal status, never across a meta or sysex event), sysex as F0 length data F7. -/
theorem C08_write_conforms (cs : Charset) (f : MFile) (hs : StorableFile cs f) (bytes : List Nat)
    (hw : writeFile cs f = .ok bytes) :
    EncFile cs ⟨f.type, f.tpb, f.tracks.map normTrack⟩ bytes := by
  unfold writeFile at hw
  split at hw
  · cases hw
  · simp only [bind, Except.bind] at hw
    cases ha : i16be f.type with
    | error e => rw [ha] at hw; cases hw
    | ok a =>
      rw [ha] at hw; simp only at hw
      cases hb : i16be (f.tracks.length : Int) with
      | error e => rw [hb] at hw; cases hw
      | ok b =>
        rw [hb] at hw; simp only at hw
        cases hc : i16be f.tpb with
        | error e => rw [hc] at hw; cases hw
        | ok c =>
          rw [hc] at hw; simp only at hw
          cases hbody : writeTracks cs f.tracks with
          | error e => rw [hbody] at hw; cases hw
          | ok body =>
            rw [hbody] at hw; simp only [pure, Except.pure, Except.ok.injEq] at hw; subst hw
            obtain ⟨a1, a2, rfl, hsa⟩ := enc16_i16be _ _ ha
            obtain ⟨b1, b2, rfl, hsb⟩ := enc16_i16be _ _ hb
            obtain ⟨c1, c2, rfl, hsc⟩ := enc16_i16be _ _ hc
            have ht := writeTracks_enc cs f.tracks body hs.events hs.chunk hbody
            have := EncFile.mk (cs := cs) ⟨f.type, f.tpb, f.tracks.map normTrack⟩ a1 a2 b1 b2 c1 c2 [] body
              hsa (by simpa using hsb) hsc (by decide) ht
            simpa using this

/-- the two directions compose to the round trip of C07 (an independent second proof of it) -/
theorem C08_roundtrip_via_spec (cs : Charset) (f : MFile) (hs : StorableFile cs f) (bytes : List Nat)
    (hw : writeFile cs f = .ok bytes) (clip : Bool) :
    readFile cs clip bytes = .ok ⟨f.type, f.tpb, f.tracks.map normTrack⟩ :=
  C08_read_any cs _ bytes (C08_write_conforms cs f hs bytes hw) clip

/-- the writer's quantities are the minimal spelling and denote the number -/
theorem C08_writer_vlq (n : Nat) : VlqDenotes (encVlq n) 0 n := denotes_encVlq n

/-- A hand-made alternative encoding of a small file: header chunk of 8 bytes, delta times padded
    with 0x80, a padded meta length, running status used for the second note and the status byte
    repeated for the third.  It is a member of the relation, so `C08_read_any` applies; the
    reader's result is also computed directly. -/
def altBytes : List Nat :=
  [77, 84, 104, 100, 0, 0, 0, 8, 0, 0, 0, 1, 0, 96, 7, 7,
   77, 84, 114, 107, 0, 0, 0, 20,
   0x80, 0, 0x90, 60, 64,
   0x81, 0, 62, 0,
   0, 0x90, 64, 1,
   0x80, 0x80, 5, 0xff, 0x2f, 0x80, 0]

def altFile : LFile := ⟨0, 96, [[⟨.msg (.chan3 .note_on 0 60 64), 0⟩, ⟨.msg (.chan3 .note_on 0 62 0), 128⟩,
  ⟨.msg (.chan3 .note_on 0 64 1), 0⟩, ⟨.metaEv ⟨.end_of_track, []⟩, 5⟩]]⟩

example : EncFile .latin1 altFile altBytes ∧ readFile .latin1 false altBytes = .ok altFile ∧
    readFile .latin1 true altBytes = .ok altFile := by
  refine ⟨?_, by decide +kernel, by decide +kernel⟩
  have hbody : EncBody .latin1 none altFile.tracks[0]
      ([0x80, 0] ++ [0x90, 60, 64] ++ ([0x81, 0] ++ [62, 0] ++ ([0] ++ [0x90, 64, 1] ++
        ([0x80, 0x80, 5] ++ [0xff, 0x2f, 0x80, 0] ++ [])))) := by
    refine .cons none _ [0x80, 0] [0x90, 60, 64] _ _ ?_ ?_ ?_
    · exact .cont 0 0x80 [0] 0 (by decide) (by decide) (.last _ 0 (by decide))
    · exact .full (.chan3 .note_on 0 60 64) (by decide) (by decide) (by intro d h; cases h)
    refine .cons _ _ [0x81, 0] [62, 0] _ _ ?_ ?_ ?_
    · exact .cont 0 0x81 [0] 128 (by decide) (by decide) (.last _ 0 (by decide))
    · exact .running (.chan3 .note_on 0 62 0) (by decide) (by decide) (by decide)
    refine .cons _ _ [0] [0x90, 64, 1] _ _ ?_ ?_ ?_
    · exact .last 0 0 (by decide)
    · exact .full (.chan3 .note_on 0 64 1) (by decide) (by decide) (by intro d h; cases h)
    refine .cons _ _ [0x80, 0x80, 5] [0xff, 0x2f, 0x80, 0] _ _ ?_ ?_ (.nil _)
    · exact .cont 0 0x80 _ 5 (by decide) (by decide) (.cont _ 0x80 _ 5 (by decide) (by decide) (.last _ 5 (by decide)))
    · exact .metaEv ⟨.end_of_track, []⟩ [] [0x80, 0] (by decide) (by decide) (by decide)
        (.cont 0 0x80 [0] 0 (by decide) (by decide) (.last _ 0 (by decide))) (by decide)
  have htrack := EncTrack.mk (cs := .latin1) _ _ hbody (by decide)
  have htracks := EncTracks.cons _ [] _ [] htrack .nil
  have hfile := EncFile.mk (cs := .latin1) altFile 0 0 0 1 0 96 [7, 7] _ ⟨by decide, by decide, by decide⟩
    ⟨by decide, by decide, by decide⟩ ⟨by decide, by decide, by decide⟩ (by decide) htracks
  exact hfile

end Mido
