import MidoProofs.Props.C04
import MidoProofs.Lemmas.TokPrepend
/-!
  C05 — parsing does not depend on how the stream is chunked or consumed.
-/
namespace Mido
open List

/-- feeding in two pieces is feeding the concatenation (tokenizer level) -/
theorem C05_feed_append (st : Tok) (a b : List Nat) : (st.feed a).feed b = st.feed (a ++ b) :=
  Tok.feed_append st a b

/-- any chunking of a byte stream leaves the tokenizer in the same state -/
theorem C05_chunking (st : Tok) (chunks : List (List Nat)) :
    chunks.foldl Tok.feed st = st.feed chunks.flatten := by
  induction chunks generalizing st with
  | nil => rfl
  | cons c r ih => simp only [foldl_cons, flatten_cons, ih, Tok.feed_append]

/-! ### Refinement of the Parser object to the abstract spec (bytes fed, number retrieved) -/

/-- what `parse_all` of the bytes fed so far gives -/
def parsed (fed : List Nat) : List Msg := match parseAll fed with | .ok ms => ms | .error _ => []

/-- the abstract specification state -/
structure ASt where
  fed : List Nat := []
  k : Nat := 0                 -- number of messages retrieved so far
  iters : List Bool := []

def inByte (b : Int) : Bool := decide (0 ≤ b) && decide (b ≤ 255)

def astep (a : ASt) : POp → ASt × POut
  | .feed bs => ({ a with fed := a.fed ++ bs.map Int.toNat }, .none)
  | .feedByte b => ({ a with fed := a.fed ++ [b.toNat] }, .none)
  | .get => match (parsed a.fed)[a.k]? with
    | some m => ({ a with k := a.k + 1 }, .msg m)
    | none => (a, .none)
  | .pending => (a, .count ((parsed a.fed).length - a.k))
  | .iterNew => ({ a with iters := a.iters ++ [true] }, .iterId a.iters.length)
  | .iterNext i => match a.iters[i]? with
    | some true => match (parsed a.fed)[a.k]? with
      | some m => ({ a with k := a.k + 1 }, .msg m)
      | none => ({ a with iters := setAt a.iters i false }, .stop)
    | _ => (a, .stop)
  | _ => (a, .none)

/-- the operations of the Parser object with in-range bytes -/
def POp.isParserOp : POp → Bool
  | .feed bs => bs.all inByte
  | .feedByte b => inByte b
  | .get | .pending | .iterNew | .iterNext _ => true
  | _ => false

def prun (p : PState) : List POp → PState × List POut
  | [] => (p, [])
  | op :: rest => let (p1, o) := pstep p op; let (p2, os) := prun p1 rest; (p2, o :: os)
def arun (a : ASt) : List POp → ASt × List POut
  | [] => (a, [])
  | op :: rest => let (a1, o) := astep a op; let (a2, os) := arun a1 rest; (a2, o :: os)

structure Sim (p : PState) (a : ASt) : Prop where
  tok : p.tok = (Tok.feed {} a.fed).clear
  queue : p.queue = (parsed a.fed).drop a.k
  kle : a.k ≤ (parsed a.fed).length
  iters : p.iters = a.iters
  fedok : ∀ b ∈ a.fed, b < 256

theorem feedChecked_valid (st : Tok) (bs : List Int) (h : bs.all inByte = true) :
    feedChecked st bs = (st.feed (bs.map Int.toNat), none) := by
  induction bs generalizing st with
  | nil => rfl
  | cons b r ih =>
    simp only [all_cons, Bool.and_eq_true] at h
    have hb : 0 ≤ b ∧ b ≤ 255 := by simpa [inByte] using h.1
    simp only [feedChecked, Tok.feedByteChecked, hb, and_self, if_true, ih _ h.2, map_cons]
    rfl

theorem decodeTokens_append (a b : List (List Nat)) (ma mb : List Msg)
    (ha : decodeTokens a = .ok ma) (hb : decodeTokens b = .ok mb) :
    decodeTokens (a ++ b) = .ok (ma ++ mb) := by
  induction a generalizing ma with
  | nil => simp [decodeTokens] at ha; subst ha; simpa using hb
  | cons t r ih =>
    simp only [decodeTokens, bind, Except.bind] at ha
    cases ht : decodeNats t with
    | error e => rw [ht] at ha; cases ha
    | ok m =>
      rw [ht] at ha
      cases hr : decodeTokens r with
      | error e => rw [hr] at ha; cases ha
      | ok mr =>
        rw [hr] at ha
        simp only [pure, Except.pure, Except.ok.injEq] at ha; subst ha
        simp [decodeTokens, bind, Except.bind, ht, ih mr hr, pure, Except.pure]

theorem toNat_lt (bs : List Int) (h : bs.all inByte = true) : ∀ b ∈ bs.map Int.toNat, b < 256 := by
  intro b hb
  obtain ⟨x, hx, rfl⟩ := mem_map.mp hb
  have := all_eq_true.mp h x hx
  simp [inByte] at this; omega

/-- feeding more bytes extends the parse result; the new messages are exactly the decoded
    new tokens -/
theorem parse_extend (fed bs : List Nat) (h1 : ∀ b ∈ fed, b < 256) (h2 : ∀ b ∈ bs, b < 256) :
    ∃ newms, decodeTokens ((Tok.feed {} fed).clear.feed bs).out = .ok newms ∧
      parsed (fed ++ bs) = parsed fed ++ newms ∧
      (Tok.feed {} (fed ++ bs)).clear = ((Tok.feed {} fed).clear.feed bs).clear := by
  have hall : ∀ b ∈ fed ++ bs, b < 256 := by
    intro b hb; rcases mem_append.mp hb with h | h
    · exact h1 b h
    · exact h2 b h
  have good := C04_valid_tokens (fed ++ bs) hall
  have hsplit := Tok.feed_clear (Tok.feed {} fed) bs
  rw [Tok.feed_append] at hsplit
  have htok : tokenize (fed ++ bs) = tokenize fed ++ ((Tok.feed {} fed).clear.feed bs).out := hsplit.1
  obtain ⟨ms1, hms1, _, _⟩ := decodeTokens_good (tokenize fed) (C04_valid_tokens fed h1)
  obtain ⟨ms2, hms2, _, _⟩ := decodeTokens_good ((Tok.feed {} fed).clear.feed bs).out
    (fun t ht => good t (by rw [htok]; exact mem_append_right _ ht))
  refine ⟨ms2, hms2, ?_, hsplit.2⟩
  have := decodeTokens_append _ _ _ _ hms1 hms2
  simp only [parsed, parseAll, htok, this, hms1]

theorem Sim.init : Sim {} {} := ⟨rfl, rfl, Nat.zero_le _, rfl, by simp⟩

theorem Sim.feed {p : PState} {a : ASt} (h : Sim p a) (bs : List Int) (hb : bs.all inByte = true) :
    (pstep p (.feed bs)).2 = .none ∧
      Sim (pstep p (.feed bs)).1 { a with fed := a.fed ++ bs.map Int.toNat } := by
  obtain ⟨newms, hdec, hpar, htok⟩ := parse_extend a.fed (bs.map Int.toNat) h.fedok (toNat_lt bs hb)
  have hout : (Tok.feed {} a.fed).clear.out = [] := rfl
  have e1 : pstep p (.feed bs) =
      ({ p with tok := (p.tok.feed (bs.map Int.toNat)).clear, queue := p.queue ++ newms }, .none) := by
    simp only [pstep, PState.feedOp, feedChecked_valid _ _ hb, PState.decodeAll]
    rw [h.tok, hdec]; rfl
  rw [e1]
  refine ⟨rfl, ?_, ?_, ?_, h.iters, ?_⟩
  · simp only [h.tok, htok]
  · simp only [h.queue, hpar]
    rw [drop_append_of_le_length h.kle]
  · simp only [hpar, length_append]; have := h.kle; omega
  · intro b hb'
    rcases mem_append.mp hb' with hh | hh
    · exact h.fedok b hh
    · exact toNat_lt bs hb b hh

theorem Sim.step {p : PState} {a : ASt} (h : Sim p a) (op : POp) (hop : op.isParserOp = true) :
    (pstep p op).2 = (astep a op).2 ∧ Sim (pstep p op).1 (astep a op).1 := by
  cases op with
  | feed bs => exact ⟨(h.feed bs hop).1, (h.feed bs hop).2⟩
  | feedByte b =>
    have hb : [b].all inByte = true := by simpa [POp.isParserOp] using hop
    have := h.feed [b] hb
    exact ⟨this.1, this.2⟩
  | get =>
    simp only [pstep, astep]
    cases hq : p.queue with
    | nil =>
      have : (parsed a.fed)[a.k]? = none := by
        rw [h.queue] at hq
        have := drop_eq_nil_iff.mp hq
        exact getElem?_eq_none this
      simp only [this]; exact ⟨by first | rfl | trivial, h⟩
    | cons m q =>
      rw [h.queue] at hq
      have hlt : a.k < (parsed a.fed).length := by
        apply Nat.lt_of_not_le; intro hle
        rw [drop_eq_nil_iff.mpr hle] at hq; cases hq
      have hk : (parsed a.fed)[a.k]? = some m := by
        rw [getElem?_eq_getElem hlt]
        rw [drop_eq_getElem_cons hlt] at hq
        simp only [cons.injEq] at hq; rw [hq.1]
      simp only [hk]
      refine ⟨by first | rfl | trivial, h.tok, ?_, hlt, h.iters, h.fedok⟩
      rw [drop_eq_getElem_cons hlt] at hq
      simp only [cons.injEq] at hq; exact hq.2.symm
  | pending =>
    simp only [pstep, astep]
    exact ⟨by rw [h.queue, length_drop], h⟩
  | iterNew =>
    simp only [pstep, astep]
    exact ⟨by rw [h.iters], h.tok, h.queue, h.kle, by simp [h.iters], h.fedok⟩
  | iterNext i =>
    simp only [pstep, astep, h.iters]
    cases hi : a.iters[i]? with
    | none => exact ⟨by first | rfl | trivial, h⟩
    | some alive =>
      cases alive with
      | false => exact ⟨by first | rfl | trivial, h⟩
      | true =>
        simp only []
        cases hq : p.queue with
        | nil =>
          have : (parsed a.fed)[a.k]? = none := by
            rw [h.queue] at hq
            exact getElem?_eq_none (drop_eq_nil_iff.mp hq)
          have hq' : drop a.k (parsed a.fed) = [] := by rw [← h.queue]; exact hq
          simp only [this]
          exact ⟨by first | rfl | trivial, h.tok,
            by first | exact h.queue | (simp only [hq']) | (simp [hq']),
            h.kle, by simp [h.iters], h.fedok⟩
        | cons m q =>
          rw [h.queue] at hq
          have hlt : a.k < (parsed a.fed).length := by
            apply Nat.lt_of_not_le; intro hle
            rw [drop_eq_nil_iff.mpr hle] at hq; cases hq
          rw [drop_eq_getElem_cons hlt] at hq
          simp only [cons.injEq] at hq
          have hk : (parsed a.fed)[a.k]? = some m := by
            rw [getElem?_eq_getElem hlt, hq.1]
          simp only [hk]
          exact ⟨by first | rfl | trivial, h.tok, hq.2.symm, hlt, by first | rfl | exact h.iters, h.fedok⟩
  | putBytes bs => simp [POp.isParserOp] at hop
  | poll => simp [POp.isParserOp] at hop
  | iterpoll => simp [POp.isParserOp] at hop

/-- Any history of feed / feed_byte / get_message / pending / iteration on a Parser gives, call
    by call, the answers of the abstract specification that only remembers the bytes fed so far
    and how many messages were retrieved: chunking and interleaving are unobservable, messages
    come out first-in first-out, `pending()` is the number still retrievable and `get_message()`
    is `None` exactly when that number is 0. -/
theorem C05_refines (ops : List POp) (h : ∀ op ∈ ops, op.isParserOp = true) :
    (prun {} ops).2 = (arun {} ops).2 := by
  suffices ∀ p a, Sim p a → (prun p ops).2 = (arun a ops).2 from this _ _ Sim.init
  induction ops with
  | nil => intros; rfl
  | cons op rest ih =>
    intro p a hs
    obtain ⟨ho, hs'⟩ := hs.step op (h op (by simp))
    simp only [prun, arun]
    rw [ho, ih (fun x hx => h x (by simp [hx])) _ _ hs']

/-- the spec's `get` answers `none` exactly when `pending` is 0 -/
theorem C05_get_none_iff (a : ASt) :
    (astep a .get).2 = .none ↔ (parsed a.fed).length - a.k = 0 := by
  simp only [astep]
  cases hk : (parsed a.fed)[a.k]? with
  | none =>
    have := getElem?_eq_none_iff.mp hk
    simp; omega
  | some m =>
    have : a.k < (parsed a.fed).length := by
      apply Nat.lt_of_not_le; intro hle
      rw [getElem?_eq_none hle] at hk; cases hk
    simp; omega

end Mido
