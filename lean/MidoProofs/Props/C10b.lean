import MidoModel.LockDisc
/-!
  C10 — the locking discipline: under ANY interleaving of ANY number of threads doing ANYTHING that
  respects the discipline, on any number of ports, locks and queues (EchoPort, device ports, the
  IOPort wrapper sharing its input's lock, MultiPort with its nested child locks, ParserQueue):
  no `popleft` hits an empty deque, every queue is first-in first-out, nothing is lost or doubled.
-/
namespace Mido.Disc
open List

structure Inv (s : S) : Prop where
  nofault : s.fault = false
  armedOk : ∀ t q, s.armed t q = true → owns s t (s.guard q) = true ∧ s.q q ≠ []
  fifo : ∀ q, s.recv q ++ s.q q = s.sent q

theorem owns_unique (s : S) (t u : Tid) (l : Nat) (ht : owns s t l = true) (hu : owns s u l = true) : t = u := by
  unfold owns at ht hu
  cases h : s.owner l with
  | none => rw [h] at ht; cases ht
  | some p =>
    obtain ⟨w, d⟩ := p
    rw [h] at ht hu
    simp only [beq_iff_eq] at ht hu
    rw [← ht, ← hu]

theorem setF_same {α} (f : Nat → α) (i : Nat) (x : α) : setF f i x i = x := by simp [setF]
theorem setF_other {α} (f : Nat → α) (i j : Nat) (x : α) (h : j ≠ i) : setF f i x j = f j := by simp [setF, h]

/-- **One event of any thread preserves the invariant** — whether or not it respects the discipline. -/
theorem step_inv (s : S) (t : Tid) (e : Ev) (h : Inv s) : Inv (step s t e) := by
  cases e with
  | acq l =>
    simp only [step]
    cases ho : s.owner l with
    | none =>
      refine ⟨h.nofault, ?_, h.fifo⟩
      intro u q ha
      obtain ⟨h1, h2⟩ := h.armedOk u q ha
      refine ⟨?_, h2⟩
      simp only [owns] at h1 ⊢
      by_cases hl : s.guard q = l
      · rw [hl, ho] at h1; cases h1
      · simp only [setF, hl, if_false]; exact h1
    | some p =>
      obtain ⟨w, d⟩ := p
      simp only []
      by_cases hw : w = t
      · subst hw
        simp only [if_true]
        refine ⟨h.nofault, ?_, h.fifo⟩
        intro u q ha
        obtain ⟨h1, h2⟩ := h.armedOk u q ha
        refine ⟨?_, h2⟩
        simp only [owns] at h1 ⊢
        by_cases hl : s.guard q = l
        · rw [hl, ho] at h1
          simp only [setF, hl, if_true]; exact h1
        · simp only [setF, hl, if_false]; exact h1
      · simp only [hw, if_false]; exact ⟨h.nofault, h.armedOk, h.fifo⟩
  | rel l =>
    simp only [step]
    cases ho : s.owner l with
    | none => exact ⟨h.nofault, h.armedOk, h.fifo⟩
    | some p =>
      obtain ⟨w, d⟩ := p
      simp only []
      by_cases hw : w = t
      · subst hw
        simp only [if_true]
        by_cases hd : d ≤ 1
        · simp only [hd, if_true]
          refine ⟨h.nofault, ?_, h.fifo⟩
          intro u q ha
          simp only at ha
          by_cases hc : u = w ∧ s.guard q = l
          · simp [hc] at ha
          · simp only [hc, if_false] at ha
            obtain ⟨h1, h2⟩ := h.armedOk u q ha
            refine ⟨?_, h2⟩
            have hgl : s.guard q ≠ l := by
              intro hgl
              have : owns s w l = true := by simp [owns, ho]
              rw [hgl] at h1
              exact hc ⟨owns_unique s u w l h1 this, hgl⟩
            simp only [owns, setF, hgl, if_false] at h1 ⊢
            exact h1
        · simp only [hd, if_false]
          refine ⟨h.nofault, ?_, h.fifo⟩
          intro u q ha
          obtain ⟨h1, h2⟩ := h.armedOk u q ha
          refine ⟨?_, h2⟩
          simp only [owns] at h1 ⊢
          by_cases hl : s.guard q = l
          · rw [hl, ho] at h1
            simp only [setF, hl, if_true]; exact h1
          · simp only [setF, hl, if_false]; exact h1
      · simp only [hw, if_false]; exact ⟨h.nofault, h.armedOk, h.fifo⟩
  | test q =>
    simp only [step]
    by_cases ho : owns s t (s.guard q) = true
    · simp only [ho, if_true]
      refine ⟨h.nofault, ?_, h.fifo⟩
      intro u p ha
      simp only [setA] at ha
      by_cases hc : u = t ∧ p = q
      · obtain ⟨rfl, rfl⟩ := hc
        simp only [and_self, if_true, Bool.not_eq_true', isEmpty_eq_false_iff] at ha
        exact ⟨ho, ha⟩
      · simp only [hc, if_false] at ha
        exact h.armedOk u p ha
    · simp only [ho, Bool.false_eq_true, if_false]; exact ⟨h.nofault, h.armedOk, h.fifo⟩
  | pop q =>
    simp only [step]
    by_cases hc : (owns s t (s.guard q) && s.armed t q) = true
    · simp only [hc, if_true]
      simp only [Bool.and_eq_true] at hc
      obtain ⟨_, hne⟩ := h.armedOk t q hc.2
      cases hq : s.q q with
      | nil => exact absurd hq hne
      | cons m r =>
        simp only []
        refine ⟨h.nofault, ?_, ?_⟩
        · intro u p ha
          simp only [setA] at ha
          by_cases hcc : u = t ∧ p = q
          · simp [hcc] at ha
          · simp only [hcc, if_false] at ha
            obtain ⟨h1, h2⟩ := h.armedOk u p ha
            refine ⟨h1, ?_⟩
            by_cases hp : p = q
            · subst hp
              have := owns_unique s u t _ h1 hc.1
              exact absurd ⟨this, rfl⟩ hcc
            · simp only [setF, hp, if_false]; exact h2
        · intro p
          by_cases hp : p = q
          · subst hp
            simp only [setF_same]
            rw [← h.fifo p, hq]; simp
          · simp only [setF_other _ _ _ _ hp]; exact h.fifo p
    · simp only [hc, Bool.false_eq_true, if_false]; exact ⟨h.nofault, h.armedOk, h.fifo⟩
  | app q m =>
    simp only [step]
    by_cases ho : owns s t (s.guard q) = true
    · simp only [ho, if_true]
      refine ⟨h.nofault, ?_, ?_⟩
      · intro u p ha
        obtain ⟨h1, h2⟩ := h.armedOk u p ha
        refine ⟨h1, ?_⟩
        by_cases hp : p = q
        · subst hp; simp [setF]
        · simp only [setF, hp, if_false]; exact h2
      · intro p
        by_cases hp : p = q
        · subst hp
          simp only [setF_same]
          rw [← h.fifo p]; simp
        · simp only [setF_other _ _ _ _ hp]; exact h.fifo p
    · simp only [ho, Bool.false_eq_true, if_false]; exact ⟨h.nofault, h.armedOk, h.fifo⟩

theorem run_inv (tr : List (Tid × Ev)) : ∀ (s : S), Inv s → Inv (run s tr) := by
  induction tr with
  | nil => intro s h; exact h
  | cons x r ih => intro s h; obtain ⟨t, e⟩ := x; exact ih _ (step_inv s t e h)

theorem init_inv (guard : Nat → Nat) (q0 : Nat → List Nat) : Inv (init guard q0) :=
  ⟨rfl, fun t q h => by simp [init] at h, fun q => by simp [init]⟩

/-- **No call raises IndexError**, on any port composition, under every interleaving. -/
theorem C10_disc_no_fault (guard : Nat → Nat) (q0 : Nat → List Nat) (tr : List (Tid × Ev)) :
    (run (init guard q0) tr).fault = false := (run_inv tr _ (init_inv guard q0)).nofault

/-- **Every queue is first-in first-out, nothing lost, nothing doubled**: at every moment what was
    popped from a queue followed by what it still holds is exactly what was put into it, in the
    order of the appends. -/
theorem C10_disc_fifo (guard : Nat → Nat) (q0 : Nat → List Nat) (tr : List (Tid × Ev)) (q : Nat) :
    (run (init guard q0) tr).recv q ++ (run (init guard q0) tr).q q = (run (init guard q0) tr).sent q :=
  (run_inv tr _ (init_inv guard q0)).fifo q

/-- **Exclusive access**: an accepted access to a queue is made by the one thread that owns the
    queue's guarding lock; two threads never own the same lock. -/
theorem C10_disc_exclusive (s : S) (t u : Tid) (l : Nat) (ht : owns s t l = true) (hu : owns s u l = true) : t = u :=
  owns_unique s t u l ht hu

/-- an access outside the discipline is flagged and changes nothing else -/
theorem C10_disc_flag (s : S) (t : Tid) (q m : Nat) (h : owns s t (s.guard q) = false) :
    (step s t (.app q m)).viol = true ∧ (step s t (.test q)).viol = true ∧ (step s t (.pop q)).viol = true ∧
    (step s t (.app q m)).q = s.q ∧ (step s t (.pop q)).q = s.q := by
  simp [step, h]

/-- a trace of the IOPort shape (nested re-entrant acquisition, three tests in one critical
    section) and a MultiPort-like nested pair of locks are inside the discipline -/
example : (run (init (fun q => q) (fun q => if q = 0 then [5] else []))
    [(1, .acq 0), (1, .acq 0), (1, .test 0), (1, .pop 0), (1, .rel 0), (1, .rel 0),
     (2, .acq 1), (2, .acq 0), (2, .test 0), (2, .rel 0), (2, .app 1 7), (2, .rel 1)]).viol = false := by
  decide

end Mido.Disc
