import MidoModel.PortsConc
/-!
  C10 — ports deliver each message exactly once and in order under concurrent use.
-/
namespace Mido.Conc
open List

structure Inv (w : W) : Prop where
  nofault : w.fault = false
  mutex : ∀ t, inCS (w.th t).pc = true ↔ w.lock = some t
  popok : ∀ t, ((w.th t).pc = .pPop ∨ (w.th t).pc = .p2Pop) → w.q ≠ []
  fifo : w.recv ++ w.q = w.sent

theorem upd_same (f : Tid → Th) (t : Tid) (x : Th) : upd f t x t = x := by simp [upd]
theorem upd_other (f : Tid → Th) (t u : Tid) (x : Th) (h : u ≠ t) : upd f t x u = f u := by simp [upd, h]

theorem next_notCS (th : Th) : inCS (next th).pc = false ∧ (next th).pc ≠ .pPop ∧ (next th).pc ≠ .p2Pop := by
  unfold next
  cases th.prog with
  | nil => simp [inCS]
  | cons c r => cases c <;> simp [inCS]

/-- no other thread is inside a critical section while `t` is -/
theorem others_out (w : W) (h : Inv w) (t : Tid) (ht : inCS (w.th t).pc = true) :
    ∀ u, u ≠ t → inCS (w.th u).pc = false := by
  intro u hu
  have hl := (h.mutex t).mp ht
  cases hc : inCS (w.th u).pc with
  | false => rfl
  | true =>
    have := (h.mutex u).mp hc
    rw [hl] at this; cases this; exact absurd rfl hu

theorem pop_in_cs (pc : Pc) (h : pc = .pPop ∨ pc = .p2Pop) : inCS pc = true := by
  rcases h with rfl | rfl <;> rfl

/-- a step of `t` that keeps lock and queue, and keeps `t` inside / outside its critical section -/
theorem inv_local (w : W) (h : Inv w) (t : Tid) (x : Th) (hcs : inCS x.pc = inCS (w.th t).pc)
    (hpop : (x.pc = .pPop ∨ x.pc = .p2Pop) → w.q ≠ []) : Inv { w with th := upd w.th t x } := by
  refine ⟨h.nofault, ?_, ?_, h.fifo⟩
  · intro u
    by_cases hu : u = t
    · subst hu; simp only [upd_same, hcs]; exact h.mutex u
    · simp only [upd_other _ _ _ _ hu]; exact h.mutex u
  · intro u
    by_cases hu : u = t
    · subst hu; simp only [upd_same]; exact hpop
    · simp only [upd_other _ _ _ _ hu]; exact h.popok u

/-- acquire -/
theorem inv_acquire (w : W) (h : Inv w) (t : Tid) (x : Th) (hl : w.lock = none) (hx : inCS x.pc = true)
    (hnp : x.pc ≠ .pPop ∧ x.pc ≠ .p2Pop) : Inv { w with lock := some t, th := upd w.th t x } := by
  have out : ∀ u, inCS (w.th u).pc = false := by
    intro u
    cases hc : inCS (w.th u).pc with
    | false => rfl
    | true => have := (h.mutex u).mp hc; rw [hl] at this; cases this
  refine ⟨h.nofault, ?_, ?_, h.fifo⟩
  · intro u
    by_cases hu : u = t
    · subst hu; simp [upd_same, hx]
    · simp only [upd_other _ _ _ _ hu, out u]
      constructor
      · intro hc; cases hc
      · intro hc; cases hc; exact absurd rfl hu
  · intro u
    by_cases hu : u = t
    · subst hu; simp only [upd_same]; intro hc; rcases hc with hc | hc
      · exact absurd hc hnp.1
      · exact absurd hc hnp.2
    · simp only [upd_other _ _ _ _ hu]; exact h.popok u

/-- release -/
theorem inv_release (w : W) (h : Inv w) (t : Tid) (x : Th) (ht : inCS (w.th t).pc = true) (hx : inCS x.pc = false)
    (hnp : x.pc ≠ .pPop ∧ x.pc ≠ .p2Pop) : Inv { w with lock := none, th := upd w.th t x } := by
  have out := others_out w h t ht
  refine ⟨h.nofault, ?_, ?_, h.fifo⟩
  · intro u
    by_cases hu : u = t
    · subst hu; simp [upd_same, hx]
    · simp [upd_other _ _ _ _ hu, out u hu]
  · intro u
    by_cases hu : u = t
    · subst hu; simp only [upd_same]; intro hc; rcases hc with hc | hc
      · exact absurd hc hnp.1
      · exact absurd hc hnp.2
    · simp only [upd_other _ _ _ _ hu]; exact h.popok u

/-- popleft by the lock holder -/
theorem inv_pop (w : W) (h : Inv w) (t : Tid) (x : Th) (m : Nat) (r : List Nat) (ht : inCS (w.th t).pc = true)
    (hq : w.q = m :: r) (hx : inCS x.pc = true) (hnp : x.pc ≠ .pPop ∧ x.pc ≠ .p2Pop) :
    Inv { w with q := r, recv := w.recv ++ [m], th := upd w.th t x } := by
  have out := others_out w h t ht
  refine ⟨h.nofault, ?_, ?_, ?_⟩
  · intro u
    by_cases hu : u = t
    · subst hu; simp only [upd_same, hx]; have := h.mutex u; rw [ht] at this; simpa using this
    · simp only [upd_other _ _ _ _ hu]; exact h.mutex u
  · intro u
    by_cases hu : u = t
    · subst hu; simp only [upd_same]; intro hc; rcases hc with hc | hc
      · exact absurd hc hnp.1
      · exact absurd hc hnp.2
    · simp only [upd_other _ _ _ _ hu]
      intro hc
      have := out u hu
      rw [pop_in_cs _ hc] at this; cases this
  · have := h.fifo; rw [hq] at this; simp only [append_assoc, singleton_append]; exact this

/-- append by the lock holder -/
theorem inv_append (w : W) (h : Inv w) (t : Tid) (x : Th) (m : Nat) (ht : inCS (w.th t).pc = true)
    (hx : inCS x.pc = true) (hnp : x.pc ≠ .pPop ∧ x.pc ≠ .p2Pop) :
    Inv { w with q := w.q ++ [m], sent := w.sent ++ [m], th := upd w.th t x } := by
  refine ⟨h.nofault, ?_, ?_, ?_⟩
  · intro u
    by_cases hu : u = t
    · subst hu; simp only [upd_same, hx]; have := h.mutex u; rw [ht] at this; simpa using this
    · simp only [upd_other _ _ _ _ hu]; exact h.mutex u
  · intro u
    by_cases hu : u = t
    · subst hu; simp only [upd_same]; intro hc; rcases hc with hc | hc
      · exact absurd hc hnp.1
      · exact absurd hc hnp.2
    · simp only [upd_other _ _ _ _ hu]
      intro hc
      have := h.popok u hc
      intro he; simp at he
  · rw [← h.fifo]; simp

/-- **One step of any thread preserves the invariant.** -/
theorem step_inv (w : W) (t : Tid) (h : Inv w) : Inv (step w t) := by
  have hn := next_notCS
  cases hpc : (w.th t).pc with
  | start =>
    simp only [step, hpc]
    refine inv_local w h t _ (by rw [hpc, (hn _).1]; rfl) ?_
    intro hc
    rcases hc with hc | hc
    · exact absurd hc (hn _).2.1
    · exact absurd hc (hn _).2.2
  | done => simp only [step, hpc]; exact h
  | pAcq =>
    simp only [step, hpc]
    split
    · rename_i hl; exact inv_acquire w h t _ hl rfl ⟨by simp, by simp⟩
    · exact h
  | pTest =>
    simp only [step, hpc]
    split
    · rename_i hq; exact inv_local w h t _ (by rw [hpc]; rfl) (fun _ => hq)
    · exact inv_local w h t _ (by rw [hpc]; rfl) (fun hc => by simp at hc)
  | pPop =>
    simp only [step, hpc]
    have hq := h.popok t (Or.inl hpc)
    cases hqq : w.q with
    | nil => exact absurd hqq hq
    | cons m r => exact inv_pop w h t _ m r (by rw [hpc]; rfl) hqq rfl ⟨by simp, by simp⟩
  | pRelHit =>
    simp only [step, hpc]
    exact inv_release w h t _ (by rw [hpc]; rfl) (hn _).1 (hn _).2
  | pRelMiss =>
    simp only [step, hpc]
    exact inv_release w h t _ (by rw [hpc]; rfl) rfl ⟨by simp, by simp⟩
  | p2Acq =>
    simp only [step, hpc]
    split
    · rename_i hl; exact inv_acquire w h t _ hl rfl ⟨by simp, by simp⟩
    · exact h
  | p2Test =>
    simp only [step, hpc]
    split
    · rename_i hq; exact inv_local w h t _ (by rw [hpc]; rfl) (fun _ => hq)
    · exact inv_local w h t _ (by rw [hpc]; rfl) (fun hc => by simp at hc)
  | p2Pop =>
    simp only [step, hpc]
    have hq := h.popok t (Or.inr hpc)
    cases hqq : w.q with
    | nil => exact absurd hqq hq
    | cons m r => exact inv_pop w h t _ m r (by rw [hpc]; rfl) hqq rfl ⟨by simp, by simp⟩
  | p2RelHit =>
    simp only [step, hpc]
    exact inv_release w h t _ (by rw [hpc]; rfl) (hn _).1 (hn _).2
  | p2RelMiss =>
    simp only [step, hpc]
    exact inv_release w h t _ (by rw [hpc]; rfl) (hn _).1 (hn _).2
  | sAcq m =>
    simp only [step, hpc]
    split
    · rename_i hl; exact inv_acquire w h t _ hl rfl ⟨by simp, by simp⟩
    · exact h
  | sApp m =>
    simp only [step, hpc]
    exact inv_append w h t _ m (by rw [hpc]; rfl) rfl ⟨by simp, by simp⟩
  | sRel =>
    simp only [step, hpc]
    exact inv_release w h t _ (by rw [hpc]; rfl) (hn _).1 (hn _).2

/-- the invariant holds after every schedule -/
theorem run_inv (w : W) (σ : List Tid) (h : Inv w) : Inv (run w σ) := by
  induction σ generalizing w with
  | nil => exact h
  | cons t σ ih => exact ih _ (step_inv w t h)

theorem init_inv (progs : List (List Call)) (q : List Nat) : Inv (init progs q) := by
  refine ⟨rfl, ?_, ?_, by simp [init]⟩
  · intro t; simp only [init]; cases progs[t]? <;> simp [inCS]
  · intro t; simp only [init]; cases progs[t]? <;> simp

/-- **No call raises**: under EVERY interleaving of ANY number of threads running ANY programs of
    send / poll calls, `popleft` never hits an empty deque (no IndexError) -/
theorem C10_no_fault (progs : List (List Call)) (q : List Nat) (σ : List Tid) :
    (run (init progs q) σ).fault = false := (run_inv _ σ (init_inv progs q)).nofault

/-- **Mutual exclusion**: at most one thread is inside a critical section, and it holds the lock -/
theorem C10_mutex (progs : List (List Call)) (q : List Nat) (σ : List Tid) (t u : Tid)
    (ht : inCS ((run (init progs q) σ).th t).pc = true) (hu : inCS ((run (init progs q) σ).th u).pc = true) : t = u := by
  have h := run_inv _ σ (init_inv progs q)
  have a := (h.mutex t).mp ht
  have b := (h.mutex u).mp hu
  rw [a] at b; cases b; rfl

/-- **At most once, in order, nothing lost**: at every moment of every interleaving the messages
    received so far, followed by those still queued, are exactly the messages sent so far in the
    order their sends took effect; so no message is received twice or out of order, and when the
    queue is empty everything sent has been received exactly once. -/
theorem C10_fifo (progs : List (List Call)) (q : List Nat) (σ : List Tid) :
    let w := run (init progs q) σ
    w.recv ++ w.q = w.sent ∧ (w.q = [] → w.recv = w.sent) := by
  have h := run_inv _ σ (init_inv progs q)
  exact ⟨h.fifo, fun hq => by have := h.fifo; rw [hq] at this; simpa using this⟩

/-- messages of one sender keep their order: the received list is a prefix of the sent list, and
    any two messages of it appear in the order in which they were sent -/
theorem C10_sender_order (progs : List (List Call)) (q : List Nat) (σ : List Tid) :
    (run (init progs q) σ).recv <+: (run (init progs q) σ).sent := by
  have h := run_inv _ σ (init_inv progs q)
  exact ⟨_, h.fifo⟩

end Mido.Conc
