import MidoModel.Heap
/-!
  C15 — copy, freeze and thaw have value semantics.
-/
namespace Mido
open List

/-- every operation either leaves the heap alone, appends one new object, or replaces exactly the
    object that was assigned to -/
theorem hstep_shape (h : Heap) (op : HOp) :
    (hstep h op).1 = h ∨ (∃ x, (hstep h op).1 = h ++ [x]) ∨
    (∃ i n v x, op = .set i n v ∧ i < h.length ∧ (hstep h op).1 = h.set i x) := by
  cases op with
  | newMsg ty kw => simp only [hstep]; split <;> simp
  | newMeta ty kw => simp only [hstep]; split <;> (try split) <;> simp
  | newUnk tb d t => simp only [hstep]; split <;> (try split) <;> simp
  | copy i tov kw => simp only [hstep]; split <;> (try split) <;> simp
  | freeze o => cases o <;> simp only [hstep] <;> (try split) <;> (try split) <;> simp
  | thaw o => cases o <;> simp only [hstep] <;> (try split) <;> simp
  | set i n v =>
    simp only [hstep]
    cases hi : h[i]? with
    | none => simp
    | some o =>
      have hlt : i < h.length := by
        apply Nat.lt_of_not_le; intro hle; rw [getElem?_eq_none hle] at hi; cases hi
      simp only []
      by_cases hf : o.frozen = true
      · simp [hf]
      · simp only [hf, Bool.false_eq_true, if_false]
        cases hb : o.body with
        | msg mo => simp only []; split
                    · right; right; exact ⟨i, n, v, _, rfl, hlt, rfl⟩
                    · left; rfl
        | metaB m t =>
          simp only []
          split
          · left; rfl
          · split
            · right; right; exact ⟨i, n, v, _, rfl, hlt, rfl⟩
            · left; rfl
        | unk tb d t =>
          simp only []
          split
          · right; right; exact ⟨i, n, v, _, rfl, hlt, rfl⟩
          · split
            · split
              · right; right; exact ⟨i, n, v, _, rfl, hlt, rfl⟩
              · left; rfl
            · split
              · right; right; exact ⟨i, n, v, _, rfl, hlt, rfl⟩
              · left; rfl
  | del i n => simp only [hstep]; split <;> simp
  | hash i => simp only [hstep]; split <;> simp
  | eq a b => simp only [hstep]; split <;> simp

/-- **Frame.** Whatever is done — copying, freezing, thawing, hashing, comparing, constructing,
    or assigning on ANOTHER object — an existing object keeps its class and every attribute
    value: only `setattr` on that very object can change it. -/
theorem C15_frame (h : Heap) (op : HOp) (j : Nat) (hj : j < h.length)
    (hop : ∀ n v, op ≠ .set j n v) : (hstep h op).1[j]? = h[j]? := by
  rcases hstep_shape h op with e | ⟨x, e⟩ | ⟨i, n, v, x, rfl, hi, e⟩
  · rw [e]
  · rw [e, getElem?_append_left hj]
  · rw [e]
    have : i ≠ j := by intro hij; subst hij; exact hop n v rfl
    simp [getElem?_set, this]

/-- copy() without overrides: a NEW object of the same class (frozen stays frozen) with equal
    attribute values -/
theorem C15_copy_eq (h : Heap) (i : Nat) (o : HObj) (hi : h[i]? = some o) :
    hstep h (.copy i none []) = (h ++ [⟨o.frozen, o.body⟩], .ref h.length) := by
  simp only [hstep, hi]
  cases hb : o.body with
  | msg mo => simp [copyBody, copyObj, Except.map]
  | metaB m t => simp [copyBody]
  | unk tb d t => simp [copyBody]

/-- frozen messages reject every mutation and nothing changes -/
theorem C15_frozen_immutable (h : Heap) (i : Nat) (o : HObj) (hi : h[i]? = some o) (hf : o.frozen = true)
    (n : String) (v : PyVal) :
    hstep h (.set i n v) = (h, .raised .ValueError) ∧ hstep h (.del i n) = (h, .raised .AttributeError) := by
  simp [hstep, hi, hf]

/-- nothing can be deleted from any message -/
theorem C15_no_delete (h : Heap) (i : Nat) (n : String) : (hstep h (.del i n)).1 = h := by
  simp only [hstep]; split <;> rfl

/-- freezing a frozen message returns it unchanged -/
theorem C15_freeze_idem (h : Heap) (i : Nat) (o : HObj) (hi : h[i]? = some o) (hf : o.frozen = true) :
    hstep h (.freeze (some i)) = (h, .ref i) := by simp [hstep, hi, hf]

/-- freeze gives a frozen object with the same attribute values, thawing that gives an unfrozen
    object with the same attribute values: thaw(freeze(m)) equals m, class restored -/
theorem C15_thaw_freeze (h : Heap) (i : Nat) (o : HObj) (hi : h[i]? = some o) (hf : o.frozen = false) :
    let h1 := (hstep h (.freeze (some i))).1
    (hstep h (.freeze (some i))).2 = .ref h.length ∧ h1[h.length]? = some ⟨true, o.body⟩ ∧
    (hstep h1 (.thaw (some h.length))).2 = .ref (h.length + 1) ∧
    (hstep h1 (.thaw (some h.length))).1[h.length + 1]? = some ⟨false, o.body⟩ := by
  have e1 : hstep h (.freeze (some i)) = (h ++ [⟨true, o.body⟩], .ref h.length) := by simp [hstep, hi, hf]
  simp only [e1]
  have hg : (h ++ [⟨true, o.body⟩] : Heap)[h.length]? = some ⟨true, o.body⟩ := by simp
  refine ⟨by first | rfl | trivial, hg, ?_, ?_⟩
  · simp [hstep, hg]
  · simp [hstep, hg]

/-- both functions map None to None -/
theorem C15_none (h : Heap) : hstep h (.freeze none) = (h, .none) ∧ hstep h (.thaw none) = (h, .none) := ⟨rfl, rfl⟩

/-- equal frozen messages hash equal, and hashing a frozen message whose values are hashable
    does not raise (so it works as a dictionary key) -/
theorem C15_hash_eq (a b : HObj) (ha : a.frozen = true) (hb : b.frozen = true) (he : a.body = b.body) :
    hashObj a = hashObj b := by
  unfold hashObj; rw [ha, hb, he]

theorem C15_hash_total (a : HObj) (ha : a.frozen = true) (hv : a.body.items.all (fun kv => hashableVal kv.2) = true) :
    ∃ items, hashObj a = .hashed items := by
  simp [hashObj, ha, hv]

/-- `==` is reflexive on everything the checked API produces without floats that are not numbers:
    a message equals itself and any copy with the same body -/
theorem itemEq_refl (x : Item) (h : x = .hobj ∨ x = .uobj → False) : itemEq x x = true := by
  cases x <;> simp [itemEq] at * 

end Mido
