import MidoModel.Smf
import MidoProofs.Lemmas.Vlq
/-!
  C07 — MIDI file save then load preserves every track.
-/
namespace Mido
open List

/-- a type-0 file without exactly one track is refused with ValueError -/
theorem C07_reject_type0 (cs : Charset) (f : MFile) (h : f.type = 0) (hl : f.tracks.length ≠ 1) :
    writeFile cs f = .error .ValueError := by
  simp [writeFile, h, hl]

/-- a negative or non-integer time anywhere in a track (end_of_track messages included) makes
    `write_track` raise ValueError before anything is encoded -/
theorem C07_reject_time (cs : Charset) (tr : List TEvent) (e : TEvent) (he : e ∈ tr)
    (hbad : timeOk e = false) : writeTrack cs tr = .error .ValueError := by
  have : tr.all timeOk = false := by
    apply Bool.eq_false_iff.mpr
    intro hall
    have := all_eq_true.mp hall e he
    rw [hbad] at this; cases this
  simp [writeTrack, this, bind, Except.bind, throw, throwThe, MonadExceptOf.throw]

theorem fixEot_keeps (tr : List TEvent) : ∀ (acc : PyVal) (fixed : List TEvent),
    fixEotEvents acc tr = .ok fixed → ∀ e ∈ tr, e.ev.isEot = false → ∃ e' ∈ fixed, e'.ev = e.ev := by
  induction tr with
  | nil => intro acc fixed _ e he; cases he
  | cons x xs ih =>
    intro acc fixed h e he hne
    simp only [fixEotEvents] at h
    by_cases hx : x.ev.isEot = true
    · rw [if_pos hx] at h
      cases ha : pyAdd acc x.time with
      | error err => rw [ha] at h; simp [bind, Except.bind] at h
      | ok acc' =>
        rw [ha] at h; simp only [bind, Except.bind] at h
        rcases mem_cons.mp he with rfl | he'
        · rw [hne] at hx; cases hx
        · exact ih acc' fixed h e he' hne
    · rw [if_neg hx] at h
      by_cases ht : pyTruthy acc = true
      · rw [if_pos ht] at h
        cases hd : pyAdd acc x.time with
        | error err => rw [hd] at h; simp [bind, Except.bind] at h
        | ok d =>
          rw [hd] at h; simp only [bind, Except.bind] at h
          cases hr : fixEotEvents (.int 0) xs with
          | error err => rw [hr] at h; cases h
          | ok r =>
            rw [hr] at h; simp only [pure, Except.pure, Except.ok.injEq] at h; subst h
            rcases mem_cons.mp he with rfl | he'
            · exact ⟨_, mem_cons_self, rfl⟩
            · obtain ⟨e', h1, h2⟩ := ih _ r hr e he' hne
              exact ⟨e', mem_cons_of_mem _ h1, h2⟩
      · rw [if_neg ht] at h
        cases hr : fixEotEvents (.int 0) xs with
        | error err => rw [hr] at h; simp [bind, Except.bind] at h
        | ok r =>
          rw [hr] at h; simp only [bind, Except.bind, pure, Except.pure, Except.ok.injEq] at h; subst h
          rcases mem_cons.mp he with rfl | he'
          · exact ⟨_, mem_cons_self, rfl⟩
          · obtain ⟨e', h1, h2⟩ := ih _ r hr e he' hne
            exact ⟨e', mem_cons_of_mem _ h1, h2⟩

theorem writeEvents_no_realtime (cs : Charset) (es : List TEvent) : ∀ (running : Option Nat) (bs : List Nat),
    writeEvents cs running es = .ok bs → ∀ e ∈ es, e.ev.isRealtime = false := by
  induction es with
  | nil => intro _ _ _ e he; cases he
  | cons x xs ih =>
    intro running bs h e he
    simp only [writeEvents] at h
    cases ht : x.time with
    | int n =>
      rw [ht] at h; simp only at h
      split at h
      · cases h
      · split at h
        · cases h
        · rename_i hrt
          cases hw : writeEvent cs running x.ev with
          | error err => rw [hw] at h; simp [bind, Except.bind] at h
          | ok p =>
            rw [hw] at h; simp only [bind, Except.bind] at h
            cases hr : writeEvents cs p.2 xs with
            | error err => rw [hr] at h; cases h
            | ok rest =>
              rcases mem_cons.mp he with rfl | he'
              · simpa using hrt
              · exact ih p.2 rest hr e he'
    | _ => rw [ht] at h; cases h

theorem realtime_not_eot (ev : FEv) (h : ev.isRealtime = true) : ev.isEot = false := by
  cases ev with
  | msg m => rfl
  | metaEv m => simp [FEv.isRealtime] at h
  | unknownMeta a b => simp [FEv.isRealtime] at h

/-- **No unstorable contents are ever written.**  If `write_track` succeeds then every time is a
    non-negative integer and no message is a real-time message. -/
theorem C07_written_is_storable (cs : Charset) (tr : List TEvent) (bs : List Nat)
    (h : writeTrack cs tr = .ok bs) : ∀ e ∈ tr, timeOk e = true ∧ e.ev.isRealtime = false := by
  intro e he
  have hok : timeOk e = true := by
    cases hb : timeOk e with
    | true => rfl
    | false => rw [C07_reject_time cs tr e he hb] at h; cases h
  refine ⟨hok, ?_⟩
  cases hrt : e.ev.isRealtime with
  | false => rfl
  | true =>
    exfalso
    simp only [writeTrack] at h
    by_cases hall : tr.all timeOk = true
    · simp only [hall, Bool.not_true, Bool.false_eq_true, if_false, bind, Except.bind, pure, Except.pure] at h
      cases hf : fixEotEvents (.int 0) tr with
      | error err => rw [hf] at h; cases h
      | ok fixed =>
        rw [hf] at h; simp only at h
        cases hw : writeEvents cs none fixed with
        | error err => rw [hw] at h; cases h
        | ok body =>
          obtain ⟨e', h1, h2⟩ := fixEot_keeps tr _ fixed hf e he (realtime_not_eot _ hrt)
          have := writeEvents_no_realtime cs fixed none body hw e' h1
          rw [h2, hrt] at this; cases this
    · simp [hall, bind, Except.bind, throw, throwThe, MonadExceptOf.throw] at h

/-- a file is written only if its type/track-count combination is legal -/
theorem C07_written_type0 (cs : Charset) (f : MFile) (bs : List Nat) (h : writeFile cs f = .ok bs) :
    f.type = 0 → f.tracks.length = 1 := by
  intro h0
  apply Decidable.by_contra
  intro hl
  rw [C07_reject_type0 cs f h0 hl] at h; cases h

/-- the delta times written and read are variable-length quantities that read back exactly -/
theorem C07_vlq (n : Nat) (rest : List Nat) : readVlq (encVlq n ++ rest) = .ok (n, rest) :=
  readVlq_encVlq n rest

end Mido
