import MidoModel.Smf
import MidoProofs.Lemmas.Vlq
import MidoProofs.Lemmas.SmfRt
import MidoProofs.Lemmas.SmfSound
/-!
  C07 — MIDI file save then load preserves every track.
-/
namespace Mido
open List

/-- a type-0 file without exactly one track is refused with ValueError -/
theorem C07_reject_type0 (cs : Charset) (f : MFile) (h : f.type = 0) (hl : f.tracks.length ≠ 1) :
    writeFile cs f = .error .ValueError := by
  simp [writeFile, h, hl]

/-- a negative or non-integer time anywhere in a track (end_of_track messages included) makes
    `write_track` raise ValueError before anything is encoded -/
theorem C07_reject_time (cs : Charset) (tr : List TEvent) (e : TEvent) (he : e ∈ tr)
    (hbad : timeOk e = false) : writeTrack cs tr = .error .ValueError := by
  have : tr.all timeOk = false := by
    apply Bool.eq_false_iff.mpr
    intro hall
    have := all_eq_true.mp hall e he
    rw [hbad] at this; cases this
  simp [writeTrack, this, bind, Except.bind, throw, throwThe, MonadExceptOf.throw]

theorem fixEot_keeps (tr : List TEvent) : ∀ (acc : PyVal) (fixed : List TEvent),
    fixEotEvents acc tr = .ok fixed → ∀ e ∈ tr, e.ev.isEot = false → ∃ e' ∈ fixed, e'.ev = e.ev := by
  induction tr with
  | nil => intro acc fixed _ e he; cases he
  | cons x xs ih =>
    intro acc fixed h e he hne
    simp only [fixEotEvents] at h
    by_cases hx : x.ev.isEot = true
    · rw [if_pos hx] at h
      cases ha : pyAdd acc x.time with
      | error err => rw [ha] at h; simp [bind, Except.bind] at h
      | ok acc' =>
        rw [ha] at h; simp only [bind, Except.bind] at h
        rcases mem_cons.mp he with rfl | he'
        · rw [hne] at hx; cases hx
        · exact ih acc' fixed h e he' hne
    · rw [if_neg hx] at h
      by_cases ht : pyTruthy acc = true
      · rw [if_pos ht] at h
        cases hd : pyAdd acc x.time with
        | error err => rw [hd] at h; simp [bind, Except.bind] at h
        | ok d =>
          rw [hd] at h; simp only [bind, Except.bind] at h
          cases hr : fixEotEvents (.int 0) xs with
          | error err => rw [hr] at h; cases h
          | ok r =>
            rw [hr] at h; simp only [pure, Except.pure, Except.ok.injEq] at h; subst h
            rcases mem_cons.mp he with rfl | he'
            · exact ⟨_, mem_cons_self, rfl⟩
            · obtain ⟨e', h1, h2⟩ := ih _ r hr e he' hne
              exact ⟨e', mem_cons_of_mem _ h1, h2⟩
      · rw [if_neg ht] at h
        cases hr : fixEotEvents (.int 0) xs with
        | error err => rw [hr] at h; simp [bind, Except.bind] at h
        | ok r =>
          rw [hr] at h; simp only [bind, Except.bind, pure, Except.pure, Except.ok.injEq] at h; subst h
          rcases mem_cons.mp he with rfl | he'
          · exact ⟨_, mem_cons_self, rfl⟩
          · obtain ⟨e', h1, h2⟩ := ih _ r hr e he' hne
            exact ⟨e', mem_cons_of_mem _ h1, h2⟩

theorem writeEvents_no_realtime (cs : Charset) (es : List TEvent) : ∀ (running : Option Nat) (bs : List Nat),
    writeEvents cs running es = .ok bs → ∀ e ∈ es, e.ev.isRealtime = false := by
  induction es with
  | nil => intro _ _ _ e he; cases he
  | cons x xs ih =>
    intro running bs h e he
    simp only [writeEvents] at h
    cases ht : x.time with
    | int n =>
      rw [ht] at h; simp only at h
      split at h
      · cases h
      · split at h
        · cases h
        · rename_i hrt
          cases hw : writeEvent cs running x.ev with
          | error err => rw [hw] at h; simp [bind, Except.bind] at h
          | ok p =>
            rw [hw] at h; simp only [bind, Except.bind] at h
            cases hr : writeEvents cs p.2 xs with
            | error err => rw [hr] at h; cases h
            | ok rest =>
              rcases mem_cons.mp he with rfl | he'
              · simpa using hrt
              · exact ih p.2 rest hr e he'
    | _ => rw [ht] at h; cases h

theorem realtime_not_eot (ev : FEv) (h : ev.isRealtime = true) : ev.isEot = false := by
  cases ev with
  | msg m => rfl
  | metaEv m => simp [FEv.isRealtime] at h
  | unknownMeta a b => simp [FEv.isRealtime] at h

/-- **No unstorable contents are ever written.**  If `write_track` succeeds then every time is a
    non-negative integer and no message is a real-time message. -/
theorem C07_written_is_storable (cs : Charset) (tr : List TEvent) (bs : List Nat)
    (h : writeTrack cs tr = .ok bs) : ∀ e ∈ tr, timeOk e = true ∧ e.ev.isRealtime = false := by
  intro e he
  have hok : timeOk e = true := by
    cases hb : timeOk e with
    | true => rfl
    | false => rw [C07_reject_time cs tr e he hb] at h; cases h
  refine ⟨hok, ?_⟩
  cases hrt : e.ev.isRealtime with
  | false => rfl
  | true =>
    exfalso
    simp only [writeTrack] at h
    by_cases hall : tr.all timeOk = true
    · simp only [hall, Bool.not_true, Bool.false_eq_true, if_false, bind, Except.bind, pure, Except.pure] at h
      cases hf : fixEotEvents (.int 0) tr with
      | error err => rw [hf] at h; cases h
      | ok fixed =>
        rw [hf] at h; simp only at h
        cases hw : writeEvents cs none fixed with
        | error err => rw [hw] at h; cases h
        | ok body =>
          obtain ⟨e', h1, h2⟩ := fixEot_keeps tr _ fixed hf e he (realtime_not_eot _ hrt)
          have := writeEvents_no_realtime cs fixed none body hw e' h1
          rw [h2, hrt] at this; cases this
    · simp [hall, bind, Except.bind, throw, throwThe, MonadExceptOf.throw] at h

/-- a file is written only if its type/track-count combination is legal -/
theorem C07_written_type0 (cs : Charset) (f : MFile) (bs : List Nat) (h : writeFile cs f = .ok bs) :
    f.type = 0 → f.tracks.length = 1 := by
  intro h0
  apply Decidable.by_contra
  intro hl
  rw [C07_reject_type0 cs f h0 hl] at h; cases h

/-- the delta times written and read are variable-length quantities that read back exactly -/
theorem C07_vlq (n : Nat) (rest : List Nat) : readVlq (encVlq n ++ rest) = .ok (n, rest) :=
  readVlq_encVlq n rest


/-- **Storable file** (the property's precondition, as a predicate on the model's file value):
    the charset is a single-byte one, every event is one the writer accepts (`StorableT`: checked
    message, normal meta type or unknown meta with byte data, payload within the reader's
    1 000 000-byte limit, natural-number delta), and every track chunk fits a 32-bit length. -/
structure StorableFile (cs : Charset) (f : MFile) : Prop where
  events : ∀ tr ∈ f.tracks, ∀ e ∈ tr, StorableT cs e
  chunk : ∀ tr ∈ f.tracks, ∀ b, writeTrack cs tr = .ok b → b.length < 4294967296

/-- **C07, save then load.**  Whenever `save` succeeds on a storable file, `load` of the written
    bytes (clip off) succeeds and returns the same type, the same ticks_per_beat and, per track,
    exactly the events of `fix_end_of_track(track)` — every message with its attributes and its
    delta, every end_of_track before the last removed with its ticks carried to the next message,
    and one end_of_track at the end.  All event kinds (channel, system common, sysex, known and
    unknown meta), running status in the written bytes, any number of tracks and any length. -/
theorem C07_roundtrip (cs : Charset) (f : MFile) (hs : StorableFile cs f) (bytes : List Nat)
    (hw : writeFile cs f = .ok bytes) :
    readFile cs false bytes = .ok ⟨f.type, f.tpb, f.tracks.map normTrack⟩ := by
  unfold writeFile at hw
  split at hw
  · cases hw
  · simp only [bind, Except.bind] at hw
    cases ha : i16be f.type with
    | error e => rw [ha] at hw; cases hw
    | ok a =>
      rw [ha] at hw; simp only at hw
      cases hb : i16be (f.tracks.length : Int) with
      | error e => rw [hb] at hw; cases hw
      | ok b =>
        rw [hb] at hw; simp only at hw
        cases hc : i16be f.tpb with
        | error e => rw [hc] at hw; cases hw
        | ok c =>
          rw [hc] at hw; simp only at hw
          cases hbody : writeTracks cs f.tracks with
          | error e => rw [hbody] at hw; cases hw
          | ok body =>
            rw [hbody] at hw; simp only [pure, Except.pure, Except.ok.injEq] at hw; subst hw
            obtain ⟨a1, a2, rfl, hsa⟩ := s16_i16be _ _ ha
            obtain ⟨b1, b2, rfl, hsb⟩ := s16_i16be _ _ hb
            obtain ⟨c1, c2, rfl, hsc⟩ := s16_i16be _ _ hc
            have hrt := readTracks_write cs f.tracks body hs.events hs.chunk hbody
            simp only [readFile, mthd, u32be, be32, cons_append, nil_append, length_cons, take, drop]
            simp only [hsa, hsb, hsc, Int.toNat_natCast, hrt, bind, Except.bind, pure, Except.pure]
            simp

/-- the round trip as an identity on files already in the writer's normal form (one end_of_track,
    at the end): loading what was saved gives the file back, event for event -/
theorem C07_roundtrip_normal (cs : Charset) (f : MFile) (hs : StorableFile cs f) (bytes : List Nat)
    (hw : writeFile cs f = .ok bytes)
    (hn : ∀ tr ∈ f.tracks, fixEotEvents (.int 0) tr = .ok tr) :
    (readFile cs false bytes).map LFile.toM = .ok f := by
  rw [C07_roundtrip cs f hs bytes hw]
  simp only [Except.map, LFile.toM]
  have : (f.tracks.map normTrack).map (·.map LEvent.toT) = f.tracks := by
    rw [map_map]
    conv => rhs; rw [← map_id f.tracks]
    apply map_congr_left
    intro tr htr
    simp only [Function.comp, normTrack, hn tr htr, map_map, id]
    conv => rhs; rw [← map_id tr]
    apply map_congr_left
    intro e he
    obtain ⟨_, n, hn'⟩ := hs.events tr htr e he
    cases e with
    | mk ev t => simp only at hn'; subst hn'; simp [Function.comp, TEvent.toL, LEvent.toT]
  rw [this]


/-- the file a load returns, as a file value again -/
def MFile.norm (f : MFile) : MFile := ⟨f.type, f.tpb, f.tracks.map normT⟩

/-- **Fixed point of the saved form.**  For a storable file, what `load(save(f))` returns is
    storable again, saving it writes the very same bytes, and loading those gives the same file:
    a second save/load round changes nothing. -/
theorem C07_saved_fixed_point (cs : Charset) (f : MFile) (hs : StorableFile cs f) (bytes : List Nat)
    (hw : writeFile cs f = .ok bytes) :
    (readFile cs false bytes).map LFile.toM = .ok f.norm ∧ StorableFile cs f.norm ∧
    writeFile cs f.norm = .ok bytes := by
  have hwn : writeFile cs f.norm = .ok bytes := by
    rw [← hw]
    simp only [writeFile, MFile.norm, length_map, writeTracks_normT cs f.tracks hs.events]
  refine ⟨?_, ⟨?_, ?_⟩, hwn⟩
  · rw [C07_roundtrip cs f hs bytes hw]
    simp [Except.map, LFile.toM, MFile.norm, normT]
  · intro tr htr
    simp only [MFile.norm, mem_map] at htr
    obtain ⟨t, ht, rfl⟩ := htr
    exact (writeTrack_normT cs t (hs.events t ht)).2
  · intro tr htr b hb
    simp only [MFile.norm, mem_map] at htr
    obtain ⟨t, ht, rfl⟩ := htr
    rw [(writeTrack_normT cs t (hs.events t ht)).1] at hb
    exact hs.chunk t ht b hb

/-- **Fixed point of load-save-load, for ARBITRARY loadable bytes.**  Take any byte string (not
    necessarily produced by mido) that loads; if saving what was loaded succeeds (it is refused with
    ValueError when the file holds a real-time status byte), then loading the saved bytes gives the
    loaded file again with `end_of_track` normalised, that result is storable, saves to the very
    same bytes and loads to itself: from the second round on nothing changes.  Hypotheses that
    are limits of the format, not of the code: a sysex payload exactly at the reader's 1 000 000
    byte limit and unterminated, and track chunks of 4 GiB, are excluded. -/
theorem C07_fixed_point (cs : Charset) (b : List Nat) (hb : Bytes b) (L : LFile)
    (hl : readFile cs false b = .ok L) (b2 : List Nat) (hw : writeFile cs L.toM = .ok b2)
    (hsx : ∀ t ∈ L.tracks, ∀ e ∈ t, ∀ d, e.ev = .msg (.sysex d) → d.length + 1 ≤ maxMessageLength)
    (hfit : ∀ tr ∈ L.toM.tracks, ∀ bt, writeTrack cs tr = .ok bt → bt.length < 4294967296) :
    StorableFile cs L.toM ∧
    (readFile cs false b2).map LFile.toM = .ok L.toM.norm ∧
    StorableFile cs L.toM.norm ∧ writeFile cs L.toM.norm = .ok b2 := by
  have hsound := readFile_sound cs b hb L hl
  have hbody : ∃ body, writeTracks cs L.toM.tracks = .ok body := by
    unfold writeFile at hw
    split at hw
    · cases hw
    · simp only [bind, Except.bind] at hw
      cases ha : i16be L.toM.type with
      | error e => rw [ha] at hw; cases hw
      | ok a =>
        rw [ha] at hw; simp only at hw
        cases hb' : i16be (L.toM.tracks.length : Int) with
        | error e => rw [hb'] at hw; cases hw
        | ok b' =>
          rw [hb'] at hw; simp only at hw
          cases hc : i16be L.toM.tpb with
          | error e => rw [hc] at hw; cases hw
          | ok c =>
            rw [hc] at hw; simp only at hw
            cases hbd : writeTracks cs L.toM.tracks with
            | error e => rw [hbd] at hw; cases hw
            | ok body => exact ⟨body, rfl⟩
  obtain ⟨body, hbody⟩ := hbody
  have hs : StorableFile cs L.toM := by
    refine ⟨?_, hfit⟩
    intro tr htr e he
    obtain ⟨bt, hbt⟩ := writeTracks_mem cs _ body hbody tr htr
    have hnr := (C07_written_is_storable cs tr bt hbt e he).2
    simp only [LFile.toM, mem_map] at htr
    obtain ⟨t, ht, rfl⟩ := htr
    obtain ⟨le, hle, rfl⟩ := mem_map.mp he
    refine ⟨sound_storable cs le.ev (hsound t ht le hle) hnr (fun d hd => hsx t ht le hle d hd), le.delta, rfl⟩
  exact ⟨hs, C07_saved_fixed_point cs L.toM hs b2 hw⟩

/-- a file not written by mido (padded delta, an end_of_track in the middle, running status kept
    across it) meets the hypotheses of `C07_fixed_point`: it loads, what was loaded can be saved,
    and the saved bytes are shorter than the original (normalised) -/
def fpBytes : List Nat := [77, 84, 104, 100, 0, 0, 0, 6, 0, 0, 0, 1, 0, 96, 77, 84, 114, 107, 0, 0, 0, 16,
  0x80, 0, 0x90, 60, 64, 0, 0xff, 0x2f, 0, 5, 62, 0, 0, 0xff, 0x2f, 0]

example : Bytes fpBytes ∧
    readFile .latin1 false fpBytes = .ok ⟨0, 96, [[⟨.msg (.chan3 .note_on 0 60 64), 0⟩, ⟨.metaEv ⟨.end_of_track, []⟩, 0⟩,
      ⟨.msg (.chan3 .note_on 0 62 0), 5⟩, ⟨.metaEv ⟨.end_of_track, []⟩, 0⟩]]⟩ ∧
    writeFile .latin1 (LFile.toM ⟨0, 96, [[⟨.msg (.chan3 .note_on 0 60 64), 0⟩, ⟨.metaEv ⟨.end_of_track, []⟩, 0⟩,
      ⟨.msg (.chan3 .note_on 0 62 0), 5⟩, ⟨.metaEv ⟨.end_of_track, []⟩, 0⟩]]⟩) =
      .ok [77, 84, 104, 100, 0, 0, 0, 6, 0, 0, 0, 1, 0, 96, 77, 84, 114, 107, 0, 0, 0, 11, 0, 144, 60, 64, 5, 62,
        0, 0, 255, 47, 0] := by
  refine ⟨by intro b hb; revert b hb; decide, by decide +kernel, by decide +kernel⟩

/-- a concrete two-track file: channel messages sharing a status byte (running status), a sysex,
    a known and an unknown meta message, an end_of_track in the middle with ticks to carry -/
def sampleFile : MFile := ⟨1, 96, [
  [⟨.metaEv ⟨.set_tempo, [.int 500000]⟩, .int 0⟩, ⟨.metaEv ⟨.end_of_track, []⟩, .int 7⟩,
   ⟨.msg (.chan3 .note_on 0 60 64), .int 3⟩, ⟨.msg (.chan3 .note_on 0 62 0), .int 200⟩],
  [⟨.msg (.sysex [1, 2, 3]), .int 0⟩, ⟨.unknownMeta 0x60 [9, 255], .int 5⟩,
   ⟨.msg (.pitchwheel 1 (-8192)), .int 16384⟩]]⟩

/-- the hypotheses of `C07_roundtrip` are met by `sampleFile`, the writer accepts it, the written
    bytes use running status (the second note has no status byte), and the conclusion is what the
    reader computes -/
example : StorableFile .latin1 sampleFile ∧
    writeFile .latin1 sampleFile = .ok
      [77, 84, 104, 100, 0, 0, 0, 6, 0, 1, 0, 2, 0, 96,
       77, 84, 114, 107, 0, 0, 0, 19, 0, 255, 81, 3, 7, 161, 32, 10, 144, 60, 64, 129, 72, 62, 0, 0, 255, 47, 0,
       77, 84, 114, 107, 0, 0, 0, 23, 0, 240, 4, 1, 2, 3, 247, 5, 255, 96, 2, 9, 255, 129, 128, 0, 225, 0, 0, 0, 255, 47, 0] := by
  have ht0 : writeTrack .latin1 (sampleFile.tracks[0]) = .ok
      [77, 84, 114, 107, 0, 0, 0, 19, 0, 255, 81, 3, 7, 161, 32, 10, 144, 60, 64, 129, 72, 62, 0, 0, 255, 47, 0] := by
    decide +kernel
  have ht1 : writeTrack .latin1 (sampleFile.tracks[1]) = .ok
      [77, 84, 114, 107, 0, 0, 0, 23, 0, 240, 4, 1, 2, 3, 247, 5, 255, 96, 2, 9, 255, 129, 128, 0, 225, 0, 0, 0, 255, 47, 0] := by
    decide +kernel
  refine ⟨⟨?_, ?_⟩, by decide +kernel⟩
  · intro tr htr e he
    simp only [sampleFile, mem_cons, not_mem_nil, or_false] at htr
    rcases htr with rfl | rfl <;> simp only [mem_cons, not_mem_nil, or_false] at he
    · rcases he with rfl | rfl | rfl | rfl
      · exact ⟨⟨by decide, by decide, by intro p hp; cases hp; decide⟩, 0, rfl⟩
      · exact ⟨⟨by decide, by decide, by intro p hp; cases hp; decide⟩, 7, rfl⟩
      · exact ⟨⟨by decide, by decide, by intro d hd; cases hd⟩, 3, rfl⟩
      · exact ⟨⟨by decide, by decide, by intro d hd; cases hd⟩, 200, rfl⟩
    · rcases he with rfl | rfl | rfl
      · exact ⟨⟨by decide, by decide, by intro d hd; cases hd; decide⟩, 0, rfl⟩
      · exact ⟨⟨by decide, by decide, by decide, by decide⟩, 5, rfl⟩
      · exact ⟨⟨by decide, by decide, by intro d hd; cases hd⟩, 16384, rfl⟩
  · intro tr htr b hb
    simp only [sampleFile, mem_cons, not_mem_nil, or_false] at htr
    rcases htr with rfl | rfl
    · simp only [sampleFile, getElem_cons_zero] at ht0
      rw [ht0] at hb; cases hb; decide
    · simp only [sampleFile, getElem_cons_succ, getElem_cons_zero] at ht1
      rw [ht1] at hb; cases hb; decide

/-- a file with non-Latin text under `charset='utf-8'`: 'é€𝄞' as a track name -/
def utf8File : MFile := ⟨0, 480, [[⟨.metaEv ⟨.track_name, [.str [233, 8364, 119070]]⟩, .int 0⟩,
  ⟨.msg (.chan3 .note_on 9 36 100), .int 480⟩]]⟩

/-- `C07_roundtrip` applies to it (the charset is no longer restricted), and these are its bytes -/
example : StorableFile .utf8 utf8File ∧
    writeFile .utf8 utf8File = .ok
      [77, 84, 104, 100, 0, 0, 0, 6, 0, 0, 0, 1, 1, 224,
       77, 84, 114, 107, 0, 0, 0, 22, 0, 255, 3, 9, 0xC3, 0xA9, 0xE2, 0x82, 0xAC, 0xF0, 0x9D, 0x84, 0x9E,
       131, 96, 153, 36, 100, 0, 255, 47, 0] := by
  have ht0 : writeTrack .utf8 (utf8File.tracks[0]) = .ok
      [77, 84, 114, 107, 0, 0, 0, 22, 0, 255, 3, 9, 0xC3, 0xA9, 0xE2, 0x82, 0xAC, 0xF0, 0x9D, 0x84, 0x9E,
       131, 96, 153, 36, 100, 0, 255, 47, 0] := by decide +kernel
  refine ⟨⟨?_, ?_⟩, by decide +kernel⟩
  · intro tr htr e he
    simp only [utf8File, mem_cons, not_mem_nil, or_false] at htr
    subst htr
    simp only [mem_cons, not_mem_nil, or_false] at he
    rcases he with rfl | rfl
    · refine ⟨⟨by decide, by decide, ?_⟩, 0, rfl⟩
      intro p hp
      have : metaPayload .utf8 ⟨.track_name, [.str [233, 8364, 119070]]⟩ = .ok [0xC3, 0xA9, 0xE2, 0x82, 0xAC, 0xF0, 0x9D, 0x84, 0x9E] := by
        decide +kernel
      rw [this] at hp; cases hp; decide
    · exact ⟨⟨by decide, by decide, by intro d hd; cases hd⟩, 480, rfl⟩
  · intro tr htr b hb
    simp only [utf8File, mem_cons, not_mem_nil, or_false] at htr
    subst htr
    simp only [utf8File, getElem_cons_zero] at ht0
    rw [ht0] at hb; cases hb; decide

end Mido
