import MidoModel.Socket
import MidoProofs.Lemmas.Numeral
import MidoProofs.Props.C06
/-!
  C18 — socket ports deliver exactly the complete messages before a disconnect.
-/
namespace Mido
open List

/-! ### addresses -/

theorem splitColonAux_nocolon (cur s : List Char) (h : ∀ c ∈ s, c ≠ ':') :
    splitColonAux cur s = [cur.reverse ++ s] := by
  induction s generalizing cur with
  | nil => simp [splitColonAux]
  | cons c r ih =>
    have hc := h c (by simp)
    simp only [splitColonAux, hc, if_false]
    rw [ih _ (fun x hx => h x (by simp [hx]))]
    simp

theorem splitColon_one (a b : List Char) (ha : ∀ c ∈ a, c ≠ ':') (hb : ∀ c ∈ b, c ≠ ':') :
    splitColon (a ++ ':' :: b) = [a, b] := by
  have gen : ∀ cur, splitColonAux cur (a ++ ':' :: b) = [cur.reverse ++ a, b] := by
    induction a with
    | nil =>
      intro cur
      simp only [nil_append, splitColonAux, if_true, append_nil]
      rw [splitColonAux_nocolon [] b hb]; rfl
    | cons c r ih =>
      intro cur
      have hc := ha c (by simp)
      simp only [cons_append, splitColonAux, hc, if_false]
      rw [ih (fun x hx => ha x (by simp [hx]))]
      simp
  have := gen []
  simpa [splitColon] using this

/-- **format then parse.** For every host without ':' and every port 1..65535 -/
theorem C18_address (h : List Char) (p : Nat) (hh : ∀ c ∈ h, c ≠ ':') (hp : 0 < p ∧ p < 65536) :
    parseAddress (formatAddress h p) = .ok (h, p) := by
  have hd : ∀ c ∈ showNat p, c ≠ ':' := by
    intro c hc hcol
    have := showNat_digits p c hc
    rw [hcol] at this; revert this; decide
  simp only [parseAddress, formatAddress, splitColon_one h (showNat p) hh hd, parseNat_showNat, hp, and_self, if_true]

/-- **parse then format** (up to numeral canonicalisation): whatever parses, formats to a string
    that parses to the same pair -/
theorem C18_address_stable (s h : List Char) (p : Nat) (hs : parseAddress s = .ok (h, p)) :
    parseAddress (formatAddress h p) = .ok (h, p) := by
  unfold parseAddress at hs
  split at hs
  · rename_i h0 p0 hsp
    cases hn : parseNat p0 with
    | none => rw [hn] at hs; cases hs
    | some n =>
      rw [hn] at hs
      simp only at hs
      split at hs
      · rename_i hr
        simp only [Except.ok.injEq, Prod.mk.injEq] at hs
        obtain ⟨rfl, rfl⟩ := hs
        -- the host part of a split contains no ':'
        have hh : ∀ c ∈ h0, c ≠ ':' := by
          have gen : ∀ (s cur : List Char) (parts : List (List Char)), splitColonAux cur s = parts →
              (∀ c ∈ cur, c ≠ ':') → ∀ part ∈ parts, ∀ c ∈ part, c ≠ ':' := by
            intro s
            induction s with
            | nil => intro cur parts hp hc part hpart c hcm
                     simp [splitColonAux] at hp; subst hp; simp at hpart; subst hpart
                     exact hc c (by simpa using hcm)
            | cons x r ih =>
              intro cur parts hp hc part hpart c hcm
              simp only [splitColonAux] at hp
              by_cases hx : x = ':'
              · rw [if_pos hx] at hp; subst hp
                rcases mem_cons.mp hpart with rfl | hpart
                · exact hc c (by simpa using hcm)
                · exact ih [] _ rfl (by simp) part hpart c hcm
              · rw [if_neg hx] at hp
                exact ih (x :: cur) parts hp (by
                  intro c hc'; rcases mem_cons.mp hc' with rfl | hc'
                  · exact hx
                  · exact hc c hc') part hpart c hcm
          exact gen s [] _ hsp (by simp) h0 (by simp)
        exact C18_address h0 n hh hr
      · cases hs
  · cases hs

/-! ### the descriptor is released: the peer sees a disconnect -/
theorem C18_close_visible (s : Sock) (h : s.ioRefs = 0) :
    (socketPortClose (socketPortInit s)).fdOpen = false := by
  simp [socketPortClose, socketPortInit, Sock.fdOpen, Sock.close, Sock.fileClose, Sock.makefile, h]

/-- closing only the socket object (the pre-repair `_close`) leaves the descriptor open -/
example : ((socketPortInit {}).close).fdOpen = true := by decide

/-! ### cut streams -/

/-- the tokenizer state that matters: with status 0 the stale `bytes`/`len` are never read -/
def Tok.norm (st : Tok) : Tok := if st.status = 0 then { st with bytes := [], len := 0 } else st

theorem norm_feedByte (st : Tok) (b : Nat) : (st.norm.feedByte b).norm = (st.feedByte b).norm := by
  cases st with
  | mk status bytes len out =>
    by_cases hs : status = 0
    · subst hs
      by_cases hb : b < 128
      · simp [Tok.norm, Tok.feedByte, Tok.feedData, hb]
      · by_cases c1 : b = 0xF7
        · simp [Tok.norm, Tok.feedByte, Tok.feedStatus, hb, c1]
        by_cases c3 : 0xF8 ≤ b
        · by_cases c4 : definedStatus b = true <;> simp [Tok.norm, Tok.feedByte, Tok.feedStatus, hb, c1, c3, c4]
        by_cases c5 : b = 0xF0
        · simp [Tok.norm, Tok.feedByte, Tok.feedStatus, hb, c5]
        cases hsl : specLen b with
        | none => simp [Tok.norm, Tok.feedByte, Tok.feedStatus, hb, c1, c3, c5, hsl]
        | some n =>
          match n with
          | 1 => simp [Tok.norm, Tok.feedByte, Tok.feedStatus, hb, c1, c3, c5, hsl]
          | 0 => simp [Tok.norm, Tok.feedByte, Tok.feedStatus, hb, c1, c3, c5, hsl]
          | (k+2) => simp [Tok.norm, Tok.feedByte, Tok.feedStatus, hb, c1, c3, c5, hsl]
    · simp [Tok.norm, hs]

theorem norm_feed (bs : List Nat) : ∀ st : Tok, (st.norm.feed bs).norm = (st.feed bs).norm := by
  induction bs with
  | nil => intro st; simp [Tok.feed, Tok.norm]; split <;> simp_all
  | cons b r ih =>
    intro st
    simp only [Tok.feed, foldl_cons] at ih ⊢
    rw [← ih (st.norm.feedByte b), ← ih (st.feedByte b), norm_feedByte]

theorem norm_out (st : Tok) : st.norm.out = st.out := by
  unfold Tok.norm; split <;> rfl

/-- after a complete message, fed to an idle tokenizer, the tokenizer is as good as new -/
theorem feed_msg_idle (st : Tok) (hst : st.status = 0) (m : Msg) (hv : m.Valid) (X : List Nat) :
    (st.feed (encode m ++ X)).out = st.out ++ [encode m] ++ (Tok.feed {} X).out := by
  rw [← Tok.feed_append]
  have key : (st.feed (encode m)).out = st.out ++ [encode m] ∧ (st.feed (encode m)).status = 0 := by
    cases hr : m.isRealtime with
    | false => exact C06_resync st m hv hr
    | true =>
      obtain ⟨a, b, _⟩ := C06_resync_rt st m hv hr
      exact ⟨a, by rw [b, hst]; rfl⟩
  obtain ⟨ho, hs⟩ := key
  generalize st.feed (encode m) = s1 at ho hs
  have h1 : (s1.feed X).out = (s1.norm.feed X).out := by
    rw [← norm_out (s1.feed X), ← norm_feed, norm_out]
  have hn : s1.norm = Tok.prepend s1.out {} := by
    cases s1; simp_all [Tok.norm, Tok.prepend]
  rw [h1, hn, Tok.feed_prepend, Tok.prepend_out, ho]

/-- **A partial message is silent.** A strict prefix of the encoding of a valid message produces
    no token (so nothing partial or corrupted can ever be delivered). -/
theorem C18_partial_silent (m : Msg) (hv : m.Valid) (j : Nat) (hj : j < (encode m).length) :
    tokenize ((encode m).take j) = [] := by
  rcases encode_good m hv with ⟨s, d, he, hs, hd, hl⟩ | ⟨d, he, hd⟩
  · rw [he] at hj ⊢
    have hg := specLen_ge s _ hl
    have hr := specLen_range s _ hl
    have h1 : ¬ s < 128 := by omega
    have h2 : s ≠ 0xF7 := hg.2.2.2
    match j, d, hj, hd, hl, hr with
    | 0, _, _, _, _, _ => rfl
    | 1, [d1], _, _, hl, _ =>
      by_cases h3 : 0xF8 ≤ s
      · exfalso; unfold specLen at hl; repeat' split at hl
        all_goals first | omega | (simp at hl)
      · simp [tokenize, Tok.feed, Tok.feedByte, Tok.feedStatus, h1, h2, h3, hs, hl]
    | 1, [d1, d2], _, _, hl, _ =>
      by_cases h3 : 0xF8 ≤ s
      · exfalso; unfold specLen at hl; repeat' split at hl
        all_goals first | omega | (simp at hl)
      · simp [tokenize, Tok.feed, Tok.feedByte, Tok.feedStatus, h1, h2, h3, hs, hl]
    | 2, [d1, d2], _, hd, hl, _ =>
      have hd1 : d1 < 128 := by simp at hd; omega
      have hsz : s ≠ 0 := by omega
      by_cases h3 : 0xF8 ≤ s
      · exfalso; unfold specLen at hl; repeat' split at hl
        all_goals first | omega | (simp at hl)
      · simp [tokenize, Tok.feed, Tok.feedByte, Tok.feedStatus, Tok.feedData, h1, h2, h3, hs, hl, hd1, hsz]
    | (j+3), [d1, d2], hj, _, _, _ => simp at hj; omega
    | (j+2), [d1], hj, _, _, _ => simp at hj; omega
    | (j+1), [], hj, _, _, _ => simp at hj
    | _, _ :: _ :: _ :: _, _, _, hl, hr => simp at hr
  · rw [he] at hj ⊢
    cases j with
    | zero => rfl
    | succ j =>
      have hj' : j ≤ d.length := by simp at hj; omega
      have e : ([0xF0] ++ d ++ [0xF7]).take (j + 1) = [0xF0] ++ d.take j := by
        simp [take_append, hj', Nat.sub_eq_zero_of_le hj']
      rw [e]
      have hp := all127 d hd
      have h0 : Tok.feed {} [0xF0] = { status := 0xF0, bytes := [0xF0], len := 0, out := [] } := by
        simp [Tok.feed, Tok.feedByte, Tok.feedStatus]
      have := sysex_body (d.take j) (Tok.feed {} [0xF0])
        (fun x hx => Or.inl (hp x (mem_of_mem_take hx))) (by rw [h0]) (by rw [h0])
      simp only [tokenize, ← Tok.feed_append]
      rw [this.2.2.2, h0, filter_rt_nil _ (fun x hx => hp x (mem_of_mem_take hx))]
      rfl

theorem decodeTokens_map_encode (ms : List Msg) (hv : ∀ m ∈ ms, m.Valid) :
    decodeTokens (ms.map encode) = .ok ms := by
  induction ms with
  | nil => rfl
  | cons m r ih =>
    simp [decodeTokens, C01_decode_encode m (hv m (by simp)), ih (fun x hx => hv x (by simp [hx])),
      bind, Except.bind, pure, Except.pure]

theorem cut_tokens (ms : List Msg) (hv : ∀ m ∈ ms, m.Valid) : ∀ k,
    tokenize ((ms.flatMap encode).take k) = (ms.take (completeWithin ms k)).map encode := by
  induction ms with
  | nil => intro k; simp [tokenize, Tok.feed, completeWithin]
  | cons m r ih =>
    intro k
    have hm := hv m (by simp)
    simp only [flatMap_cons, completeWithin]
    by_cases hk : (encode m).length ≤ k
    · rw [if_pos hk]
      have e : (encode m ++ r.flatMap encode).take k =
          encode m ++ (r.flatMap encode).take (k - (encode m).length) := by
        have hk2 : k = (encode m).length + (k - (encode m).length) := by omega
        rw [hk2, take_length_add_append]
        congr 2; omega
      rw [e]
      have := feed_msg_idle {} rfl m hm ((r.flatMap encode).take (k - (encode m).length))
      simp only [tokenize] at this ⊢
      rw [this]
      have ih' := ih (fun x hx => hv x (by simp [hx])) (k - (encode m).length)
      simp only [tokenize] at ih'
      rw [ih']
      simp [Nat.add_comm]
    · rw [if_neg hk]
      have : ((encode m) ++ r.flatMap encode).take k = (encode m).take k := by
        rw [take_append_of_le_length (by omega)]
      rw [this, C18_partial_silent m hm k (by omega)]
      simp

/-- **Cut theorem.** However the byte stream of a message sequence is cut (at ANY byte offset
    `k`: peer disconnects or dies), parsing what arrived yields exactly the messages whose
    encodings arrived completely, in order — never a partial or corrupted one. -/
theorem C18_cut (ms : List Msg) (hv : ∀ m ∈ ms, m.Valid) (k : Nat) :
    parseAll ((ms.flatMap encode).take k) = .ok (ms.take (completeWithin ms k)) := by
  simp only [parseAll, cut_tokens ms hv k]
  exact decodeTokens_map_encode _ (fun m hm => hv m (mem_of_mem_take hm))

/-- segmentation of the bytes before the cut is irrelevant (C05): any way of delivering them in
    pieces leaves the parser in the same state -/
theorem C18_segmentation (segs : List (List Nat)) :
    segs.foldl Tok.feed {} = Tok.feed {} segs.flatten := C05_chunking {} segs

/-- nothing more than the complete messages: the count never exceeds the list -/
theorem completeWithin_le (ms : List Msg) (k : Nat) : completeWithin ms k ≤ ms.length := by
  induction ms generalizing k with
  | nil => simp [completeWithin]
  | cons m r ih =>
    simp only [completeWithin, length_cons]
    split
    · have := ih (k - (encode m).length); omega
    · omega

end Mido
