import MidoModel.Backend
/-!
  C20 — backend selection and port-opening arguments resolve deterministically.
-/
namespace Mido
open List

/-- creating a Backend imports nothing -/
theorem C20_lazy_init (env : BEnv) (n a : Option String) (u : Bool) : (mkBackend env n a u).loaded = false := by
  simp [mkBackend]

/-- the first use imports exactly the backend's module, once; later uses import nothing -/
theorem C20_lazy (env : BEnv) (b : Backend) (h : b.loaded = false) (hn : b.name.isEmpty = false)
    (hi : env.importable.contains b.name = true) :
    ∃ b', b.load env = .ok (b', [.import_ b.name]) ∧ b'.load env = .ok (b', []) ∧ b'.name = b.name ∧ b'.api = b.api := by
  refine ⟨{ b with loaded := true }, ?_, ?_, rfl, rfl⟩
  · have hi' : b.name ∈ env.importable := by simpa using hi
    simp [Backend.load, h, hn, hi']
  · simp [Backend.load]

theorem load_recs (b : Backend) (env : BEnv) (p : Backend × List Rec) (h : b.load env = .ok p) :
    ∀ r ∈ p.2, ∃ m, r = Rec.import_ m := by
  intro r hr
  unfold Backend.load at h
  by_cases h1 : b.loaded = true
  · rw [if_pos h1] at h; cases h; simp at hr
  · rw [if_neg h1] at h
    by_cases h2 : b.name.isEmpty = true
    · rw [if_pos h2] at h; cases h
    · rw [if_neg h2] at h
      by_cases h3 : env.importable.contains b.name = true
      · rw [if_pos h3] at h; cases h; simp at hr; exact ⟨_, hr⟩
      · rw [if_neg h3] at h; cases h

/-- an explicit port name beats the environment and the backend default, whatever `use_environ` -/
theorem C20_name_precedence (env : BEnv) (b : Backend) (x : String) (ca : Option (Option String))
    (b' : Backend) (recs : List Rec) :
    (b.openInput env (some x) ca = .ok (b', recs) → .ctor .Input (some x) (b.addApi ca) ∈ recs) ∧
    (b.openOutput env (some x) ca = .ok (b', recs) → .ctor .Output (some x) (b.addApi ca) ∈ recs) := by
  constructor <;> intro h
  · simp only [Backend.openInput, bind, Except.bind] at h
    cases hl : b.load env with
    | error e => rw [hl] at h; cases h
    | ok p => rw [hl] at h; simp [pure, Except.pure] at h; rw [← h.2]; simp
  · simp only [Backend.openOutput, bind, Except.bind] at h
    cases hl : b.load env with
    | error e => rw [hl] at h; cases h
    | ok p => rw [hl] at h; simp [pure, Except.pure] at h; rw [← h.2]; simp

/-- without an explicit name: the environment variable when `use_environ` is on, else the
    backend's default (None) -/
theorem C20_env_default (env : BEnv) (b : Backend) (ca : Option (Option String)) (b' : Backend) (recs : List Rec)
    (h : b.openInput env none ca = .ok (b', recs)) :
    .ctor .Input (if b.useEnviron then env.defInput else none) (b.addApi ca) ∈ recs := by
  simp only [Backend.openInput, bind, Except.bind] at h
  cases hl : b.load env with
  | error e => rw [hl] at h; cases h
  | ok p =>
    rw [hl] at h; simp [pure, Except.pure] at h; rw [← h.2]
    simp [Backend.envVar]

/-- the API suffix reaches every constructor and every device query of every entry point, unless
    the call passed its own `api` -/
theorem C20_api_reaches_all (env : BEnv) (b : Backend) (n : Option String) (b' : Backend) (recs : List Rec) :
    (b.openInput env n none = .ok (b', recs) ∨ b.openOutput env n none = .ok (b', recs) ∨
     b.openIoport env n none = .ok (b', recs) ∨ ∃ w names, b.getNames env w none = .ok (b', recs, names)) →
    ∀ r ∈ recs, match r with
      | .ctor _ _ a => a = truthy b.api
      | .getDevices a => a = truthy b.api
      | .import_ _ => True := by
  intro h r hr
  have hload : ∀ p, b.load env = .ok p → ∀ r ∈ p.2, ∃ m, r = .import_ m := fun p hp => load_recs b env p hp
  rcases h with h | h | h | ⟨w, names, h⟩
  · simp only [Backend.openInput, bind, Except.bind] at h
    cases hl : b.load env with
    | error e => rw [hl] at h; cases h
    | ok p =>
      rw [hl] at h; simp [pure, Except.pure] at h; rw [← h.2] at hr
      rcases mem_append.mp hr with hr | hr
      · obtain ⟨m, rfl⟩ := hload p hl r hr; trivial
      · simp at hr; subst hr; simp [Backend.addApi]
  · simp only [Backend.openOutput, bind, Except.bind] at h
    cases hl : b.load env with
    | error e => rw [hl] at h; cases h
    | ok p =>
      rw [hl] at h; simp [pure, Except.pure] at h; rw [← h.2] at hr
      rcases mem_append.mp hr with hr | hr
      · obtain ⟨m, rfl⟩ := hload p hl r hr; trivial
      · simp at hr; subst hr; simp [Backend.addApi]
  · simp only [Backend.openIoport, bind, Except.bind] at h
    cases hl : b.load env with
    | error e => rw [hl] at h; cases h
    | ok p =>
      rw [hl] at h
      by_cases hio : env.hasIOPort = true
      · simp [hio, pure, Except.pure] at h; rw [← h.2] at hr
        rcases mem_append.mp hr with hr | hr
        · obtain ⟨m, rfl⟩ := hload p hl r hr; trivial
        · simp at hr; subst hr; simp [Backend.addApi]
      · simp [hio, pure, Except.pure] at h; rw [← h.2] at hr
        rcases mem_append.mp hr with hr | hr
        · obtain ⟨m, rfl⟩ := hload p hl r hr; trivial
        · simp at hr; rcases hr with rfl | rfl <;> simp [Backend.addApi]
  · simp only [Backend.getNames, bind, Except.bind] at h
    cases hl : b.load env with
    | error e => rw [hl] at h; cases h
    | ok p =>
      rw [hl] at h; simp [pure, Except.pure] at h; rw [← h.2.1] at hr
      rcases mem_append.mp hr with hr | hr
      · obtain ⟨m, rfl⟩ := hload p hl r hr; trivial
      · by_cases hg : env.hasGetDevices = true
        · simp [hg] at hr; subst hr; simp [Backend.addApi]
        · simp [hg] at hr

/-- an explicit (non-empty) `api` beats the API in the backend name, and the module imported is
    the part of the name before the first '/' in every case -/
theorem C20_api_precedence (env : BEnv) (n : Option String) (a : String) (ha : a.isEmpty = false) (u : Bool) :
    (mkBackend env n (some a) u).api = some a ∧
    (mkBackend env n (some a) u).name = (mkBackend env n none u).name := by
  simp [mkBackend, truthy, ha]

def namesSpec (env : BEnv) : Which → List String
  | .inputs => (env.devices.filter (·.2.1)).map (·.1)
  | .outputs => (env.devices.filter (·.2.2)).map (·.1)
  | .ioports => ((env.devices.filter (·.2.1)).map (·.1)).filter
      (fun n => ((env.devices.filter (·.2.2)).map (·.1)).contains n)

/-- name listings derive from the module's device list: inputs / outputs in device order, I/O
    names = input names that are also output names, in input order -/
theorem C20_names (env : BEnv) (b : Backend) (w : Which) (ca : Option (Option String))
    (b' : Backend) (recs : List Rec) (names : List String) (hg : env.hasGetDevices = true)
    (h : b.getNames env w ca = .ok (b', recs, names)) : names = namesSpec env w := by
  simp only [Backend.getNames, bind, Except.bind] at h
  cases hl : b.load env with
  | error e => rw [hl] at h; cases h
  | ok p =>
    rw [hl] at h
    simp only [pure, Except.pure, hg, if_true, Except.ok.injEq, Prod.mk.injEq] at h
    obtain ⟨_, _, hn⟩ := h
    rw [← hn]; cases w <;> rfl

/-- the effective name of `open_ioport` -/
def effIoName (b : Backend) (env : BEnv) : Option String → Option String
  | some x => some x
  | none => truthy (b.envVar env.defIoport)

/-- what `open_ioport` must construct -/
def ioportSpec (b : Backend) (env : BEnv) (n : Option String) (ca : Option (Option String)) : List Rec :=
  if env.hasIOPort then [.ctor .IOPort (effIoName b env n) (b.addApi ca)]
  else match truthy (effIoName b env n) with
    | some x => [.ctor .Input (some x) (b.addApi ca), .ctor .Output (some x) (b.addApi ca)]
    | none => [.ctor .Input (b.envVar env.defInput) (b.addApi ca), .ctor .Output (b.envVar env.defOutput) (b.addApi ca)]

/-- `open_ioport`: the module's native IOPort when present, otherwise an Input/Output pair whose
    names come from the given name, else MIDO_DEFAULT_IOPORT, else MIDO_DEFAULT_INPUT/OUTPUT; and
    nothing else is constructed -/
theorem C20_ioport (env : BEnv) (b : Backend) (n : Option String) (ca : Option (Option String))
    (b' : Backend) (recs : List Rec) (h : b.openIoport env n ca = .ok (b', recs)) :
    ∃ imports, recs = imports ++ ioportSpec b env n ca ∧ ∀ r ∈ imports, ∃ m, r = Rec.import_ m := by
  simp only [Backend.openIoport, bind, Except.bind] at h
  cases hl : b.load env with
  | error e => rw [hl] at h; cases h
  | ok p =>
    rw [hl] at h
    refine ⟨p.2, ?_, load_recs b env p hl⟩
    by_cases hio : env.hasIOPort = true
    · simp only [hio, if_true, pure, Except.pure, Except.ok.injEq, Prod.mk.injEq] at h
      rw [← h.2]; simp only [ioportSpec, hio, if_true]; cases n <;> rfl
    · simp only [hio, Bool.false_eq_true, if_false, pure, Except.pure, Except.ok.injEq, Prod.mk.injEq] at h
      rw [← h.2]; simp only [ioportSpec, hio, Bool.false_eq_true, if_false]
      cases n <;> simp only [effIoName] <;> split <;> simp_all

end Mido
