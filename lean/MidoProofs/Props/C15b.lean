import MidoProofs.Lemmas.CopyOv
/-!
  C15 — `msg.copy(**overrides)` equals a freshly constructed message with those values.
-/
namespace Mido
open List

theorem normData_nonsysex (t : MType) (h : t ≠ .sysex) (v : List PyVal) : normData t v = .ok v := by
  unfold normData
  split
  · exact absurd rfl h
  · rfl

theorem checkAll_unk (t : MType) (v : List PyVal) (tm : PyVal) (u : List String) (h : u ≠ []) :
    ∃ e, checkAll t v tm u = .error e := by
  unfold checkAll
  simp only [bind, Except.bind]
  cases checkAttr "time" tm with
  | error e => exact ⟨e, rfl⟩
  | ok _ =>
    simp only []
    cases checkVals t.valueNames v with
    | error e => exact ⟨e, rfl⟩
    | ok _ =>
      have : u.isEmpty = false := by cases u <;> simp_all
      simp [this, throw, throwThe, MonadExceptOf.throw]

theorem nodata_index (t : MType) (h : t ≠ .sysex) : indexOfName t.valueNames "data" = none := by
  cases t <;> first | exact absurd rfl h | decide

theorem toOption_bind_comm {α β} (a : Except Err α) (b : Except Err β) (f : β → γ) :
    (do let _ ← a; let y ← b; pure (f y) : Except Err γ).toOption = (do let y ← b; let _ ← a; pure (f y) : Except Err γ).toOption := by
  cases a <;> cases b <;> rfl

/-- **Copy with overrides = fresh construction.**  For every valid message and EVERY set of
    overrides (valid or not, known attribute names or not; a set: no name twice):
    `msg.copy(**ov)` succeeds exactly when `Message(msg.type, **{**vars(msg), **ov})` does, and
    then returns an equal message. -/
theorem C15_copy_overrides (o : MObj) (hv : o.valid = true) (kw : List (String × PyVal))
    (hnd : (kw.map (·.1)).Nodup) :
    (copyObj o none kw).toOption = (construct o.type.name (toDictKw o ++ kw)).toOption := by
  obtain ⟨hl, ht, hvals, hsx⟩ := (valid_iff o).mp hv
  by_cases hkw : kw = []
  · subst hkw
    simp only [copyObj, isEmpty_nil, Option.isNone_none, Bool.and_self, if_true, append_nil, C14_dict o hv]
  · have hne : kw.isEmpty = false := by cases kw <;> simp_all
    have hcopy : copyObj o none kw = copyObj.copyCore o kw := by
      simp [copyObj, hne]
    have hcons : construct o.type.name (toDictKw o ++ kw) = (do
        let vals' ← normData o.type (applyKw o.type kw o.vals o.time []).1
        checkAll o.type vals' (applyKw o.type kw o.vals o.time []).2.1 (applyKw o.type kw o.vals o.time []).2.2
        pure ⟨o.type, vals', (applyKw o.type kw o.vals o.time []).2.1⟩) := by
      unfold construct
      rw [ofName_name]
      simp only [applyKw_append, applyKw_dict o hl]
    have hcore : copyObj.copyCore o kw = (do
        let kw' ← kw.mapM tupleData
        checkAll o.type (applyKw o.type kw' o.vals o.time []).1 (applyKw o.type kw' o.vals o.time []).2.1
          (applyKw o.type kw' o.vals o.time []).2.2
        let vals' ← normData o.type (applyKw o.type kw' o.vals o.time []).1
        pure ⟨o.type, vals', (applyKw o.type kw' o.vals o.time []).2.1⟩) := rfl
    rw [hcopy, hcore, hcons]
    by_cases hit : ∀ nv ∈ kw, nv.1 = "data" → ∃ xs, iterItems nv.2 = .ok xs
    · rw [mapM_tupleData_ok kw hit]
      simp only [bind, Except.bind]
      by_cases hty : o.type = .sysex
      · obtain ⟨xs0, hxs0⟩ := hsx hty
        obtain ⟨t, vals, time⟩ := o
        simp only at hty hxs0 hit ⊢
        subst hty; subst hxs0
        have hmap : [PyVal.tuple xs0].map toTuple = [PyVal.tuple xs0] := rfl
        have h1 := applyKw_toT_sysex kw [PyVal.tuple xs0] time []
        rw [hmap] at h1
        obtain ⟨w, hw, hor⟩ := sysex_slot kw (.tuple xs0) time []
        have hiter : ∃ xs, iterItems w = .ok xs := by
          rcases hor with rfl | ⟨nv, hm, hname, rfl⟩
          · exact ⟨xs0, rfl⟩
          · exact hit nv hm hname
        obtain ⟨xs, hxs⟩ := hiter
        have htt : toTuple w = .tuple xs := by simp [toTuple, hxs]
        have hn1 : normData MType.sysex [w] = .ok [PyVal.tuple xs] := by simp [normData, hxs, Except.map]
        have hn2 : normData MType.sysex [PyVal.tuple xs] = .ok [PyVal.tuple xs] := rfl
        rw [h1, hw]
        simp only [map_cons, map_nil, htt, hn1, hn2]
      · rw [applyKw_toT_nodata o.type (nodata_index o.type hty) kw]
        simp only [normData_nonsysex o.type hty]
    · have hex : ∃ nv ∈ kw, nv.1 = "data" ∧ ∃ e, iterItems nv.2 = .error e := by
        by_cases h : ∃ nv ∈ kw, nv.1 = "data" ∧ ∃ e, iterItems nv.2 = .error e
        · exact h
        · exfalso; apply hit
          intro nv hm hname
          cases hi : iterItems nv.2 with
          | ok xs => exact ⟨xs, rfl⟩
          | error e => exact absurd ⟨nv, hm, hname, e, hi⟩ h
      obtain ⟨e, he⟩ := mapM_tupleData_err kw hex
      rw [he]
      simp only [bind, Except.bind]
      obtain ⟨nv, hm, hname, e2, he2⟩ := hex
      by_cases hty : o.type = .sysex
      · obtain ⟨xs0, hxs0⟩ := hsx hty
        obtain ⟨t, vals, time⟩ := o
        simp only at hty hxs0 ⊢
        subst hty; subst hxs0
        have hmem : ("data", nv.2) ∈ kw := by rw [← hname]; exact hm
        rw [sysex_slot_nodup kw hnd nv.2 hmem]
        simp [normData, he2, Except.map, Except.toOption]
      · simp only [normData_nonsysex o.type hty]
        have := unk_nonempty o.type (nodata_index o.type hty) kw o.vals o.time [] (Or.inr ⟨nv, hm, hname⟩)
        obtain ⟨e3, he3⟩ := checkAll_unk o.type (applyKw o.type kw o.vals o.time []).1
          (applyKw o.type kw o.vals o.time []).2.1 _ this
        rw [he3]; rfl

/-- a valid message and overrides of every kind (valid value, invalid value, unknown name) -/
example :
    copyObj ⟨.note_on, [.int 1, .int 60, .int 64], .int 0⟩ none [("note", .int 61), ("time", .flt 150)] =
      .ok ⟨.note_on, [.int 1, .int 61, .int 64], .flt 150⟩ ∧
    (copyObj ⟨.note_on, [.int 1, .int 60, .int 64], .int 0⟩ none [("note", .int 128)]).toOption = none ∧
    (copyObj ⟨.note_on, [.int 1, .int 60, .int 64], .int 0⟩ none [("data", .list [])]).toOption = none ∧
    copyObj ⟨.sysex, [.tuple [.int 1]], .int 0⟩ none [("data", .list [.int 2, .int 3])] =
      .ok ⟨.sysex, [.tuple [.int 2, .int 3]], .int 0⟩ := by decide +kernel

end Mido
