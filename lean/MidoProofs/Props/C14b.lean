import MidoProofs.Lemmas.StrRt3
/-!
  C14 — `from_str(str(m)) == m` for every valid message (kept in its own file: the lemmas it
  needs import `Props/C14` for the dict theorem).
-/
namespace Mido
open List

/-- the attribute pairs of a valid message are printable -/
theorem valid_pairs (o : MObj) (hv : o.valid = true) :
    ∀ nv ∈ o.type.valueNames.zip o.vals, nv.1 ∈ o.type.valueNames ∧ PV nv.1 nv.2 := by
  obtain ⟨hl, ht, hvals, hsx⟩ := (valid_iff o).mp hv
  intro nv hm
  have hn : nv.1 ∈ o.type.valueNames := (of_mem_zip hm).1
  refine ⟨hn, ?_⟩
  have hc := checkVals_mem _ _ hvals nv hm
  by_cases hd : nv.1 = "data"
  · right
    refine ⟨hd, ?_⟩
    have hty := data_only_sysex o.type (hd ▸ hn)
    obtain ⟨xs, hxs⟩ := hsx hty
    rw [hty, hxs] at hm
    simp only [MType.valueNames, zip_cons_cons, zip_nil_right, mem_singleton] at hm
    subst hm
    simp only [checkAttr, beq_self_eq_true, if_true, iterItems, bind, Except.bind] at hc
    have : ("data" == "channel") = false := by decide
    simp only [show ("data" == "channel") = false by decide, show ("data" == "pitch") = false by decide,
      show ("data" == "pos") = false by decide, show ("data" == "frame_type") = false by decide,
      show ("data" == "frame_value") = false by decide, Bool.false_eq_true, if_false] at hc
    obtain ⟨ns, rfl⟩ := checkDataItems_ok xs hc
    exact ⟨ns, rfl⟩
  · left
    exact ⟨hd, checkAttr_ok_int nv.1 nv.2 (valueNames_sub _ _ hn) hd hc⟩

/-- **`Message.from_str(str(m)) == m`** for every valid message: all 18 types, every attribute
    value, sysex data of any length (empty included), integer times and the float times of the
    model (hundredths).  Character-level: `str.split()`, `split('=', 1)`, `int()`, `float()`,
    the parenthesised data list. -/
theorem C14_from_str_str (o : MObj) (hv : o.valid = true) : fromStr (msg2str o) = .ok o := by
  obtain ⟨hl, ht, hvals, hsx⟩ := (valid_iff o).mp hv
  have hpairs := valid_pairs o hv
  have htime := time_shape o.time ht
  -- the printed tokens
  have hmsg : msg2str o = intercalateC ' ' ([strOf o.type.name] ++ (o.type.valueNames.zip o.vals).map tokOf ++
      [strOf "time" ++ '=' :: showTimeVal o.time]) := rfl
  have htoks : ∀ t ∈ [strOf o.type.name] ++ (o.type.valueNames.zip o.vals).map tokOf ++
      [strOf "time" ++ '=' :: showTimeVal o.time], t ≠ [] ∧ NoSp t := by
    intro t hm
    simp only [mem_append, mem_singleton, mem_map] at hm
    rcases hm with (rfl | ⟨nv, hnv, rfl⟩) | rfl
    · exact ⟨(typeName_facts o.type).2, (typeName_facts o.type).1⟩
    · obtain ⟨hn, hpv⟩ := hpairs nv hnv
      obtain ⟨hch, _, _, hne⟩ := name_facts nv.1 (valueNames_sub _ _ hn)
      refine ⟨by simp [tokOf, hne], ?_⟩
      exact noSp_append _ _ (fun c hc => (hch c hc).2) (noSp_cons _ _ (by decide) (noSp_showValText _ _ hpv))
    · refine ⟨by simp [time_facts.2], ?_⟩
      exact noSp_append _ _ (fun c hc => (time_facts.1 c hc).2) (noSp_cons _ _ (by decide) (noSp_showTimeVal _ htime))
  have hsplit := splitWs_intercalate _ htoks
  -- the keyword loop
  have hnames : ((o.type.valueNames.zip o.vals).map (·.1)) = o.type.valueNames := zip_map_fst _ _ hl.symm
  have hgo : str2kw.go o.type ((o.type.valueNames.zip o.vals).map tokOf ++ [strOf "time" ++ '=' :: showTimeVal o.time]) [] =
      .ok ((o.type.valueNames.zip o.vals).map (fun nv => (nv.1, parsedVal nv.1 nv.2)) ++ [("time", o.time)]) := by
    rw [go_attrs o.type _ _ [] hpairs (by rw [hnames]; exact valueNames_nodup _) (by simp)]
    simp only [nil_append]
    apply go_time _ _ _ htime
    simp only [map_map]
    intro hm
    obtain ⟨nv, hnv, he⟩ := mem_map.mp hm
    simp only [Function.comp] at he
    exact (name_facts nv.1 (valueNames_sub _ _ (hpairs nv hnv).1)).2.1 he
  have hkw : str2kw (msg2str o) = .ok (o.type.name,
      (o.type.valueNames.zip o.vals).map (fun nv => (nv.1, parsedVal nv.1 nv.2)) ++ [("time", o.time)]) := by
    unfold str2kw
    rw [hmsg, hsplit]
    simp only [singleton_append, cons_append, nil_append, strOf, String.ofList_toList, ofName_name]
    have := hgo
    simp only [strOf] at this
    rw [this]; rfl
  unfold fromStr
  simp only [hkw, bind, Except.bind]
  -- the construction
  by_cases hty : o.type = .sysex
  · obtain ⟨xs, hxs⟩ := hsx hty
    obtain ⟨t, vals, time⟩ := o
    simp only at hty hxs hvals ht ⊢
    subst hty; subst hxs
    simp only [MType.valueNames, checkVals, bind, Except.bind] at hvals
    cases hc : checkAttr "data" (.tuple xs) with
    | error e => rw [hc] at hvals; cases hvals
    | ok u =>
      simp [construct, MType.name, MType.ofName, MType.all, MType.valueNames, applyKw, indexOfName, indexOfName.go,
        parsedVal, normData, iterItems, Except.map, checkAll, checkVals, bind, Except.bind, ht, hc, pure, Except.pure,
        defaultOf]
  · have hid : (o.type.valueNames.zip o.vals).map (fun nv => (nv.1, parsedVal nv.1 nv.2)) = o.type.valueNames.zip o.vals := by
      conv => rhs; rw [← map_id (o.type.valueNames.zip o.vals)]
      apply map_congr_left
      intro nv hnv
      have hn := (hpairs nv hnv).1
      have hnd : nv.1 ≠ "data" := fun e => hty (data_only_sysex _ (e ▸ hn))
      have h4 : (nv.1 == "data") = false := by simpa using hnd
      simp [parsedVal, h4]
    rw [hid]
    exact C14_dict o hv

/-- the hypothesis is met by concrete messages of every shape, and the printed text is the
    documented one -/
example : (⟨.sysex, [.tuple [.int 1, .int 127]], .flt (-250)⟩ : MObj).valid = true ∧
    (⟨.note_on, [.int 15, .int 60, .int 0], .int 480⟩ : MObj).valid = true ∧
    (⟨.clock, [], .flt 5⟩ : MObj).valid = true ∧
    msg2str ⟨.pitchwheel, [.int 3, .int (-8192)], .flt 1⟩ = "pitchwheel channel=3 pitch=-8192 time=0.01".toList := by
  decide +kernel

end Mido
