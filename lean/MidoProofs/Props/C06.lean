import MidoProofs.Props.C05
import MidoProofs.Props.C01
import MidoProofs.Props.C02
/-!
  C06 — the parser resynchronises: a complete message is always recognised.
-/
namespace Mido
open List

theorem feed_cons (st : Tok) (b : Nat) (r : List Nat) : st.feed (b :: r) = (st.feedByte b).feed r := rfl
theorem feed_nil (st : Tok) : st.feed [] = st := rfl

/-- a fixed-length message is recognised from ANY tokenizer state, reachable or not -/
theorem resync_fixed (st : Tok) (s : Nat) (d : List Nat) (hs : s < 0xF8)
    (hl : specLen s = some (d.length + 1)) (hd : d.all (· ≤ 127) = true) :
    (st.feed (s :: d)).out = st.out ++ [s :: d] ∧ (st.feed (s :: d)).status = 0 := by
  have hg := specLen_ge s _ hl
  have h1 : ¬ s < 128 := by omega
  have h2 : s ≠ 0xF7 := hg.2.2.2
  have h3 : ¬ 0xF8 ≤ s := by omega
  have h4 : s ≠ 0xF0 := hg.2.2.1
  have hsz : s ≠ 0 := by omega
  rw [feed_cons]
  have e0 : st.feedByte s = st.feedStatus s := by simp [Tok.feedByte, h1]
  rw [e0]
  unfold Tok.feedStatus
  rw [if_neg h2, if_neg h3, if_neg h4, hl]
  match d, hd, hl with
  | [], _, _ => first | done | exact ⟨rfl, rfl⟩
  | [d1], hd, hl =>
    have hd1 : d1 < 128 := by simp at hd; omega
    simp [Tok.feed, Tok.feedByte, Tok.feedData, hd1, hsz]
  | [d1, d2], hd, hl =>
    have hd1 : d1 < 128 := by simp at hd; omega
    have hd2 : d2 < 128 := by simp at hd; omega
    simp [Tok.feed, Tok.feedByte, Tok.feedData, hd1, hd2, hsz]
  | _ :: _ :: _ :: _, _, hl =>
    have := specLen_range s _ hl
    simp at this

/-- inside an open sysex: data bytes accumulate, real-time bytes are emitted at once, the
    sysex stays open -/
theorem sysex_body (xs : List Nat) : ∀ (st : Tok),
    (∀ x ∈ xs, x < 128 ∨ (0xF8 ≤ x ∧ x < 256)) → st.status = 0xF0 → st.len = 0 →
    (st.feed xs).status = 0xF0 ∧ (st.feed xs).bytes = st.bytes ++ xs.filter (· < 128) ∧
    (st.feed xs).len = 0 ∧
    (st.feed xs).out = st.out ++ (xs.filter definedRt).map (fun b => [b]) := by
  induction xs with
  | nil => intro st _ h h0; simp [feed_nil, h, h0]
  | cons x r ih =>
    intro st hx hst hlen
    have hr := fun y hy => hx y (mem_cons_of_mem _ hy)
    rw [feed_cons]
    rcases hx x (by simp) with hlt | ⟨hge, hlt⟩
    · have hnd : definedRt x = false := by simp [definedRt]; intro; omega
      have e : st.feedByte x = { st with bytes := st.bytes ++ [x] } := by
        simp [Tok.feedByte, hlt, Tok.feedData, hst, hlen]
      rw [e]
      obtain ⟨a, b, c, d⟩ := ih { st with bytes := st.bytes ++ [x] } hr hst hlen
      refine ⟨a, ?_, c, ?_⟩
      · rw [b]; simp [filter_cons, hlt]
      · rw [d]; simp [filter_cons, hnd]
    · have h1 : ¬ x < 128 := by omega
      have h2 : x ≠ 0xF7 := by omega
      by_cases hdef : definedStatus x = true
      · have hd : definedRt x = true := by simp [definedRt, hdef]; omega
        have e : st.feedByte x = { st with out := st.out ++ [[x]] } := by
          simp [Tok.feedByte, h1, Tok.feedStatus, h2, hge, hst, hdef]
        rw [e]
        obtain ⟨a, b, c, d⟩ := ih { st with out := st.out ++ [[x]] } hr hst hlen
        refine ⟨a, ?_, c, ?_⟩
        · rw [b]; simp [filter_cons, h1]
        · rw [d]; simp [filter_cons, hd]
      · have hd : definedRt x = false := by simp [definedRt]; intro; simpa using hdef
        have e : st.feedByte x = st := by
          simp [Tok.feedByte, h1, Tok.feedStatus, h2, hge, hst, hdef]
        rw [e]
        obtain ⟨a, b, c, d⟩ := ih st hr hst hlen
        refine ⟨a, ?_, c, ?_⟩
        · rw [b]; simp [filter_cons, h1]
        · rw [d]; simp [filter_cons, hd]

/-- a sysex with real-time bytes anywhere strictly inside it, from ANY tokenizer state -/
theorem resync_sysex_rt (st : Tok) (xs : List Nat)
    (hx : ∀ x ∈ xs, x < 128 ∨ (0xF8 ≤ x ∧ x < 256)) :
    (st.feed ([0xF0] ++ xs ++ [0xF7])).out =
      st.out ++ (xs.filter definedRt).map (fun b => [b]) ++ [[0xF0] ++ xs.filter (· < 128) ++ [0xF7]] ∧
    (st.feed ([0xF0] ++ xs ++ [0xF7])).status = 0 := by
  rw [← Tok.feed_append, ← Tok.feed_append]
  have h0 : st.feed [0xF0] = { st with status := 0xF0, bytes := [0xF0], len := 0 } := by
    simp [Tok.feed, Tok.feedByte, Tok.feedStatus]
  obtain ⟨a, b, c, d⟩ := sysex_body xs (st.feed [0xF0]) hx (by simp [h0]) (by simp [h0])
  generalize (st.feed [0xF0]).feed xs = s2 at a b c d
  simp only [h0] at b d
  simp [Tok.feed, Tok.feedByte, Tok.feedStatus, a, b, d]

theorem all127 (d : List Nat) (h : d.all (· ≤ 127) = true) : ∀ x ∈ d, x < 128 := by
  intro x hx; have := all_eq_true.mp h x hx; simp at this; omega

theorem filter_lt_id (d : List Nat) (h : ∀ x ∈ d, x < 128) : d.filter (· < 128) = d := by
  apply filter_eq_self.mpr; intro x hx; simpa using h x hx

theorem filter_rt_nil (d : List Nat) (h : ∀ x ∈ d, x < 128) : d.filter definedRt = [] := by
  apply filter_eq_nil_iff.mpr; intro x hx
  have := h x hx; simp [definedRt]; intro; omega

local macro "ifs_omega" : tactic =>
  `(tactic| ((try simp only [Bool.not_true, Bool.false_eq_true, if_false]); (repeat' split) <;>
      first | rfl | (exfalso; omega) | omega))

/-- the encoding of a valid message is one good token -/
theorem encode_good (m : Msg) (h : m.Valid) : GoodTok (encode m) := by
  cases m with
  | chan3 k ch d1 d2 =>
    simp only [Msg.Valid, Msg.valid, Bool.and_eq_true, decide_eq_true_eq] at h
    have hb := chan_or k.base (by cases k <;> simp [C3.base]) ch (by omega)
    left
    refine ⟨_, [d1, d2], rfl, ?_, by simp; omega, ?_⟩ <;> rw [hb.1] <;> cases k <;>
      simp only [C3.base] <;> first | omega | (unfold specLen; ifs_omega)
  | chan2 k ch d1 =>
    simp only [Msg.Valid, Msg.valid, Bool.and_eq_true, decide_eq_true_eq] at h
    have hb := chan_or k.base (by cases k <;> simp [C2.base]) ch (by omega)
    left
    refine ⟨_, [d1], rfl, ?_, by simp; omega, ?_⟩ <;> rw [hb.1] <;> cases k <;>
      simp only [C2.base] <;> first | omega | (unfold specLen; ifs_omega)
  | pitchwheel ch p =>
    simp only [Msg.Valid, Msg.valid, Bool.and_eq_true, decide_eq_true_eq] at h
    have hb := chan_or 0xe0 (by simp) ch (by omega)
    left
    simp only [encode, and127, shr7]
    refine ⟨_, [_, _], rfl, ?_, by simp; omega, ?_⟩ <;> rw [hb.1] <;>
      first | omega | (unfold specLen; ifs_omega)
  | sysex d => right; exact ⟨d, rfl, h⟩
  | quarter_frame ft fv =>
    simp only [Msg.Valid, Msg.valid, Bool.and_eq_true, decide_eq_true_eq] at h
    left
    refine ⟨0xf1, [_], rfl, by decide, ?_, rfl⟩
    simp [shl4, or16 ft fv (by omega)]; omega
  | songpos p =>
    simp only [Msg.Valid, Msg.valid, decide_eq_true_eq] at h
    left
    refine ⟨0xf2, [_, _], rfl, by decide, ?_, rfl⟩
    simp [and127, shr7]; omega
  | song_select s =>
    simp only [Msg.Valid, Msg.valid, decide_eq_true_eq] at h
    left
    exact ⟨0xf3, [s], rfl, by decide, by simp; omega, rfl⟩
  | sys1 k =>
    left
    exact ⟨k.status, [], rfl, by cases k <;> decide, rfl, by cases k <;> rfl⟩

/-- **Resynchronisation.** From ANY tokenizer state — after garbage, stray bytes or a message
    cut short — the encoding of a valid non-real-time message is recognised as exactly that
    token and the tokenizer is left idle. -/
theorem C06_resync (st : Tok) (m : Msg) (h : m.Valid) (hn : m.isRealtime = false) :
    (st.feed (encode m)).out = st.out ++ [encode m] ∧ (st.feed (encode m)).status = 0 := by
  rcases encode_good m h with ⟨s, d, he, hs, hd, hl⟩ | ⟨d, he, hd⟩
  · rw [he]
    refine resync_fixed st s d ?_ hl hd
    have : isRtTok (encode m) = false := by rw [isRtTok_encode m h]; exact hn
    rw [he] at this
    have hr := specLen_range s _ hl
    match d, this, hl with
    | [], this, _ => simp [isRtTok] at this; omega
    | _ :: _, _, hl =>
      -- a status byte with data bytes is below 0xF8
      unfold specLen at hl
      repeat' split at hl
      all_goals first | omega | (simp at hl; done) | (simp at hl; omega)
  · have hp := all127 d hd
    have := resync_sysex_rt st d (fun x hx => Or.inl (hp x hx))
    rw [filter_lt_id d hp, filter_rt_nil d hp] at this
    rw [he]; simpa using this

/-- real-time messages are recognised from any state too, and leave an open sysex open -/
theorem C06_resync_rt (st : Tok) (m : Msg) (h : m.Valid) (hr : m.isRealtime = true) :
    (st.feed (encode m)).out = st.out ++ [encode m] ∧
    (st.feed (encode m)).status = (if st.status = 0xF0 then 0xF0 else 0) ∧
    (st.status = 0xF0 → (st.feed (encode m)).bytes = st.bytes ∧ (st.feed (encode m)).len = st.len) := by
  cases m with
  | sys1 k =>
    cases k <;> simp [Msg.isRealtime, Msg.status, S1.status] at hr <;>
      (by_cases hs : st.status = 0xF0 <;>
        simp [encode, S1.status, Tok.feed, Tok.feedByte, Tok.feedStatus, definedStatus, specLen, hs])
  | chan3 k ch d1 d2 => rw [← isRtTok_encode _ h, isRtTok_long _ (by simp [encode])] at hr; cases hr
  | chan2 k ch d1 => rw [← isRtTok_encode _ h, isRtTok_long _ (by simp [encode])] at hr; cases hr
  | pitchwheel ch p => rw [← isRtTok_encode _ h, isRtTok_long _ (by simp [encode])] at hr; cases hr
  | sysex d => rw [← isRtTok_encode _ h, isRtTok_long _ (by simp [encode])] at hr; cases hr
  | quarter_frame ft fv => simp [Msg.isRealtime, Msg.status] at hr
  | songpos p => simp [Msg.isRealtime, Msg.status] at hr
  | song_select s => simp [Msg.isRealtime, Msg.status] at hr

/-- the out-list after feeding an encoded message, real-time or not -/
theorem feed_encode_out (st : Tok) (m : Msg) (h : m.Valid) :
    (st.feed (encode m)).out = st.out ++ [encode m] := by
  cases hr : m.isRealtime with
  | false => exact (C06_resync st m h hr).1
  | true => exact (C06_resync_rt st m h hr).1

/-- **Prefix theorem.** For ANY byte prefix `P` and any valid message `m`: parsing `P` followed
    by the encoding of `m` yields exactly the messages of `P` followed by `m`. -/
theorem C06_prefix (P : List Nat) (hP : ∀ b ∈ P, b < 256) (m : Msg) (h : m.Valid) :
    parseAll (P ++ encode m) = .ok (parsed P ++ [m]) := by
  obtain ⟨ms, hms, _, _⟩ := C04_total P hP
  have hparsed : parsed P = ms := by simp [parsed, hms]
  have htok : tokenize (P ++ encode m) = tokenize P ++ [encode m] := by
    simp only [tokenize, ← Tok.feed_append]
    exact feed_encode_out _ m h
  have h1 : decodeTokens [encode m] = .ok [m] := by
    simp [decodeTokens, C01_decode_encode m h, bind, Except.bind, pure, Except.pure]
  simp only [parseAll, htok, hparsed]
  exact decodeTokens_append _ _ _ _ hms h1

theorem encode_bytes_lt (m : Msg) (h : m.Valid) : ∀ b ∈ encode m, b < 256 := by
  intro b hb
  obtain ⟨s, ds, he, _, _, hs, hd, hsx⟩ := C01_wellformed m h
  rw [he] at hb
  rcases mem_cons.mp hb with rfl | hb2
  · omega
  · by_cases hq : ∃ p, m = .sysex p
    · obtain ⟨p, hp⟩ := hq
      obtain ⟨e1, e2⟩ := hsx p hp
      rw [e1] at hb2
      rcases mem_append.mp hb2 with hb3 | hb3
      · have := e2 b hb3; omega
      · simp at hb3; omega
    · have := hd (fun p hp => hq ⟨p, hp⟩) b hb2; omega

theorem concat_after (ms : List Msg) (h : ∀ m ∈ ms, m.Valid) :
    ∀ (P : List Nat), (∀ b ∈ P, b < 256) →
      parseAll (P ++ ms.flatMap encode) = .ok (parsed P ++ ms) := by
  induction ms with
  | nil =>
    intro P hP
    obtain ⟨ms, hms, _, _⟩ := C04_total P hP
    simp [parsed, hms]
  | cons m r ih =>
    intro P hP
    have hm := h m (by simp)
    have hP' : ∀ b ∈ P ++ encode m, b < 256 := by
      intro b hb; rcases mem_append.mp hb with hb | hb
      · exact hP b hb
      · exact encode_bytes_lt m hm b hb
    have := ih (fun x hx => h x (by simp [hx])) (P ++ encode m) hP'
    simp only [flatMap_cons, ← append_assoc]
    rw [this]
    have hp := C06_prefix P hP m hm
    simp [parsed, hp]

/-- **Concatenation.** Any concatenation of encoded valid messages parses back to the list. -/
theorem C06_concat (ms : List Msg) (h : ∀ m ∈ ms, m.Valid) :
    parseAll (ms.flatMap encode) = .ok ms := by
  have := concat_after ms h [] (by simp)
  simpa [parsed, parseAll, tokenize, Tok.feed, decodeTokens] using this

def rtMsg (b : Nat) : Msg := match s1OfStatus b with | some k => .sys1 k | none => .sys1 .clock

theorem decode_rt_tokens (xs : List Nat) (h : ∀ x ∈ xs, definedRt x = true) :
    decodeTokens (xs.map (fun b => [b])) = .ok (xs.map rtMsg) := by
  induction xs with
  | nil => rfl
  | cons x r ih =>
    have hx := h x (by simp)
    simp only [definedRt, Bool.and_eq_true, decide_eq_true_eq] at hx
    have hx' : x = 248 ∨ x = 250 ∨ x = 251 ∨ x = 252 ∨ x = 254 ∨ x = 255 := by
      have hd := hx.2
      have h8 := hx.1
      simp only [definedStatus, specLen, Bool.or_eq_true, beq_iff_eq] at hd
      rcases hd with hd | hd
      · omega
      · repeat' split at hd
        all_goals first | omega | (simp at hd)
    have hx1 : decodeNats [x] = .ok (rtMsg x) := by
      rcases hx' with rfl | rfl | rfl | rfl | rfl | rfl <;> rfl
    simp [decodeTokens, hx1, ih (fun y hy => h y (by simp [hy])), bind, Except.bind, pure, Except.pure]

/-- **Real-time inside sysex.** Any number of real-time bytes at any positions strictly inside
    the encoding of a sysex message are delivered, ahead of it, without changing its payload
    (undefined real-time bytes 0xF9/0xFD are dropped silently). -/
theorem C06_sysex_rt (P : List Nat) (hP : ∀ b ∈ P, b < 256) (xs : List Nat)
    (hx : ∀ x ∈ xs, x < 128 ∨ (0xF8 ≤ x ∧ x < 256)) :
    parseAll (P ++ ([0xF0] ++ xs ++ [0xF7])) =
      .ok (parsed P ++ (xs.filter definedRt).map rtMsg ++ [.sysex (xs.filter (· < 128))]) := by
  obtain ⟨ms, hms, _, _⟩ := C04_total P hP
  have hparsed : parsed P = ms := by simp [parsed, hms]
  have htok : tokenize (P ++ ([0xF0] ++ xs ++ [0xF7])) =
      tokenize P ++ (xs.filter definedRt).map (fun b => [b]) ++ [[0xF0] ++ xs.filter (· < 128) ++ [0xF7]] := by
    simp only [tokenize]
    rw [← Tok.feed_append]
    exact (resync_sysex_rt _ xs hx).1
  have h1 := decode_rt_tokens (xs.filter definedRt) (fun x hx => (mem_filter.mp hx).2)
  have hvalid : (xs.filter (· < 128)).all (· ≤ 127) = true := by
    apply all_eq_true.mpr; intro x hx
    have := (mem_filter.mp hx).2; simp at this ⊢; omega
  have h2 : decodeTokens [[0xF0] ++ xs.filter (· < 128) ++ [0xF7]] = .ok [.sysex (xs.filter (· < 128))] := by
    simp only [decodeTokens, decode_sysex _ hvalid, bind, Except.bind, pure, Except.pure]
  simp only [parseAll, htok, hparsed]
  exact decodeTokens_append _ _ _ _ (decodeTokens_append _ _ _ _ hms h1) h2

/-! Non-vacuity (tests of the model, labelled as such) -/
example : (Tok.feed { status := 0x90, bytes := [0x90, 5], len := 3, out := [] }
    (encode (.chan2 .program_change 2 9))).out = [[0xC2, 9]] := by decide
example : (match parseAll ([0x90, 1] ++ ([0xF0] ++ [1, 0xF8, 2, 0xF9, 0xFE] ++ [0xF7])) with
    | .ok ms => decide (ms = [.sys1 .clock, .sys1 .active_sensing, .sysex [1, 2]])
    | .error _ => false) = true := by decide +kernel

end Mido
