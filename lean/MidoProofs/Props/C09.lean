import MidoProofs.Lemmas.MetaRt
import MidoProofs.Lemmas.Utf8
/-!
  C09 — meta message codec accepts and preserves every documented value.
-/
namespace Mido
open List

/-- values in the image of the decoder (what a constructed message holds after normalisation):
    the frame rate is one of the four table values, `data` is a tuple.  The extra condition
    `hours < 32` is the known finding F5 (the wire format has five bits for the hours while
    the documentation promises 0..255): the round trip is proved outside it only. -/
def MetaMsg.normal (m : MetaMsg) : Bool :=
  match m.ty, m.vals with
  | .smpte_offset, [fr, .int h, _, _, _, _] =>
      (fr == .int 24 || fr == .int 25 || fr == .flt 2997 || fr == .int 30) && decide (h < 32)
  | .smpte_offset, _ => false
  | .sequencer_specific, [.tuple _] => true
  | .sequencer_specific, _ => false
  | _, _ => true

theorem check_split (m : MetaMsg) (hc : m.check = .ok ()) :
    m.vals.length = m.ty.attrs.length ∧ checkAttrsFrom m.ty 0 m.vals = .ok () := by
  unfold MetaMsg.check at hc
  split at hc
  · cases hc
  · rename_i h; exact ⟨Decidable.not_not.mp h, hc⟩

theorem nat_int (n : Int) (h : 0 ≤ n) : PyVal.nat n.toNat = PyVal.int n := by
  simp [PyVal.nat]; omega

theorem bindOk {α} {x : Except Err Unit} {y : Except Err α} {r : α}
    (h : (do x; y) = .ok r) : x = .ok () ∧ y = .ok r := by
  cases x with
  | error e => simp [bind, Except.bind] at h
  | ok u => cases u; simpa [bind, Except.bind] using h

theorem text_rt (cs : Charset) (s p : List Nat) (h : encodeText cs s = .ok p) :
    (∀ b ∈ p, b < 256) ∧ decodeText cs p = .ok s := by
  cases cs with
  | latin1 =>
    simp only [encodeText] at h
    split at h
    · rename_i ha; cases h
      exact ⟨fun b hb => by simpa using all_eq_true.mp ha b hb, rfl⟩
    · cases h
  | ascii =>
    simp only [encodeText] at h
    split at h
    · rename_i ha; cases h
      refine ⟨fun b hb => ?_, by simp [decodeText, ha]⟩
      have := all_eq_true.mp ha b hb; simp at this; omega
    · cases h
  | utf8 => exact encodeText_utf8_rt s p h

/-- **Payload round trip.** Whatever payload a checked, normalised meta message encodes to, it
    consists of bytes and decodes back to exactly the message's attribute values. -/
theorem C09_payload_roundtrip (cs : Charset) (m : MetaMsg)
    (hc : m.check = .ok ()) (hn : m.normal = true) (p : List Nat)
    (hp : metaPayload cs m = .ok p) :
    (∀ b ∈ p, b < 256) ∧ metaDecodePayload cs m.ty p = .ok m.vals := by
  obtain ⟨ty, vals⟩ := m
  obtain ⟨hlen, hchk⟩ := check_split _ hc
  simp only at hlen hchk hp hn ⊢
  cases ty with
  | sequence_number =>
    match vals, hlen with
    | [v], _ =>
      obtain ⟨h1, _⟩ := bindOk hchk
      obtain ⟨n, rfl, hn0, hn1⟩ := checkInt_ok h1
      simp only [metaPayload, natOf, intOf, Except.ok.injEq] at hp; subst hp
      refine ⟨?_, ?_⟩
      · intro b hb; simp only [mem_cons, not_mem_nil, or_false] at hb
        rcases hb with rfl | rfl
        · rw [shr8]; omega
        · rw [and255]; omega
      · simp only [metaDecodePayload, rt_seq n.toNat (by omega), nat_int n hn0]
  | channel_prefix =>
    match vals, hlen with
    | [v], _ =>
      obtain ⟨h1, _⟩ := bindOk hchk
      obtain ⟨n, rfl, hn0, hn1⟩ := checkInt_ok h1
      simp only [metaPayload, natOf, intOf, Except.ok.injEq] at hp; subst hp
      exact ⟨by intro b hb; simp at hb; omega, by simp only [metaDecodePayload, nat_int n hn0]⟩
  | midi_port =>
    match vals, hlen with
    | [v], _ =>
      obtain ⟨h1, _⟩ := bindOk hchk
      obtain ⟨n, rfl, hn0, hn1⟩ := checkInt_ok h1
      simp only [metaPayload, natOf, intOf, Except.ok.injEq] at hp; subst hp
      exact ⟨by intro b hb; simp at hb; omega, by simp only [metaDecodePayload, nat_int n hn0]⟩
  | end_of_track =>
    match vals, hlen with
    | [], _ =>
      simp only [metaPayload, Except.ok.injEq] at hp; subst hp
      exact ⟨by simp, rfl⟩
  | set_tempo =>
    match vals, hlen with
    | [v], _ =>
      obtain ⟨h1, _⟩ := bindOk hchk
      obtain ⟨n, rfl, hn0, hn1⟩ := checkInt_ok h1
      simp only [metaPayload, natOf, intOf, Except.ok.injEq] at hp; subst hp
      refine ⟨?_, ?_⟩
      · intro b hb; simp only [mem_cons, not_mem_nil, or_false] at hb
        rcases hb with rfl | rfl | rfl
        · rw [shr16]; omega
        · rw [and255]; omega
        · rw [and255]; omega
      · simp only [metaDecodePayload, rt_tempo n.toNat (by omega), nat_int n hn0]
  | smpte_offset =>
    match vals, hlen with
    | [fr, h, mi, s, f, sf], _ =>
      simp only [checkAttrsFrom] at hchk
      obtain ⟨_, hchk⟩ := bindOk hchk
      obtain ⟨h1, hchk⟩ := bindOk hchk
      obtain ⟨h2, hchk⟩ := bindOk hchk
      obtain ⟨h3, hchk⟩ := bindOk hchk
      obtain ⟨h4, hchk⟩ := bindOk hchk
      obtain ⟨h5, _⟩ := bindOk hchk
      simp [metaCheckAttr] at h1 h2 h3 h4 h5
      obtain ⟨nh, rfl, hh0, hh1⟩ := checkInt_ok h1
      obtain ⟨nm, rfl, hm0, hm1⟩ := checkInt_ok h2
      obtain ⟨ns, rfl, hs0, hs1⟩ := checkInt_ok h3
      obtain ⟨nf, rfl, hf0, hf1⟩ := checkInt_ok h4
      obtain ⟨nsf, rfl, hsf0, hsf1⟩ := checkInt_ok h5
      simp only [MetaMsg.normal, Bool.and_eq_true, Bool.or_eq_true, beq_iff_eq, decide_eq_true_eq] at hn
      obtain ⟨hfr, hh32⟩ := hn
      have hmem : fr ∈ [PyVal.int 24, .int 25, .flt 2997, .int 30] := by
        rcases hfr with ((h | h) | h) | h <;> simp [h]
      simp only [metaPayload] at hp
      cases hcode : frameRateCode fr with
      | none => rw [hcode] at hp; cases hp
      | some c =>
        rw [hcode] at hp
        simp only [natOf, intOf, Except.ok.injEq] at hp; subst hp
        obtain ⟨hc4, hfind⟩ := frameRate_rt fr hmem c hcode
        obtain ⟨e1, e2⟩ := rt_smpte c nh.toNat hc4 (by omega)
        refine ⟨?_, ?_⟩
        · intro b hb; simp only [mem_cons, not_mem_nil, or_false] at hb
          rcases hb with rfl | rfl | rfl | rfl | rfl
          · have e : c <<< 5 = c * 2 ^ 5 := by simp [Nat.shiftLeft_eq]
            rw [e, or_disjoint c nh.toNat 5 (by omega)]; omega
          all_goals omega
        · simp only [metaDecodePayload, e1, e2]
          cases hf : frameRates.find? (fun r => r.1 == c) with
          | none => rw [hf] at hfind; cases hfind
          | some r =>
            rw [hf] at hfind
            simp only [Option.map_some, Option.some.injEq] at hfind
            have c1 : ¬ (nm.toNat > 59) := by omega
            have c2 : ¬ (ns.toNat > 59) := by omega
            have c3 : ¬ (nsf.toNat > 99) := by omega
            simp only [c1, c2, c3, if_false, hfind, nat_int _ hh0, nat_int _ hm0, nat_int _ hs0,
              nat_int _ hf0, nat_int _ hsf0]
  | time_signature =>
    match vals, hlen with
    | [n, d, c, b], _ =>
      simp only [checkAttrsFrom] at hchk
      obtain ⟨h0, hchk⟩ := bindOk hchk
      obtain ⟨h1, hchk⟩ := bindOk hchk
      obtain ⟨h2, hchk⟩ := bindOk hchk
      obtain ⟨h3, _⟩ := bindOk hchk
      simp [metaCheckAttr] at h0 h1 h2 h3
      obtain ⟨nn, rfl, hn0, hn1⟩ := checkInt_ok h0
      obtain ⟨nc, rfl, hc0, hc1⟩ := checkInt_ok h2
      obtain ⟨nb, rfl, hb0, hb1⟩ := checkInt_ok h3
      obtain ⟨hd1, hd2⟩ := bindOk h1
      obtain ⟨nd, rfl, hd0, hd255⟩ := checkInt_ok hd1
      simp only at hd2
      split at hd2
      · rename_i hpow
        simp only [metaPayload, natOf, intOf, Except.ok.injEq] at hp; subst hp
        have hspec := isPow2_spec hpow
        have hlog : log2Nat nd.toNat ≤ 255 := by
          have h2 : 2 ^ log2Nat nd.toNat ≤ 2 ^ 255 := by rw [hspec]; omega
          exact (Nat.pow_le_pow_iff_right (by decide)).mp h2
        refine ⟨?_, ?_⟩
        · intro x hx; simp only [mem_cons, not_mem_nil, or_false] at hx
          rcases hx with rfl | rfl | rfl | rfl <;> omega
        · simp only [metaDecodePayload, hspec, nat_int _ hn0, nat_int _ hc0, nat_int _ hb0,
            nat_int nd (by omega)]
      · cases hd2
  | key_signature =>
    match vals, hlen with
    | [v], _ =>
      obtain ⟨h1, _⟩ := bindOk hchk
      simp only [metaCheckAttr] at h1
      split at h1
      · cases h1
      · cases v with
        | str sname =>
          simp only [metaPayload] at hp
          cases hk : keyEncode sname with
          | none => rw [hk] at hp; cases hp
          | some km =>
            obtain ⟨k, mode⟩ := km
            rw [hk] at hp
            simp only [Except.ok.injEq] at hp; subst hp
            obtain ⟨e1, e2, e3⟩ := keyEncode_sound hk
            refine ⟨by intro b hb; simp at hb; rcases hb with rfl | rfl <;> assumption, ?_⟩
            simp only [metaDecodePayload, e1]
        | _ => simp at h1
  | sequencer_specific =>
    match vals, hlen with
    | [v], _ =>
      obtain ⟨h1, _⟩ := bindOk hchk
      cases v with
      | tuple xs =>
        simp only [metaCheckAttr] at h1
        simp only [metaPayload, itemsOf, Except.ok.injEq] at hp; subst hp
        obtain ⟨e1, e2⟩ := map_natItem_itemNat xs h1
        exact ⟨e2, by simp only [metaDecodePayload, e1]⟩
      | _ => simp [MetaMsg.normal] at hn
  | text | copyright | track_name | instrument_name | lyrics | marker | cue_marker | device_name =>
    match vals, hlen with
    | [v], _ =>
      obtain ⟨h1, _⟩ := bindOk hchk
      cases v with
      | str s =>
        simp only [metaPayload, MetaType.isText, if_true] at hp
        obtain ⟨e1, e2⟩ := text_rt cs s p hp
        exact ⟨e1, by simp only [metaDecodePayload, e2, Except.map]⟩
      | _ => simp [metaCheckAttr, checkStr] at h1

/-- the wire form: `FF <type> <vlq length> <payload>` -/
theorem C09_form (cs : Charset) (m : MetaMsg) (bs : List Nat) (h : metaBytes cs m = .ok bs) :
    ∃ p, metaPayload cs m = .ok p ∧ bs = [0xff, m.ty.typeByte] ++ encVlq p.length ++ p := by
  unfold metaBytes at h
  cases hp : metaPayload cs m with
  | error e => rw [hp] at h; simp [bind, Except.bind] at h
  | ok p => rw [hp] at h; simp [bind, Except.bind, pure, Except.pure] at h; exact ⟨p, rfl, h.symm⟩

theorem ofByte_typeByte (t : MetaType) : MetaType.ofByte t.typeByte = some t := by
  cases t <;> rfl

/-- **Round trip through `from_bytes`.** -/
theorem C09_roundtrip_partial (cs : Charset) (m : MetaMsg)
    (hc : m.check = .ok ()) (hn : m.normal = true) (bs : List Nat) (h : metaBytes cs m = .ok bs) :
    metaFromBytes cs bs = .ok (.known m) ∧ ∀ b ∈ bs, b < 256 := by
  obtain ⟨p, hp, rfl⟩ := C09_form cs m bs h
  obtain ⟨hb, hd⟩ := C09_payload_roundtrip cs m hc hn p hp
  constructor
  · simp only [metaFromBytes, cons_append, nil_append, readVlq_encVlq, if_true,
      buildMeta, ofByte_typeByte, hd, Except.map]
    simp
  · intro b hb'
    simp only [cons_append, nil_append, mem_cons, mem_append] at hb'
    rcases hb' with rfl | rfl | hb' | hb'
    · decide
    · cases m.ty <;> decide
    · -- a VLQ byte
      have := encVlq_shape p.length
      revert this hb'
      generalize encVlq p.length = l
      induction l with
      | nil => intro h; cases h
      | cons x r ih =>
        intro hx hs
        cases r with
        | nil => simp at hx; subst hx; simp [VlqShape] at hs; omega
        | cons y r' =>
          rcases mem_cons.mp hx with rfl | hx
          · exact hs.2.1
          · exact ih hx hs.2.2
    · exact hb b hb'

/-- every meta message that passes its checks and is not a text message can be encoded -/
theorem C09_encodes (cs : Charset) (m : MetaMsg) (hc : m.check = .ok ())
    (ht : m.ty.isText = false) : ∃ p, metaPayload cs m = .ok p := by
  obtain ⟨ty, vals⟩ := m
  obtain ⟨hlen, hchk⟩ := check_split _ hc
  simp only at hlen hchk ht ⊢
  cases ty with
  | sequence_number | channel_prefix | midi_port | set_tempo | sequencer_specific =>
    match vals, hlen with
    | [v], _ => exact ⟨_, rfl⟩
  | end_of_track =>
    match vals, hlen with
    | [], _ => exact ⟨_, rfl⟩
  | time_signature =>
    match vals, hlen with
    | [n, d, c, b], _ => exact ⟨_, rfl⟩
  | smpte_offset =>
    match vals, hlen with
    | [fr, h, mi, s, f, sf], _ =>
      simp only [checkAttrsFrom] at hchk
      obtain ⟨h0, _⟩ := bindOk hchk
      cases hs : frameRateCode fr with
      | some c =>
        exact ⟨[(c <<< 5) ||| natOf h, natOf mi, natOf s, natOf f, natOf sf], by simp only [metaPayload, hs]⟩
      | none =>
        exfalso
        simp [metaCheckAttr, hs] at h0
  | key_signature =>
    match vals, hlen with
    | [v], _ =>
      obtain ⟨h1, _⟩ := bindOk hchk
      simp only [metaCheckAttr] at h1
      split at h1
      · cases h1
      · cases v with
        | str sname =>
          cases hk : keyEncode sname with
          | some km => obtain ⟨k, mo⟩ := km; exact ⟨[unsignedByte k, mo], by simp only [metaPayload, hk]⟩
          | none => simp [hk] at h1
        | _ => simp at h1
  | text | copyright | track_name | instrument_name | lyrics | marker | cue_marker | device_name =>
    cases ht

/-- **Documented values are accepted.** -/
theorem C09_accepts_denominator (k : Nat) (hk : k ≤ 255) :
    metaCheckAttr .time_signature 1 (.int (2 ^ k : Nat)) = .ok () := by
  have h1 : (1 : Int) ≤ ((2 ^ k : Nat) : Int) := by
    have := Nat.one_le_two_pow (n := k); omega
  have h2 : ((2 ^ k : Nat) : Int) ≤ 2 ^ 255 := by
    have : 2 ^ k ≤ 2 ^ 255 := Nat.pow_le_pow_right (by decide) hk
    exact_mod_cast this
  simp only [metaCheckAttr, if_true, checkInt, h1, h2, and_self, bind, Except.bind,
    Int.toNat_natCast, isPow2_pow]

theorem C09_accepts_keys : keyTable.length = 30 ∧ keyTable.all (fun e =>
    match metaCheckAttr .key_signature 0 (.str (strCodes e.2)) with | .ok _ => true | _ => false) = true := by
  decide +kernel

theorem C09_accepts_ints :
    (∀ n : Int, 0 ≤ n → n ≤ 16777215 → metaCheckAttr .set_tempo 0 (.int n) = .ok ()) ∧
    (∀ n : Int, 0 ≤ n → n ≤ 65535 → metaCheckAttr .sequence_number 0 (.int n) = .ok ()) ∧
    (∀ n : Int, 0 ≤ n → n ≤ 255 → metaCheckAttr .channel_prefix 0 (.int n) = .ok ()) ∧
    (∀ n : Int, 0 ≤ n → n ≤ 255 → metaCheckAttr .midi_port 0 (.int n) = .ok ()) ∧
    (∀ (t : MetaType) (s : List Nat), t.isText = true → metaCheckAttr t 0 (.str s) = .ok ()) := by
  refine ⟨?_, ?_, ?_, ?_, ?_⟩
  · intro n h1 h2; simp [metaCheckAttr, checkInt, h1, h2]
  · intro n h1 h2; simp [metaCheckAttr, checkInt, h1, h2]
  · intro n h1 h2; simp [metaCheckAttr, checkInt, h1, h2]
  · intro n h1 h2; simp [metaCheckAttr, checkInt, h1, h2]
  · intro t s ht; cases t <;> simp [MetaType.isText] at ht <;> rfl

theorem checkInt_err {v lo hi e} (h : checkInt v lo hi = .error e) : e = .ValueError ∨ e = .TypeError := by
  cases v <;> simp [checkInt] at h
  · split at h <;> simp_all
  all_goals simp_all

theorem checkByteItems_err {xs e} (h : checkByteItems xs = .error e) : e = .ValueError ∨ e = .TypeError := by
  induction xs with
  | nil => cases h
  | cons x r ih =>
    simp only [checkByteItems, bind, Except.bind] at h
    cases hx : checkByteItem x with
    | ok u => rw [hx] at h; exact ih h
    | error e' =>
      rw [hx] at h; cases h
      cases x <;> simp [checkByteItem] at hx
      · split at hx <;> simp_all
      all_goals simp_all

/-- **Rejections are `ValueError` or `TypeError`.** -/
theorem C09_rejects (t : MetaType) (i : Nat) (v : PyVal) (e : Err)
    (h : metaCheckAttr t i v = .error e) : e = .ValueError ∨ e = .TypeError := by
  cases t with
  | sequence_number | channel_prefix | midi_port | set_tempo => exact checkInt_err h
  | text | copyright | track_name | instrument_name | lyrics | marker | cue_marker | device_name =>
    cases v <;> simp [metaCheckAttr, checkStr] at h <;> simp [← h]
  | end_of_track => cases h
  | smpte_offset =>
    simp only [metaCheckAttr] at h
    by_cases h0 : i = 0
    · rw [if_pos h0] at h
      by_cases hf : (frameRateCode v).isSome = true
      · rw [if_pos hf] at h; cases h
      · rw [if_neg hf] at h; cases h; simp
    · rw [if_neg h0] at h
      repeat' split at h
      all_goals exact checkInt_err h
  | time_signature =>
    simp only [metaCheckAttr] at h
    by_cases h1 : i = 1
    · rw [if_pos h1] at h
      cases hc : checkInt v 1 (2 ^ 255) with
      | error e' => rw [hc] at h; simp [bind, Except.bind] at h; subst h; exact checkInt_err hc
      | ok u =>
        rw [hc] at h; simp only [bind, Except.bind] at h
        cases v with
        | int n =>
          simp only at h
          split at h
          · cases h
          · cases h; simp
        | _ => simp at h; simp [← h]
    · rw [if_neg h1] at h; exact checkInt_err h
  | key_signature =>
    simp only [metaCheckAttr] at h
    by_cases hh : (!hashable v) = true
    · rw [if_pos hh] at h; cases h; simp
    · rw [if_neg hh] at h
      cases v with
      | str s =>
        simp only at h
        split at h
        · cases h
        · cases h; simp
      | _ => simp at h; simp [← h]
  | sequencer_specific =>
    simp only [metaCheckAttr] at h
    cases v with
    | list xs => exact checkByteItems_err h
    | tuple xs => exact checkByteItems_err h
    | bytes xs => cases h
    | str s => simp only at h; split at h <;> cases h; simp
    | _ => simp at h; simp [← h]

/-- variable-length quantities read back exactly and are minimal -/
theorem C09_vlq (n : Nat) (rest : List Nat) :
    readVlq (encVlq n ++ rest) = .ok (n, rest) ∧ VlqShape (encVlq n) ∧
    ∃ b r, encVlq n = b :: r ∧ (r ≠ [] → b ≠ 0x80) :=
  ⟨readVlq_encVlq n rest, encVlq_shape n, encVlq_minimal n⟩

/-! Non-vacuity and the negative witness of the known finding F5 (tests of the model). -/
example : (⟨.smpte_offset, [.flt 2997, .int 31, .int 59, .int 59, .int 255, .int 99]⟩ : MetaMsg).check = .ok ()
    ∧ (⟨.smpte_offset, [.flt 2997, .int 31, .int 59, .int 59, .int 255, .int 99]⟩ : MetaMsg).normal = true := by
  decide
/-- F5: hours = 32 passes the check but does not survive the wire format -/
example : (⟨.smpte_offset, [.int 24, .int 32, .int 0, .int 0, .int 0, .int 0]⟩ : MetaMsg).check = .ok () ∧
    metaBytes .latin1 ⟨.smpte_offset, [.int 24, .int 32, .int 0, .int 0, .int 0, .int 0]⟩
      = .ok [255, 84, 5, 32, 0, 0, 0, 0] ∧
    metaFromBytes .latin1 [255, 84, 5, 32, 0, 0, 0, 0]
      = .ok (.known ⟨.smpte_offset, [.int 25, .int 0, .int 0, .int 0, .int 0, .int 0]⟩) := by
  refine ⟨by decide, by decide +kernel, by decide +kernel⟩

end Mido
