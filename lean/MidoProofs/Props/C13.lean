import MidoModel.Tempo
/-!
  C13 — playback timing follows the tempo map.
-/
namespace Mido
open List

def sumList (l : List Nat) : Nat := l.foldl (· + ·) 0

theorem foldl_add (l : List Nat) (a : Nat) : l.foldl (· + ·) a = a + l.foldl (· + ·) 0 := by
  induction l generalizing a with
  | nil => simp
  | cons x xs ih => simp only [foldl_cons]; rw [ih (a + x), ih (0 + x)]; omega

theorem integral_const (cur : Nat) (evs : List (Nat × Option Nat)) (a n : Nat)
    (h : ∀ u, a ≤ u → u < a + n → tempoAt cur evs u = cur) : integral cur evs a n = n * cur := by
  induction n with
  | zero => simp [integral]
  | succ n ih =>
    simp only [integral]
    rw [ih (fun u h1 h2 => h u h1 (by omega)), h (a + n) (by omega) (by omega)]
    rw [Nat.succ_mul]

theorem integral_add (cur : Nat) (evs : List (Nat × Option Nat)) (a n m : Nat) :
    integral cur evs a (n + m) = integral cur evs a n + integral cur evs (a + n) m := by
  induction m with
  | zero => simp [integral]
  | succ m ih =>
    rw [← Nat.add_assoc, integral, ih, integral]
    rw [show a + (n + m) = a + n + m by omega]; omega

/-- events lie at or after `s`: before the first event the tempo is the current one -/
theorem tempoAt_before (cur : Nat) (es : List PEv) (s u : Nat) (h : u < s) :
    tempoAt cur (absTicks s es) u = cur := by
  cases es with
  | nil => rfl
  | cons e r => simp only [absTicks, tempoAt]; rw [if_neg (by omega)]

/-- skipping events whose tick has passed -/
theorem tempoAt_skip (cur : Nat) (e : PEv) (r : List PEv) (s u : Nat) (h : s + e.delta ≤ u) :
    tempoAt cur (absTicks s (e :: r)) u =
      tempoAt (e.tempo.getD cur) (absTicks (s + e.delta) r) u := by
  simp only [absTicks, tempoAt]; rw [if_pos h]

theorem integral_congr (c1 c2 : Nat) (e1 e2 : List (Nat × Option Nat)) (a n : Nat)
    (h : ∀ u, a ≤ u → u < a + n → tempoAt c1 e1 u = tempoAt c2 e2 u) :
    integral c1 e1 a n = integral c2 e2 a n := by
  induction n with
  | zero => rfl
  | succ n ih =>
    simp only [integral]
    rw [ih (fun u h1 h2 => h u h1 (by omega)), h (a + n) (by omega) (by omega)]

def totalDelta : List PEv → Nat
  | [] => 0
  | e :: es => e.delta + totalDelta es

theorem sumList_cons (x : Nat) (xs : List Nat) : sumList (x :: xs) = x + sumList xs := by
  simp only [sumList, foldl_cons]; rw [foldl_add]; omega

/-- **Tempo-map integral.** For every prefix of the merged track: the cumulative time of the
    yielded messages equals the exact integral of the tempo map (the tempo in force on each tick,
    500000 until a set_tempo, which applies only to ticks after it) up to the absolute tick of
    the last message of the prefix.  Generalised over the current tempo and starting tick. -/
theorem iter_integral (es : List PEv) : ∀ (cur s k : Nat),
    sumList ((iterMicro cur es).take k) =
      integral cur (absTicks s es) s (totalDelta (es.take k)) := by
  induction es with
  | nil => intro cur s k; simp [iterMicro, sumList, totalDelta, integral]
  | cons e r ih =>
    intro cur s k
    cases k with
    | zero => simp [sumList, totalDelta, integral]
    | succ k =>
      simp only [iterMicro, take_succ_cons, sumList_cons, totalDelta]
      rw [integral_add]
      have h1 : integral cur (absTicks s (e :: r)) s e.delta = e.delta * cur := by
        apply integral_const
        intro u hu1 hu2
        simp only [absTicks, tempoAt]; rw [if_neg (by omega)]
      have h2 : integral cur (absTicks s (e :: r)) (s + e.delta) (totalDelta (take k r)) =
          integral (e.tempo.getD cur) (absTicks (s + e.delta) r)
            (s + e.delta) (totalDelta (take k r)) := by
        apply integral_congr
        intro u hu1 _
        exact tempoAt_skip cur e r s u hu1
      rw [h1, h2, ← ih]
      by_cases hd : e.delta > 0
      · rw [if_pos hd]
      · have : e.delta = 0 := by omega
        rw [if_neg hd, this]; simp

theorem iterMicro_length (es : List PEv) : ∀ c, (iterMicro c es).length = es.length := by
  induction es with
  | nil => intro c; rfl
  | cons e r ih => intro c; simp [iterMicro, ih]

/-- the statement of the property for a whole file: default tempo, tick 0 -/
theorem C13_integral (es : List PEv) (k : Nat) :
    sumList ((iterMicro defaultTempo es).take k) =
      integral defaultTempo (absTicks 0 es) 0 (totalDelta (es.take k)) :=
  iter_integral es defaultTempo 0 k

/-- `length` is the cumulative time of the last message -/
theorem C13_length (es : List PEv) :
    lengthMicro es = integral defaultTempo (absTicks 0 es) 0 (totalDelta es) := by
  have := C13_integral es es.length
  have hl : (iterMicro defaultTempo es).length = es.length := iterMicro_length es _
  rw [take_length, ← hl, take_length] at this
  exact this

/-- a type-2 file refuses both iteration (TypeError) and length (ValueError) -/
theorem C13_type2 (es : List PEv) :
    iterFile 2 es = .error .TypeError ∧ lengthFile 2 es = .error .ValueError := ⟨rfl, rfl⟩

/-! ### play() -/

/-- One round: with a clock that never runs backwards and a sleep that returns no earlier than
    requested (`extra ≥ 0`), the message is never handed out before its scheduled time, and the
    sleep request is exactly the remaining time — it depends on the current clock reading only,
    so a slow consumer causes no accumulated drift. -/
theorem C13_round (start inputTime now0 extra : Int) (he : 0 ≤ extra) :
    let r := playRound start inputTime now0 extra
    start + inputTime ≤ r.1.yieldedAt ∧
    r.1.sleepReq = max 0 (start + inputTime - now0) ∧
    now0 ≤ r.2 ∧ r.2 = r.1.yieldedAt := by
  simp only [playRound]
  by_cases h : inputTime - (now0 - start) > 0
  · simp only [h, if_true]; refine ⟨by omega, by omega, by omega, by first | rfl | trivial⟩
  · simp only [h, if_false]; refine ⟨by omega, by omega, by omega, by first | rfl | trivial⟩

/-- whole playback: every message k is yielded no earlier than start + (cumulative time of k) -/
theorem C13_not_early (start : Int) (ts : List Nat) : ∀ (inputTime clock : Int) (sched : List (Int × Int)),
    (∀ p ∈ sched, 0 ≤ p.1 ∧ 0 ≤ p.2) →
    ∀ k (hk : k < (playAll start inputTime clock ts sched).length),
      start + inputTime + (sumList (ts.take (k + 1)) : Int) ≤
        ((playAll start inputTime clock ts sched)[k]).yieldedAt := by
  induction ts with
  | nil => intro _ _ _ _ k hk; simp [playAll] at hk
  | cons t r ih =>
    intro inputTime clock sched hs k hk
    have hhd : 0 ≤ (sched.headD (0, 0)).1 ∧ 0 ≤ (sched.headD (0, 0)).2 := by
      cases sched with
      | nil => simp
      | cons p q => exact hs p (by simp)
    have htl : ∀ p ∈ sched.tail, 0 ≤ p.1 ∧ 0 ≤ p.2 := fun p hp => hs p (mem_of_mem_tail hp)
    simp only [playAll] at hk ⊢
    cases k with
    | zero =>
      simp only [getElem_cons_zero, take_succ_cons, take_zero, sumList_cons]
      have := (C13_round start (inputTime + t) (clock + (sched.headD (0, 0)).1) (sched.headD (0, 0)).2 hhd.2).1
      simp only [sumList, foldl_nil] at *
      omega
    | succ k =>
      simp only [getElem_cons_succ, take_succ_cons, sumList_cons]
      have := ih (inputTime + t)
        (playRound start (inputTime + t) (clock + (sched.headD (0, 0)).1) (sched.headD (0, 0)).2).2
        sched.tail htl k (Nat.lt_of_succ_lt_succ hk)
      refine Int.le_trans (Int.le_of_eq ?_) this
      simp only [Int.natCast_add]; omega

/-- exact arithmetic: `tick2second` of an integer tick is `t * tempo` micro-ticks; dividing by
    the same scale (`tempo` micro-ticks per tick) is exact, so `second2tick`, which rounds the
    quotient, returns `t` for any positive tempo and resolution -/
theorem C13_units_exact (t tempo : Nat) (h : 0 < tempo) :
    t * tempo / tempo = t ∧ t * tempo % tempo = 0 :=
  ⟨Nat.mul_div_cancel t h, Nat.mul_mod_left t tempo⟩

/-! Non-vacuity: a tempo change in the middle (test of the model). -/
example : iterMicro defaultTempo [⟨10, none, false⟩, ⟨0, some 250000, true⟩, ⟨4, none, false⟩, ⟨0, some 1, true⟩, ⟨3, none, false⟩]
    = [5000000, 0, 1000000, 0, 3] := by decide

end Mido
