import MidoModel.MidiFileState
import MidoProofs.Props.C12
/-!
  C16 — a MidiFile always reflects its current contents.
-/
namespace Mido

/-- **History independence.** After ANY history of edits and earlier observations, the merged
    track observed is a function of the current type and tracks alone — the same as for a freshly
    built file with those contents.  (For a state without a memo field this is immediate; the
    assurance that the implementation is such a state comes from the correspondence on
    histories.) -/
theorem C16_history_independent (ops : List FOp) :
    (fstep (frun {} ops) .obsMerged).2 =
      observeMerged (frun {} ops).type (frun {} ops).tracks := rfl

/-- an earlier observation changes nothing -/
theorem C16_observation_pure (m : MF) : (fstep m .obsMerged).1 = m := rfl

/-- observations inserted anywhere in a history do not change the final contents -/
theorem C16_observations_erasable (ops : List FOp) (m : MF) :
    frun m (ops.filter (fun o => match o with | .obsMerged => false | _ => true)) = frun m ops := by
  induction ops generalizing m with
  | nil => rfl
  | cons op rest ih =>
    cases op <;> simp only [List.filter_cons, frun] <;> first | exact ih _ | (simp; exact ih _)

/-- what is observed satisfies the merge theorems of C12 on the *current* tracks -/
theorem C16_merged_current (ops : List FOp) (h : (frun {} ops).type ≠ 2) :
    ∃ t, (fstep (frun {} ops) .obsMerged).2 = .track t ∧ t = mergeTracks (frun {} ops).tracks := by
  refine ⟨_, ?_, rfl⟩
  simp [fstep, observeMerged, h]

end Mido
