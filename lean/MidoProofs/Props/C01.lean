import MidoProofs.Lemmas.Decode
import MidoProofs.Lemmas.Hex
/-!
  C01 — message byte codec round-trips every valid message.
  Property theorems only; helper lemmas live in `MidoProofs/Lemmas`.
-/
namespace Mido

local macro "ifs_omega" : tactic =>
  `(tactic| ((repeat' split) <;> first | rfl | (exfalso; omega) | omega))

/-- Independent arithmetic rendering of the MIDI 1.0 layout (`+ * / %` only). -/
def Midi10.bytes : Msg → List Nat
  | .chan3 k ch d1 d2 => [k.base + ch, d1, d2]
  | .chan2 k ch d1 => [k.base + ch, d1]
  | .pitchwheel ch p => [0xe0 + ch, (p + 8192).toNat % 128, (p + 8192).toNat / 128]
  | .sysex d => 0xf0 :: (d ++ [0xf7])
  | .quarter_frame ft fv => [0xf1, 16 * ft + fv]
  | .songpos p => [0xf2, p % 128, p / 128]
  | .song_select s => [0xf3, s]
  | .sys1 k => [k.status]

/-- The bit layout of the standard: refinement of `encode` to the arithmetic spec. -/
theorem C01_layout (m : Msg) (h : m.Valid) : encode m = Midi10.bytes m := by
  cases m with
  | chan3 k ch d1 d2 =>
    simp only [Msg.Valid, Msg.valid, Bool.and_eq_true, decide_eq_true_eq] at h
    have := chan_or k.base (by cases k <;> simp [C3.base]) ch (by omega)
    simp [encode, Midi10.bytes, this.1]
  | chan2 k ch d1 =>
    simp only [Msg.Valid, Msg.valid, Bool.and_eq_true, decide_eq_true_eq] at h
    have := chan_or k.base (by cases k <;> simp [C2.base]) ch (by omega)
    simp [encode, Midi10.bytes, this.1]
  | pitchwheel ch p =>
    simp only [Msg.Valid, Msg.valid, Bool.and_eq_true, decide_eq_true_eq] at h
    have := chan_or 0xe0 (by simp) ch (by omega)
    simp only [encode, Midi10.bytes, this.1, and127, shr7]
    have e : p - (-8192) = p + 8192 := by omega
    rw [e]
  | sysex d => simp [encode, Midi10.bytes]
  | quarter_frame ft fv =>
    simp only [Msg.Valid, Msg.valid, Bool.and_eq_true, decide_eq_true_eq] at h
    simp only [encode, Midi10.bytes, shl4, or16 ft fv (by omega)]
    congr 2; omega
  | songpos p => simp [encode, Midi10.bytes, and127, shr7]
  | song_select s => rfl
  | sys1 k => rfl

/-- Decoding the encoding gives back the message (all 18 types, all valid values, sysex of
    any length). -/
theorem C01_decode_encode (m : Msg) (h : m.Valid) : decodeNats (encode m) = .ok m := by
  cases m with
  | chan3 k ch d1 d2 =>
    simp only [Msg.Valid, Msg.valid, Bool.and_eq_true, decide_eq_true_eq] at h
    obtain ⟨⟨hc, h1⟩, h2⟩ := h
    have hb := chan_or k.base (by cases k <;> simp [C3.base]) ch (by omega)
    cases k <;> simp only [C3.base] at hb <;> simp only [encode, C3.base] <;>
      (rw [decode_fixed _ [d1, d2] (by rw [hb.1]; omega) (by simp; omega)
          (by rw [hb.1]; unfold specLen; ifs_omega)]
       simp only [buildMsg, hb.2]
       rw [hb.1]
       simp only [Bool.not_true, Bool.false_eq_true, if_false]
       (repeat' split) <;> first | rfl | (exfalso; omega))
  | chan2 k ch d1 =>
    simp only [Msg.Valid, Msg.valid, Bool.and_eq_true, decide_eq_true_eq] at h
    obtain ⟨hc, h1⟩ := h
    have hb := chan_or k.base (by cases k <;> simp [C2.base]) ch (by omega)
    cases k <;> simp only [C2.base] at hb <;> simp only [encode, C2.base] <;>
      (rw [decode_fixed _ [d1] (by rw [hb.1]; omega) (by simp; omega)
          (by rw [hb.1]; unfold specLen; ifs_omega)]
       simp only [buildMsg, hb.2]
       rw [hb.1]
       simp only [Bool.not_true, Bool.false_eq_true, if_false]
       (repeat' split) <;> first | rfl | (exfalso; omega))
  | pitchwheel ch p =>
    simp only [Msg.Valid, Msg.valid, Bool.and_eq_true, decide_eq_true_eq] at h
    obtain ⟨⟨hc, h1⟩, h2⟩ := h
    have hb := chan_or 0xe0 (by simp) ch (by omega)
    have hl : specLen (0xe0 ||| ch) = some 3 := by
      rw [hb.1]; unfold specLen; ifs_omega
    have e : p - (-8192) = p + 8192 := by omega
    simp only [encode, e, and127, shr7]
    rw [decode_fixed _ [_, _] (by rw [hb.1]; omega) (by simp; omega) (by simpa using hl)]
    simp only [buildMsg, hb.2]
    rw [hb.1]
    have c1 : 224 + ch < 240 := by omega
    have c2 : ¬ (224 + ch < 144) := by omega
    have c3 : ¬ (224 + ch < 160) := by omega
    have c4 : ¬ (224 + ch < 176) := by omega
    have c5 : ¬ (224 + ch < 192) := by omega
    simp only [c1, c2, c3, c4, c5, if_true, if_false, Bool.not_true, Bool.false_eq_true]
    rw [pitch_lor _ _ (by omega) (by omega)]
    congr 2; omega
  | sysex d =>
    simp only [Msg.Valid, Msg.valid] at h
    rw [encode, decode_sysex d h]
  | quarter_frame ft fv =>
    simp only [Msg.Valid, Msg.valid, Bool.and_eq_true, decide_eq_true_eq] at h
    rw [encode, decode_fixed _ [_] (by decide) (by simp [shl4, or16 ft fv (by omega)]; omega)
      rfl]
    simp only [buildMsg, shl4, or16 ft fv (by omega), shr4, and15]
    simp; omega
  | songpos p =>
    simp only [Msg.Valid, Msg.valid, decide_eq_true_eq] at h
    rw [encode, decode_fixed _ [_, _] (by decide) (by simp [and127, shr7]; omega) rfl]
    simp only [buildMsg, and127, shr7, shl7, or128' _ _ (Nat.mod_lt p (by decide))]
    simp; omega
  | song_select s =>
    simp only [Msg.Valid, Msg.valid, decide_eq_true_eq] at h
    rw [encode, decode_fixed _ [_] (by decide) (by simp; omega) rfl]
    simp [buildMsg]
  | sys1 k =>
    rw [encode, decode_fixed _ [] (by cases k <;> decide) (by simp) (by cases k <;> decide)]
    cases k <;> rfl

/-- The encoding is one well-formed MIDI 1.0 message. -/
theorem C01_wellformed (m : Msg) (h : m.Valid) :
    ∃ s ds, encode m = s :: ds ∧ s = m.status ∧ 0x80 ≤ s ∧ s ≤ 0xFF ∧
      ((∀ p, m ≠ .sysex p) → ∀ d ∈ ds, d < 0x80) ∧
      (∀ p, m = .sysex p → ds = p ++ [0xF7] ∧ ∀ d ∈ p, d < 0x80) := by
  rw [C01_layout m h]
  cases m with
  | chan3 k ch d1 d2 =>
    simp only [Msg.Valid, Msg.valid, Bool.and_eq_true, decide_eq_true_eq] at h
    have hb := chan_or k.base (by cases k <;> simp [C3.base]) ch (by omega)
    refine ⟨_, _, rfl, by simp [Msg.status, hb.1], ?_, ?_, ?_, by simp⟩
    · cases k <;> simp [C3.base] <;> omega
    · cases k <;> simp [C3.base] <;> omega
    · intro _ d hd; simp at hd; omega
  | chan2 k ch d1 =>
    simp only [Msg.Valid, Msg.valid, Bool.and_eq_true, decide_eq_true_eq] at h
    have hb := chan_or k.base (by cases k <;> simp [C2.base]) ch (by omega)
    refine ⟨_, _, rfl, by simp [Msg.status, hb.1], ?_, ?_, ?_, by simp⟩
    · cases k <;> simp [C2.base] <;> omega
    · cases k <;> simp [C2.base] <;> omega
    · intro _ d hd; simp at hd; omega
  | pitchwheel ch p =>
    simp only [Msg.Valid, Msg.valid, Bool.and_eq_true, decide_eq_true_eq] at h
    have hb := chan_or 0xe0 (by simp) ch (by omega)
    refine ⟨_, _, rfl, by simp [Msg.status, hb.1], by omega, by omega, ?_, by simp⟩
    intro _ d hd; simp at hd; omega
  | sysex d =>
    simp only [Msg.Valid, Msg.valid, List.all_eq_true, decide_eq_true_eq] at h
    refine ⟨_, _, rfl, rfl, by decide, by decide, ?_, ?_⟩
    · intro hp; exact absurd rfl (hp d)
    · intro p hp; cases hp; exact ⟨rfl, fun x hx => by have := h x hx; omega⟩
  | quarter_frame ft fv =>
    simp only [Msg.Valid, Msg.valid, Bool.and_eq_true, decide_eq_true_eq] at h
    refine ⟨_, _, rfl, rfl, by decide, by decide, ?_, by simp⟩
    intro _ d hd; simp at hd; omega
  | songpos p =>
    simp only [Msg.Valid, Msg.valid, decide_eq_true_eq] at h
    refine ⟨_, _, rfl, rfl, by decide, by decide, ?_, by simp⟩
    intro _ d hd; simp at hd; omega
  | song_select s =>
    simp only [Msg.Valid, Msg.valid, decide_eq_true_eq] at h
    refine ⟨_, _, rfl, rfl, by decide, by decide, ?_, by simp⟩
    intro _ d hd; simp at hd; omega
  | sys1 k =>
    refine ⟨_, _, rfl, rfl, by cases k <;> decide, by cases k <;> decide, ?_, by simp⟩
    intro _ d hd; simp at hd

/-- `len(message)` equals the number of encoded bytes. -/
theorem C01_length (m : Msg) : (encode m).length = m.len := by
  cases m <;> simp [encode, Msg.len]; omega

/-- `from_hex(hex())`: the hex rendering (default separator) reads back byte for byte. -/
theorem C01_hex (bs : List Nat) (h : ∀ b ∈ bs, b < 256) : fromHex (toHex bs) = .ok bs :=
  fromHex_toHex bs h

/-- hex round trip of a whole message -/
theorem C01_hex_msg (m : Msg) (h : m.Valid) :
    (fromHex (toHex (encode m))).bind decodeNats = .ok m := by
  obtain ⟨s, ds, he, _, _, hs, hd, hx⟩ := C01_wellformed m h
  have hb : ∀ b ∈ encode m, b < 256 := by
    intro b hb
    rw [he] at hb
    rcases List.mem_cons.mp hb with rfl | hb
    · omega
    · by_cases hsx : ∃ p, m = .sysex p
      · obtain ⟨p, hp⟩ := hsx
        obtain ⟨e1, e2⟩ := hx p hp
        rw [e1] at hb
        rcases List.mem_append.mp hb with hb | hb
        · have := e2 b hb; omega
        · simp at hb; omega
      · have := hd (fun p hp => hsx ⟨p, hp⟩) b hb; omega
  rw [fromHex_toHex _ hb]
  exact C01_decode_encode m h

/-! Non-vacuity: concrete valid messages of the interesting shapes. -/
example : (Msg.pitchwheel 15 (-8192)).Valid ∧ (Msg.pitchwheel 0 8191).Valid ∧
    (Msg.sysex [0, 127, 5]).Valid ∧ (Msg.songpos 16383).Valid ∧ (Msg.quarter_frame 7 15).Valid := by
  decide
example : encode (.pitchwheel 3 (-1)) = [0xe3, 0x7f, 0x3f] := by decide
example : encode (.quarter_frame 7 15) = [0xf1, 0x7f] := by decide

end Mido
