import MidoProofs.Props.C14
import MidoProofs.Props.C14b
import MidoProofs.Lemmas.Numeral
#print axioms Mido.C14_parse_errors
#print axioms Mido.C14_stream
#print axioms Mido.C14_dict
#print axioms Mido.construct_text_err
#print axioms Mido.parseInt_showInt
#print axioms Mido.parseNat_showNat
#print axioms Mido.C14_from_str_str
