import MidoProofs.Props.C19
#print axioms Mido.C19_bin
#print axioms Mido.C19_text
#print axioms Mido.C19_none
#print axioms Mido.C19_layout
#print axioms Mido.C19_badtext
