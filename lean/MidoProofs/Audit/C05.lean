import MidoProofs.Props.C05
import MidoProofs.TableTie
#print axioms Mido.C05_feed_append
#print axioms Mido.C05_chunking
#print axioms Mido.C05_refines
#print axioms Mido.C05_get_none_iff
#print axioms Mido.tie_specs
#print axioms Mido.tie_lengths
