import MidoProofs.SrcTie.Ports
import MidoProofs.SrcTie.PortsIter
#print axioms Mido.src_port_send
#print axioms Mido.src_reset_loop
#print axioms Mido.src_port_reset
#print axioms Mido.src_port_close
#print axioms Mido.src_recv_loop
#print axioms Mido.src_port_receive
#print axioms Mido.src_port_poll
#print axioms Mido.src_iter_pending_loop
#print axioms Mido.src_port_iter_pending
#print axioms Mido.src_port_receiveF
#print axioms Mido.src_iter_all_loop
#print axioms Mido.src_port_iter_all
#print axioms Mido.recvLoop_mono
#print axioms Mido.iterAllF_eq
#print axioms Mido.src_port_iter
