import MidoProofs.SrcTie.Tok
import MidoProofs.SrcTie.Parser
import MidoProofs.SrcTie.ParserSession
import MidoProofs.SrcTie.ParserResync
#print axioms Mido.src_spec_table
#print axioms Mido.src_feed_data
#print axioms Mido.src_feed_status
#print axioms Mido.src_feed_byte
#print axioms Mido.src_feed
#print axioms Mido.src_parser_loop
#print axioms Mido.src_parser_decode
#print axioms Mido.src_parser_feed
#print axioms Mido.src_parser_feed_byte
#print axioms Mido.src_parser_get
#print axioms Mido.src_parser_pending
#print axioms Mido.srcStep_sim
#print axioms Mido.src_parser_session
#print axioms Mido.srcParse_eq
#print axioms Mido.src_parser_total
