import MidoProofs.SrcTie.Tok
#print axioms Mido.src_spec_table
#print axioms Mido.src_feed_data
#print axioms Mido.src_feed_status
#print axioms Mido.src_feed_byte
#print axioms Mido.src_feed
