import MidoProofs.Props.C16
#print axioms Mido.C16_history_independent
#print axioms Mido.C16_observation_pure
#print axioms Mido.C16_observations_erasable
#print axioms Mido.C16_merged_current
#print axioms Mido.C12_perm
