import MidoProofs.SrcTie.Frozen
#print axioms Mido.src_is_frozen
#print axioms Mido.src_freeze
#print axioms Mido.src_thaw
#print axioms Mido.src_freeze_thaw
