import MidoProofs.Props.C10
import MidoProofs.Props.C10b
#print axioms Mido.Conc.step_inv
#print axioms Mido.Conc.run_inv
#print axioms Mido.Conc.C10_no_fault
#print axioms Mido.Conc.C10_mutex
#print axioms Mido.Conc.C10_fifo
#print axioms Mido.Conc.C10_sender_order
#print axioms Mido.Disc.step_inv
#print axioms Mido.Disc.C10_disc_no_fault
#print axioms Mido.Disc.C10_disc_fifo
#print axioms Mido.Disc.C10_disc_exclusive
#print axioms Mido.Disc.C10_disc_flag
