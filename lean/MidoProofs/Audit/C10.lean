import MidoProofs.Props.C10
#print axioms Mido.Conc.step_inv
#print axioms Mido.Conc.run_inv
#print axioms Mido.Conc.C10_no_fault
#print axioms Mido.Conc.C10_mutex
#print axioms Mido.Conc.C10_fifo
#print axioms Mido.Conc.C10_sender_order
