import MidoProofs.Props.C06
import MidoProofs.TableTie
#print axioms Mido.C06_resync
#print axioms Mido.C06_resync_rt
#print axioms Mido.C06_prefix
#print axioms Mido.C06_concat
#print axioms Mido.C06_sysex_rt
#print axioms Mido.tie_specs
#print axioms Mido.tie_lengths
