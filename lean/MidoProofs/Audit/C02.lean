import MidoProofs.Props.C02
import MidoProofs.TableTie
#print axioms Mido.C02_decision
#print axioms Mido.C02_sound
#print axioms Mido.C02_complete
#print axioms Mido.C02_reject
#print axioms Mido.C02_errors
#print axioms Mido.tie_specs
#print axioms Mido.tie_lengths
#print axioms Mido.tie_defined
