import MidoProofs.Props.C12
#print axioms Mido.C12_perm
#print axioms Mido.C12_sorted
#print axioms Mido.C12_stable
#print axioms Mido.C12_one_eot
#print axioms Mido.C12_duration
#print axioms Mido.C12_empty
#print axioms Mido.merged_abs
