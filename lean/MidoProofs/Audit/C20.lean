import MidoProofs.Props.C20
#print axioms Mido.C20_lazy_init
#print axioms Mido.C20_lazy
#print axioms Mido.C20_name_precedence
#print axioms Mido.C20_env_default
#print axioms Mido.C20_api_reaches_all
#print axioms Mido.C20_api_precedence
#print axioms Mido.C20_names
#print axioms Mido.C20_ioport
