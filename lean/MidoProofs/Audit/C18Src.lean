import MidoProofs.SrcTie.Tok
#print axioms Mido.src_feed_byte
#print axioms Mido.src_feed
