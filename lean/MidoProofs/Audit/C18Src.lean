import MidoProofs.SrcTie.Tok
import MidoProofs.SrcTie.Sockets
#print axioms Mido.src_feed_byte
#print axioms Mido.src_feed
#print axioms Mido.src_split
#print axioms Mido.src_parse_address
#print axioms Mido.src_parse_format
