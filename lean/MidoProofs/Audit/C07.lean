import MidoProofs.Props.C07
import MidoProofs.TableTie
#print axioms Mido.C07_reject_type0
#print axioms Mido.C07_reject_time
#print axioms Mido.C07_written_is_storable
#print axioms Mido.C07_written_type0
#print axioms Mido.C07_vlq
#print axioms Mido.C07_roundtrip
#print axioms Mido.C07_roundtrip_normal
#print axioms Mido.C07_saved_fixed_point
#print axioms Mido.C07_fixed_point
#print axioms Mido.readFile_sound
#print axioms Mido.decode_sound
#print axioms Mido.readEvents_write
#print axioms Mido.readTrack_write
#print axioms Mido.tie_meta_specs
#print axioms Mido.tie_specs
#print axioms Mido.tie_realtime
#print axioms Mido.tie_realtime_model
#print axioms Mido.tie_max_len
