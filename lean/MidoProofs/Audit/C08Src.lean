import MidoProofs.SrcTie.Vlq
import MidoProofs.SrcTie.VlqRead
import MidoProofs.SrcTie.FileConformance
import MidoProofs.SrcTie.Writer
import MidoProofs.SrcTie.Reader
#print axioms Mido.src_vlq_loop1
#print axioms Mido.src_vlq_hi_loop
#print axioms Mido.src_encode_variable_int
#print axioms Mido.src_encode_variable_int_neg
#print axioms Mido.src_read_vlq_loop
#print axioms Mido.src_read_variable_int
#print axioms Mido.src_fix_gen
#print axioms Mido.src_write_chunk
#print axioms Mido.src_wt_check
#print axioms Mido.src_wt_loop
#print axioms Mido.fixEot_toW
#print axioms Mido.src_write_track
#print axioms Mido.packI16_eq
#print axioms Mido.src_save_loop
#print axioms Mido.src_save
#print axioms Mido.src_read_bytes
#print axioms Mido.src_read_sysex
#print axioms Mido.src_read_meta_message
#print axioms Mido.src_read_message
#print axioms Mido.src_track_body
#print axioms Mido.src_track_loop
#print axioms Mido.src_read_chunk_header
#print axioms Mido.src_read_track
#print axioms Mido.src_read_file_header
#print axioms Mido.src_load_loop
#print axioms Mido.src_load
#print axioms Mido.src_load_any_encoding
#print axioms Mido.src_save_conforms
