import MidoProofs.Props.C08
import MidoProofs.TableTie
#print axioms Mido.C08_read_any_vlq
#print axioms Mido.C08_padding
#print axioms Mido.C08_written_vlq_minimal
#print axioms Mido.C08_clip_valid
#print axioms Mido.C08_clip_range
#print axioms Mido.fixEot_last
#print axioms Mido.C08_read_any
#print axioms Mido.C08_clip_same_on_valid
#print axioms Mido.C08_clip_keeps_strict
#print axioms Mido.C08_clip_only_difference
#print axioms Mido.C08_clip_message
#print axioms Mido.C08_clip_sysex
#print axioms Mido.C08_write_conforms
#print axioms Mido.C08_roundtrip_via_spec
#print axioms Mido.C08_writer_vlq
#print axioms Mido.tie_max_len
