import MidoProofs.Props.C13
#print axioms Mido.iter_integral
#print axioms Mido.C13_integral
#print axioms Mido.C13_length
#print axioms Mido.C13_type2
#print axioms Mido.C13_round
#print axioms Mido.C13_not_early
#print axioms Mido.C13_units_exact
