import MidoProofs.Props.C13
import MidoProofs.TableTie
#print axioms Mido.iter_integral
#print axioms Mido.C13_integral
#print axioms Mido.C13_length
#print axioms Mido.C13_type2
#print axioms Mido.C13_round
#print axioms Mido.C13_not_early
#print axioms Mido.C13_units_exact
#print axioms Mido.tie_default_tempo
