import MidoProofs.SrcTie.Codec
#print axioms Mido.src_check_channel
#print axioms Mido.src_check_pos
#print axioms Mido.src_check_pitch
#print axioms Mido.src_check_frame_type
#print axioms Mido.src_check_frame_value
#print axioms Mido.src_check_data_byte
#print axioms Mido.src_check_data
#print axioms Mido.src_checks_table
#print axioms Mido.src_checkAttr_int
