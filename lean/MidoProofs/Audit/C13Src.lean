import MidoProofs.SrcTie.Timing
#print axioms Mido.src_iter_loop
#print axioms Mido.src_iter
#print axioms Mido.outOf_times
#print axioms Mido.src_iter_integral
#print axioms Mido.src_length
#print axioms Mido.src_length_integral
