import MidoProofs.SrcTie.Charset
#print axioms Mido.src_meta_charset
#print axioms Mido.src_meta_charset_scoped
#print axioms Mido.src_meta_charset_inner
#print axioms Mido.src_meta_charset_nested
#print axioms Mido.src_withCharset
