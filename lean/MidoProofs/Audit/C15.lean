import MidoProofs.Props.C15
import MidoProofs.Props.C15b
#print axioms Mido.hstep_shape
#print axioms Mido.C15_frame
#print axioms Mido.C15_copy_eq
#print axioms Mido.C15_frozen_immutable
#print axioms Mido.C15_no_delete
#print axioms Mido.C15_freeze_idem
#print axioms Mido.C15_thaw_freeze
#print axioms Mido.C15_none
#print axioms Mido.C15_hash_eq
#print axioms Mido.C15_hash_total
#print axioms Mido.C15_copy_overrides
