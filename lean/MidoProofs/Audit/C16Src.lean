import MidoProofs.SrcTie.Tracks
import MidoProofs.SrcTie.MergedTrack
#print axioms Mido.src_to_abstime
#print axioms Mido.src_to_reltime
#print axioms Mido.src_fix_end_of_track
#print axioms Mido.src_sortByTime
#print axioms Mido.src_merge_tracks
#print axioms Mido.src_merged_track
#print axioms Mido.src_merged_track_model
