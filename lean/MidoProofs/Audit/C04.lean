import MidoProofs.Props.C04
import MidoProofs.TableTie
#print axioms Mido.C04_total
#print axioms Mido.C04_realtime
#print axioms Mido.C04_subseq
#print axioms Mido.C04_valid_tokens
#print axioms Mido.tie_specs
#print axioms Mido.tie_lengths
#print axioms Mido.tie_defined
