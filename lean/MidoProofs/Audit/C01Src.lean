import MidoProofs.SrcTie.Codec
import MidoProofs.SrcTie.Msg
#print axioms Mido.src_encode_pitchwheel
#print axioms Mido.src_encode_sysex
#print axioms Mido.src_encode_quarter_frame
#print axioms Mido.src_encode_songpos
#print axioms Mido.src_encode_note_off
#print axioms Mido.src_encode_note_on
#print axioms Mido.src_encode_control_change
#print axioms Mido.src_encode_dispatch
#print axioms Mido.src_decode_sysex_data
#print axioms Mido.src_decode_quarter_frame
#print axioms Mido.src_decode_songpos
#print axioms Mido.src_decode_pitchwheel
#print axioms Mido.src_decode_dispatch
#print axioms Mido.src_encode_message
#print axioms Mido.src_decode_encode
#print axioms Mido.src_decode_message
