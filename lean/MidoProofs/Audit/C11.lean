import MidoProofs.Props.C11
import MidoProofs.Props.C11b
#print axioms Mido.C11_close_idem
#print axioms Mido.C11_close_log
#print axioms Mido.C11_close_log_healthy
#print axioms Mido.C11_release_once
#print axioms Mido.C11_send_after_close
#print axioms Mido.C11_closed_frozen
#print axioms Mido.C11_closed_history
#print axioms Mido.C11_drain
#print axioms Mido.C11_poll_never_sleeps
#print axioms Mido.C11_block_prompt
#print axioms Mido.C11_multi_nonblocking
#print axioms Mido.C11_multi_prompt
#print axioms Mido.C11_iter_close_anywhere
#print axioms Mido.iterAll_spec
