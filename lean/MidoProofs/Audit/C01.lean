import MidoProofs.Props.C01
import MidoProofs.TableTie
#print axioms Mido.C01_decode_encode
#print axioms Mido.C01_layout
#print axioms Mido.C01_wellformed
#print axioms Mido.C01_length
#print axioms Mido.C01_hex
#print axioms Mido.C01_hex_msg
#print axioms Mido.tie_specs
#print axioms Mido.tie_lengths
#print axioms Mido.tie_rows
#print axioms Mido.tie_defined
#print axioms Mido.tie_limits
