import MidoProofs.Props.C09
import MidoProofs.TableTie
#print axioms Mido.C09_payload_roundtrip
#print axioms Mido.C09_form
#print axioms Mido.C09_roundtrip_partial
#print axioms Mido.C09_encodes
#print axioms Mido.C09_accepts_denominator
#print axioms Mido.C09_accepts_keys
#print axioms Mido.C09_accepts_ints
#print axioms Mido.C09_rejects
#print axioms Mido.C09_vlq
#print axioms Mido.tie_meta_specs
#print axioms Mido.tie_keys
#print axioms Mido.tie_frame_rates
#print axioms Mido.tie_meta_defaults
