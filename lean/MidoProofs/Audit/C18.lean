import MidoProofs.Props.C18
import MidoProofs.Props.C11
#print axioms Mido.C18_address
#print axioms Mido.C18_address_stable
#print axioms Mido.C18_close_visible
#print axioms Mido.C18_partial_silent
#print axioms Mido.C18_cut
#print axioms Mido.C18_segmentation
#print axioms Mido.completeWithin_le
#print axioms Mido.C11_drain
#print axioms Mido.C11_multi_prompt
