import MidoProofs.SrcTie.Tok
import MidoProofs.SrcTie.Syx
#print axioms Mido.src_feed_byte
#print axioms Mido.src_feed
#print axioms Mido.src_fromhex
#print axioms Mido.fromHex_bytes
#print axioms Mido.src_syx_loop
#print axioms Mido.src_fresh_feed
#print axioms Mido.src_read_syx
#print axioms Mido.src_write_syx
#print axioms Mido.src_syx_roundtrip
