import MidoProofs.Props.C03
import MidoProofs.TableTie
#print axioms Mido.C03_invariant
#print axioms Mido.C03_atomic
#print axioms Mido.C03_shape
#print axioms Mido.C03_delete_refused
#print axioms Mido.mstep_spec
#print axioms Mido.construct_valid
#print axioms Mido.copyObj_valid
#print axioms Mido.setAttr_valid
#print axioms Mido.tie_int_defaults
#print axioms Mido.tie_specs
