import MidoProofs.SrcTie.Backend
#print axioms Mido.devOf_filter_in
#print axioms Mido.devOf_filter_out
#print axioms Mido.src_add_api
#print axioms Mido.src_add_api_others
#print axioms Mido.src_add_api_twice
#print axioms Mido.src_env
#print axioms Mido.src_open_input
#print axioms Mido.src_open_output
#print axioms Mido.src_open_ioport
#print axioms Mido.src_get_devices
#print axioms Mido.src_names
#print axioms Mido.src_names_query
