import MidoProofs.SrcTie.Meta
import MidoProofs.SrcTie.Vlq
import MidoProofs.SrcTie.MetaFrame
import MidoProofs.SrcTie.MetaRoundTrip
#print axioms Mido.src_check_int
#print axioms Mido.src_meta_sequence_number_encode
#print axioms Mido.src_meta_channel_prefix_encode
#print axioms Mido.src_meta_midi_port_encode
#print axioms Mido.src_meta_set_tempo_encode
#print axioms Mido.src_meta_time_signature_encode
#print axioms Mido.src_meta_checks
#print axioms Mido.src_meta_sequence_number_decode
#print axioms Mido.src_meta_channel_prefix_decode
#print axioms Mido.src_meta_midi_port_decode
#print axioms Mido.src_meta_set_tempo_decode
#print axioms Mido.src_meta_time_signature_decode
#print axioms Mido.src_encode_variable_int
#print axioms Mido.src_encode_variable_int_neg
#print axioms Mido.and_pred_eq_zero_iff
#print axioms Mido.isPow2_iff
#print axioms Mido.src_meta_time_signature_check
#print axioms Mido.src_decode_variable_int
#print axioms Mido.src_scan_loop
#print axioms Mido.decode_variable_int_total
#print axioms Mido.src_meta_from_bytes
#print axioms Mido.src_meta_from_bytes_model
#print axioms Mido.src_meta_bytes
#print axioms Mido.src_meta_bytes_err
#print axioms Mido.src_unknown_meta_bytes
#print axioms Mido.src_meta_roundtrip
