import MidoProofs.SrcTie.Codec
import MidoProofs.SrcTie.Msg
import MidoProofs.SrcTie.MsgDecision
#print axioms Mido.src_decode_sysex_data
#print axioms Mido.src_decode_quarter_frame
#print axioms Mido.src_decode_songpos
#print axioms Mido.src_decode_pitchwheel
#print axioms Mido.src_decode_dispatch
#print axioms Mido.src_decode_short
#print axioms Mido.src_check_data_byte
#print axioms Mido.src_check_data
#print axioms Mido.src_decode_message
#print axioms Mido.spec_rows
#print axioms Mido.special_fn
#print axioms Mido.dec_sysex
#print axioms Mido.dec_undefined
#print axioms Mido.src_decode_decision
