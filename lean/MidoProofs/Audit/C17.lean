import MidoProofs.Props.C17
import MidoProofs.TableTie
#print axioms Mido.C17_step_scoped
#print axioms Mido.C17_scoped
#print axioms Mido.C17_probe_default
#print axioms Mido.C17_uses_charset
#print axioms Mido.C17_inner_charset
#print axioms Mido.C17_utf8_roundtrip
#print axioms Mido.C17_utf8_canonical
#print axioms Mido.C17_latin_roundtrip
#print axioms Mido.tie_default_charset
