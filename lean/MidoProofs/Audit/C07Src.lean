import MidoProofs.SrcTie.Vlq
import MidoProofs.SrcTie.Tracks
#print axioms Mido.src_vlq_loop1
#print axioms Mido.src_vlq_hi_loop
#print axioms Mido.src_encode_variable_int
#print axioms Mido.src_encode_variable_int_neg
#print axioms Mido.src_read_vlq_loop
#print axioms Mido.src_read_variable_int
#print axioms Mido.src_fix_end_of_track
