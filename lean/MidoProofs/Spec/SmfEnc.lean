import MidoModel.Smf
import MidoProofs.Props.C04
import MidoProofs.Props.C09
/-!
  The Standard MIDI File encoding of an event list, as a *relation* between events and bytes
  (specification level: no reader or writer function is mentioned).  It admits every legal
  spelling: padded variable-length quantities, running status used or not used wherever the
  standard allows it.  `save` must produce a member of the relation (C08, write direction) and
  `load` must invert every member (C08, read direction).
-/
namespace Mido
open List

/-- a byte string denotes the number `n` as a variable-length quantity, with any amount of
    (legal) padding: continuation bytes ≥ 0x80, one final byte < 0x80 -/
inductive VlqDenotes : List Nat → Nat → Nat → Prop
  | last (acc b : Nat) (h : b < 128) : VlqDenotes [b] acc (acc * 128 + b)
  | cont (acc b : Nat) (rest : List Nat) (n : Nat) (h1 : 128 ≤ b) (h2 : b < 256)
      (h : VlqDenotes rest (acc * 128 + b % 128) n) : VlqDenotes (b :: rest) acc n

/-- the standard's running status after an event: a channel message establishes its status byte,
    everything else (sysex, system common, meta) cancels it -/
def rsAfter : FEv → Option Nat
  | .msg m => if m.status < 0xf0 then some m.status else none
  | _ => none

/-- One event (after its delta time) in a standard-conformant spelling, given the running status
    `rs` in force before it.  The payload bounds are the reader's documented limit
    (`maxMessageLength` = 1 000 000 bytes). -/
inductive EncEv (cs : Charset) (rs : Option Nat) : FEv → List Nat → Prop
  /-- channel or system-common message with its status byte -/
  | full (m : Msg) (hv : m.Valid) (hnr : m.isRealtime = false) (hns : ∀ d, m ≠ .sysex d) :
      EncEv cs rs (.msg m) (encode m)
  /-- channel message whose status byte equals the running status: the status byte may be omitted -/
  | running (m : Msg) (hv : m.Valid) (hch : m.status < 0xf0) (hrs : rs = some m.status) :
      EncEv cs rs (.msg m) (encode m).tail
  /-- sysex: F0 <length> data F7, the length counting the F7 -/
  | sysex (d lb : List Nat) (hd : d.all (· ≤ 127) = true) (hl : VlqDenotes lb 0 (d.length + 1))
      (hmax : d.length + 1 ≤ maxMessageLength) :
      EncEv cs rs (.msg (.sysex d)) ([0xf0] ++ lb ++ d ++ [0xf7])
  /-- meta event of a known type: FF type <length> payload -/
  | metaEv (mm : MetaMsg) (p lb : List Nat) (hc : mm.check = .ok ()) (hn : mm.normal = true)
      (hp : metaPayload cs mm = .ok p) (hl : VlqDenotes lb 0 p.length) (hmax : p.length ≤ maxMessageLength) :
      EncEv cs rs (.metaEv mm) ([0xff, mm.ty.typeByte] ++ lb ++ p)
  /-- meta event of a type mido does not know: kept as raw bytes -/
  | unknownMeta (tb : Nat) (data lb : List Nat) (hu : MetaType.ofByte tb = none)
      (hl : VlqDenotes lb 0 data.length) (hmax : data.length ≤ maxMessageLength) :
      EncEv cs rs (.unknownMeta tb data) ([0xff, tb] ++ lb ++ data)

/-- the body of a track chunk: delta time and event, repeated -/
inductive EncBody (cs : Charset) : Option Nat → List LEvent → List Nat → Prop
  | nil (rs : Option Nat) : EncBody cs rs [] []
  | cons (rs : Option Nat) (e : LEvent) (db eb : List Nat) (es : List LEvent) (rest : List Nat)
      (hd : VlqDenotes db 0 e.delta) (he : EncEv cs rs e.ev eb) (hr : EncBody cs (rsAfter e.ev) es rest) :
      EncBody cs rs (e :: es) (db ++ eb ++ rest)

/-- a track chunk: `MTrk`, the exact 32-bit body length, the body; running status starts cancelled -/
inductive EncTrack (cs : Charset) : List LEvent → List Nat → Prop
  | mk (evs : List LEvent) (body : List Nat) (hb : EncBody cs none evs body) (hlen : body.length < 4294967296) :
      EncTrack cs evs (mtrk ++ u32be body.length ++ body)

inductive EncTracks (cs : Charset) : List (List LEvent) → List Nat → Prop
  | nil : EncTracks cs [] []
  | cons (t : List LEvent) (ts : List (List LEvent)) (a b : List Nat) (ha : EncTrack cs t a) (hb : EncTracks cs ts b) :
      EncTracks cs (t :: ts) (a ++ b)

/-- 16-bit big-endian two's complement -/
def Enc16 (v : Int) (a b : Nat) : Prop := a < 256 ∧ b < 256 ∧ s16 a b = v

/-- a file: `MThd`, a header chunk of 6 **or more** bytes (extra bytes are to be ignored), the
    track chunks -/
inductive EncFile (cs : Charset) : LFile → List Nat → Prop
  | mk (f : LFile) (t1 t2 n1 n2 d1 d2 : Nat) (extra chunks : List Nat)
      (ht : Enc16 f.type t1 t2) (hn : Enc16 (f.tracks.length : Int) n1 n2) (hd : Enc16 f.tpb d1 d2)
      (hx : 6 + extra.length < 4294967296)
      (hc : EncTracks cs f.tracks chunks) :
      EncFile cs f (mthd ++ u32be (6 + extra.length) ++ [t1, t2, n1, n2, d1, d2] ++ extra ++ chunks)

end Mido
