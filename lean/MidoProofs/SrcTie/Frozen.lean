/-
  Source tie for mido/frozen.py (`is_frozen`, `freeze_message`, `thaw_message`), translated from the source text with the
  class table read off the classes of the working tree: the class of the result is the matching one, its instance dict is the
  argument's, against the heap model's `freeze` / `thaw`.
-/
import MidoModel.Generated.SrcFrozen
import MidoModel.Heap
set_option linter.unusedSimpArgs false
namespace Mido
open Mido.Py

/-- the class of a heap object of the model -/
def clsOf (o : HObj) : String :=
  match o.frozen, o.body with
  | false, .msg _ => "Message"
  | false, .metaB _ _ => "MetaMessage"
  | false, .unk _ _ _ => "UnknownMetaMessage"
  | true, .msg _ => "FrozenMessage"
  | true, .metaB _ _ => "FrozenMetaMessage"
  | true, .unk _ _ _ => "FrozenUnknownMetaMessage"

/-- a heap object as frozen.py sees it -/
def HObj.toSrc (o : HObj) : PyObj Body := { cls := clsOf o, vars := o.body }

/-- **`is_frozen`** -/
theorem src_is_frozen (o : HObj) :
    Src.is_frozen (some o.toSrc) = .ok o.frozen ∧ Src.is_frozen (none : Option (PyObj Body)) = .ok false := by
  obtain ⟨fr, body⟩ := o
  cases fr <;> cases body <;> exact ⟨rfl, rfl⟩

/-- **`freeze_message`** of the source: None for None; a frozen message as it is; otherwise an object of the MATCHING frozen
    class (Message ↦ FrozenMessage, UnknownMetaMessage ↦ FrozenUnknownMetaMessage — tested before its base class —,
    MetaMessage ↦ FrozenMetaMessage) holding the same instance dict — the heap model's `freeze` -/
theorem src_freeze (o : HObj) :
    Src.freeze_message (some o.toSrc) = .ok (some ({ o with frozen := true } : HObj).toSrc) ∧
    Src.freeze_message (none : Option (PyObj Body)) = .ok none := by
  obtain ⟨fr, body⟩ := o
  cases fr <;> cases body <;> exact ⟨rfl, rfl⟩

/-- **`thaw_message`** of the source: None for None; the message's own `copy()` for one that is not frozen; otherwise an
    object of the matching plain class holding the same instance dict — the heap model's `thaw` -/
theorem src_thaw (o : HObj) (copy : PyObj Body → Except Err (PyObj Body)) :
    Src.thaw_message (some o.toSrc) copy =
      (if o.frozen then .ok (some ({ o with frozen := false } : HObj).toSrc) else (copy o.toSrc).map some) ∧
    Src.thaw_message (none : Option (PyObj Body)) copy = .ok none := by
  obtain ⟨fr, body⟩ := o
  cases fr <;> cases body <;> refine ⟨?_, rfl⟩ <;>
    first
      | rfl
      | (simp only [Src.thaw_message, HObj.toSrc, clsOf, bind, Except.bind, pure, Except.pure, optObj]
         cases copy _ <;> rfl)

/-- freezing then thawing gives back an object of the original class with the original contents, and freezing is idempotent -/
theorem src_freeze_thaw (o : HObj) (copy : PyObj Body → Except Err (PyObj Body)) (h : o.frozen = false) :
    (Src.freeze_message (some o.toSrc) >>= fun f => Src.thaw_message f copy) = .ok (some o.toSrc) ∧
    (Src.freeze_message (some o.toSrc) >>= Src.freeze_message) = Src.freeze_message (some o.toSrc) := by
  obtain ⟨fr, body⟩ := o
  cases h
  cases body <;> exact ⟨rfl, rfl⟩

/-- anything that is neither a message nor None is refused -/
example : Src.freeze_message (some ({ cls := "int", vars := (default : Body) } : PyObj Body)) = .error .ValueError := rfl
example : Src.thaw_message (some ({ cls := "Frozen", vars := (default : Body) } : PyObj Body)) (fun o => .ok o) = .error .ValueError := rfl

end Mido
