/-
  The meta framing tie and the C09 theorems composed: the round trip of meta messages stated about the translated
  `MetaMessage.bytes` / `MetaMessage.from_bytes`.
-/
import MidoProofs.SrcTie.MetaFrame
import MidoProofs.Props.C09
set_option linter.unusedSimpArgs false
namespace Mido
open Mido.Py

/-- `build_meta_message` as the model renders it, for the translated `from_bytes` -/
def metaExt (cs : Charset) : ReaderExt MetaEvent :=
  { buildMeta := fun ty data _ => buildMeta cs ty.toNat (data.map Int.toNat),
    mkSysex := fun _ _ => .error .Other, fromBytes := fun _ _ => .error .Other }

/-- **C09 at the level of the source text**: for every checked meta message in normal form whose payload the spec can
    encode, the translated `bytes()` (given that payload) produces `FF type VLQ(len) payload`, all bytes, and the translated
    `from_bytes` run on exactly those bytes gives back the message -/
theorem src_meta_roundtrip (cs : Charset) (m : MetaMsg) (hc : m.check = .ok ()) (hn : m.normal = true)
    (p : List Nat) (hp : metaPayload cs m = .ok p) :
    ∃ bs, metaBytes cs m = .ok bs ∧
      Src.MetaMessage.bytes (m.ty.typeByte : Int) (.ok (natsToInts p)) = .ok (natsToInts bs) ∧
      Src.MetaMessage.from_bytes (metaExt cs) (natsToInts bs) = .ok (.known m) := by
  have hb : metaBytes cs m = .ok ([0xff, m.ty.typeByte] ++ encVlq p.length ++ p) := by
    simp [metaBytes, hp, bind, Except.bind, pure, Except.pure]
  refine ⟨_, hb, ?_, ?_⟩
  · rw [src_meta_bytes]
    simp [natsToInts]
  · obtain ⟨hrt, hbytes⟩ := C09_roundtrip_partial cs m hc hn _ hb
    have := src_meta_from_bytes_model cs _ hbytes
    rw [hrt] at this
    exact this
end Mido
