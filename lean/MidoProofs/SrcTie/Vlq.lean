import MidoModel.Vlq
import MidoModel.Generated.Src
import MidoProofs.SrcTie.Basic
import MidoProofs.SrcTie.Codec
set_option linter.unusedSimpArgs false
/-!
  Source tie, variable-length quantities: `encode_variable_int` as translated from the text of
  `mido/midifiles/meta.py` (a `while` loop collecting 7-bit groups, `reverse`, a `for` loop setting
  the continuation bits) computes the model's `encVlq` for every natural number, and refuses
  negative values with `ValueError`.
-/
namespace Mido
open Mido.Py

/-- little-endian 7-bit groups of a number (`[]` for 0): what the `while` loop collects -/
def lsbGroups : Nat → List Nat
  | 0 => []
  | n + 1 => ((n + 1) % 128) :: lsbGroups ((n + 1) / 128)
decreasing_by omega

theorem src_vlq_loop1 : ∀ (v fuel : Nat), v ≤ fuel → ∀ bytes : List Int,
    Src.encode_variable_int.loop1 fuel (v : Int) bytes
      = .ok ((0 : Int), bytes ++ (lsbGroups v).map Int.ofNat) := by
  intro v
  induction v using Nat.strongRecOn with
  | _ v ih =>
    intro fuel hf bytes
    match v, fuel with
    | 0, 0 => simp [Src.encode_variable_int.loop1, lsbGroups, pure, Except.pure]
    | 0, f + 1 => simp [Src.encode_variable_int.loop1, lsbGroups, pure, Except.pure, bind, Except.bind]
    | n + 1, 0 => omega
    | n + 1, f + 1 =>
      have hne : ¬ (((n + 1 : Nat) : Int) = 0) := by omega
      have hrec := ih ((n + 1) / 128) (by omega) f (by omega) (bytes ++ [(((n + 1) % 128 : Nat) : Int)])
      rw [Src.encode_variable_int.loop1]
      simp only [bne_iff_ne, ne_eq, hne, not_false_eq_true, if_true, pure, Except.pure, bind, Except.bind]
      have e1 : land ((n + 1 : Nat) : Int) (127 : Int) = (((n + 1) % 128 : Nat) : Int) := by
        rw [land_lit_right]; congr 1; exact Nat.and_two_pow_sub_one_eq_mod (n + 1) 7
      have e2 : shrN ((n + 1 : Nat) : Int) 7 = (((n + 1) / 128 : Nat) : Int) := by
        rw [shrN_ofNat]; congr 1; simp [Nat.shiftRight_eq_div_pow]
      rw [e1, e2, hrec, lsbGroups]
      simp

end Mido
