import MidoModel.Vlq
import MidoModel.Generated.SrcMetaNum
import MidoProofs.SrcTie.Basic
import MidoProofs.SrcTie.Codec
set_option linter.unusedSimpArgs false
/-!
  Source tie, variable-length quantities: `encode_variable_int` as translated from the text of
  `mido/midifiles/meta.py` (a `while` loop collecting 7-bit groups, `reverse`, a `for` loop setting
  the continuation bits) computes the model's `encVlq` for every natural number, and refuses
  negative values with `ValueError`.
-/
namespace Mido
open Mido.Py

/-- little-endian 7-bit groups of a number (`[]` for 0): what the `while` loop collects -/
def lsbGroups : Nat → List Nat
  | 0 => []
  | n + 1 => ((n + 1) % 128) :: lsbGroups ((n + 1) / 128)
decreasing_by omega

theorem src_vlq_loop1 : ∀ (v fuel : Nat), v ≤ fuel → ∀ bytes : List Int,
    Src.encode_variable_int.loop1 fuel (v : Int) bytes
      = .ok ((0 : Int), bytes ++ (lsbGroups v).map Int.ofNat) := by
  intro v
  induction v using Nat.strongRecOn with
  | _ v ih =>
    intro fuel hf bytes
    match v, fuel with
    | 0, 0 => simp [Src.encode_variable_int.loop1, lsbGroups, pure, Except.pure]
    | 0, f + 1 => simp [Src.encode_variable_int.loop1, lsbGroups, pure, Except.pure, bind, Except.bind]
    | n + 1, 0 => omega
    | n + 1, f + 1 =>
      have hne : ¬ (((n + 1 : Nat) : Int) = 0) := by omega
      have hrec := ih ((n + 1) / 128) (by omega) f (by omega) (bytes ++ [(((n + 1) % 128 : Nat) : Int)])
      rw [Src.encode_variable_int.loop1]
      simp only [bne_iff_ne, ne_eq, hne, not_false_eq_true, if_true, pure, Except.pure, bind, Except.bind]
      have e1 : land ((n + 1 : Nat) : Int) (127 : Int) = (((n + 1) % 128 : Nat) : Int) := by
        rw [land_lit_right]; congr 1; exact Nat.and_two_pow_sub_one_eq_mod (n + 1) 7
      have e2 : shrN ((n + 1 : Nat) : Int) 7 = (((n + 1) / 128 : Nat) : Int) := by
        rw [shrN_ofNat]; congr 1; simp [Nat.shiftRight_eq_div_pow]
      rw [e1, e2, hrec, lsbGroups]
      simp

/-- set the continuation bit in every element but the last: what the `for` loop does -/
def hiAllButLast : List Nat → List Nat
  | [] => []
  | [x] => [x]
  | x :: y :: r => (x ||| 128) :: hiAllButLast (y :: r)

theorem idx_mid (pre : List Nat) (x : Nat) (t : List Nat) :
    idx ((pre ++ x :: t).map Int.ofNat) (pre.length : Int) = .ok (x : Int) := by
  have h : ¬ ((pre.length : Int) < 0) := by omega
  simp [idx, h]

theorem setIdx_mid (pre : List Nat) (x : Nat) (t : List Nat) (v : Nat) :
    setIdx ((pre ++ x :: t).map Int.ofNat) (pre.length : Int) (v : Int)
      = .ok (((pre ++ [v]) ++ t).map Int.ofNat) := by
  have h : ¬ ((pre.length : Int) < 0) := by omega
  have h2 : ¬ ((pre.length : Int) ≥ ((pre.length + (t.length + 1) : Nat) : Int)) := by omega
  simp [setIdx, h]
  omega

/-- the `for i in range(len(bytes) - 1): bytes[i] |= 0x80` loop, for any loop body `F` that reads element `i`,
    ors 128 into it and writes it back (stated through `F` because two `match` expressions that are equal by
    definition need not be syntactically the same term) -/
theorem src_vlq_hi_loop (F : Int → List Int → Except Err (ForInStep (List Int)))
    (hF : ∀ i s, F i s = (do let v ← idx s i; let s' ← setIdx s i (lor v 128); pure (ForInStep.yield s'))) :
    ∀ (l pre : List Nat),
    forIn ((List.range' pre.length (l.length - 1)).map Int.ofNat) ((pre ++ l).map Int.ofNat) F
      = .ok ((pre ++ hiAllButLast l).map Int.ofNat)
  | [], pre => by simp [hiAllButLast, pure, Except.pure]
  | [x], pre => by simp [hiAllButLast, pure, Except.pure]
  | x :: y :: r, pre => by
    have ih := src_vlq_hi_loop F hF (y :: r) (pre ++ [x ||| 128])
    have hlen : (x :: y :: r).length - 1 = r.length + 1 := by simp
    have hlen2 : (y :: r).length - 1 = r.length := by simp
    rw [hlen, List.range'_succ, List.map_cons, List.forIn_cons, hF]
    have e1 := idx_mid pre x (y :: r)
    simp only [Int.ofNat_eq_natCast] at e1 ⊢
    have e2 := setIdx_mid pre x (y :: r) (x ||| 128)
    have e3 : lor (x : Int) 128 = ((x ||| 128 : Nat) : Int) := lor_lit_right x 128
    simp only [e1, e3, e2, bind, Except.bind, pure, Except.pure]
    rw [hlen2] at ih
    simp only [List.length_append, List.length_cons, List.length_nil, Nat.zero_add, Int.ofNat_eq_natCast] at ih
    simpa [hiAllButLast] using ih

theorem hiAllButLast_snoc : ∀ (xs : List Nat) (z : Nat),
    hiAllButLast (xs ++ [z]) = xs.map (· ||| 128) ++ [z]
  | [], z => by simp [hiAllButLast]
  | [x], z => by simp [hiAllButLast]
  | x :: y :: r, z => by
    have ih := hiAllButLast_snoc (y :: r) z
    simp only [List.cons_append] at ih ⊢
    rw [hiAllButLast, ih]; simp

theorem or_128_of_lt : ∀ x, x < 128 → x ||| 128 = x + 128 := by decide

theorem lsbGroups_lt : ∀ (n : Nat), ∀ g ∈ lsbGroups n, g < 128 := by
  intro n
  induction n using Nat.strongRecOn with
  | _ n ih =>
    match n with
    | 0 => simp [lsbGroups]
    | k + 1 =>
      rw [lsbGroups]
      intro g hg
      simp only [List.mem_cons] at hg
      rcases hg with h | h
      · omega
      · exact ih ((k + 1) / 128) (by omega) g h

/-- the model's recursive encoder in terms of the groups the loop collects -/
theorem encVlqAux_groups : ∀ (n : Nat) (tail : List Nat),
    encVlqAux n tail = (lsbGroups n).reverse.map (· + 128) ++ tail := by
  intro n
  induction n using Nat.strongRecOn with
  | _ n ih =>
    intro tail
    match n with
    | 0 => simp [encVlqAux, lsbGroups]
    | k + 1 =>
      rw [encVlqAux, lsbGroups, ih ((k + 1) / 128) (by omega)]
      simp

/-- `encode_variable_int`, as translated from the source, is the model's `encVlq` on every natural number -/
theorem src_encode_variable_int (v : Nat) :
    Src.encode_variable_int (v : Int) = .ok (natsToInts (encVlq v)) := by
  have hneg : ¬ ((v : Int) < 0) := by omega
  simp only [Src.encode_variable_int, hneg, Int.toNat_natCast, src_vlq_loop1 v v (Nat.le_refl _) [], pure,
    Except.pure, bind, Except.bind, Bool.not_true, decide_false, Bool.or_false, Bool.false_eq_true, if_false,
    List.nil_append]
  match v with
  | 0 => simp [lsbGroups, encVlq, encVlqAux, natsToInts]
  | k + 1 =>
    have hg : lsbGroups (k + 1) = ((k + 1) % 128) :: lsbGroups ((k + 1) / 128) := by rw [lsbGroups]
    have hne : (!(List.map Int.ofNat (lsbGroups (k + 1))).isEmpty) = true := by simp [hg]
    simp only [hne, if_true]
    have hloop := fun F hF => src_vlq_hi_loop F hF (lsbGroups (k + 1)).reverse []
    simp only [List.length_nil, List.nil_append, List.length_reverse] at hloop
    have hr : rangeInt (len (List.map Int.ofNat (lsbGroups (k + 1))).reverse - 1)
        = (List.range' 0 ((lsbGroups (k + 1)).length - 1)).map Int.ofNat := by
      simp only [rangeInt, len, List.length_reverse, List.length_map, List.range_eq_range']
      congr 2
      have : 1 ≤ (lsbGroups (k + 1)).length := by simp [hg]
      omega
    rw [hr, ← List.map_reverse, hloop]
    case hF => intro i s; rfl
    simp only [natsToInts, encVlq, encVlqAux_groups]
    congr 1
    rw [hg, List.reverse_cons, hiAllButLast_snoc]
    congr 2
    apply List.map_congr_left
    intro g hgm
    exact or_128_of_lt g (lsbGroups_lt _ g (by simpa using hgm))

/-- negative values are refused with ValueError (the type test is resolved by the declared type) -/
theorem src_encode_variable_int_neg (v : Int) (h : v < 0) :
    Src.encode_variable_int v = .error .ValueError := by
  simp [Src.encode_variable_int, h, bind, Except.bind, throw, throwThe, MonadExceptOf.throw]

theorem vlq_step (acc b : Nat) :
    lor (shlN (acc : Int) 7) (land (b : Int) 127) = ((acc * 128 + b % 128 : Nat) : Int) := by
  rw [shlN_ofNat, land_lit_right, lor_ofNat]
  congr 1
  have h1 : b &&& 127 = b % 128 := Nat.and_two_pow_sub_one_eq_mod b 7
  have h2 : b % 128 < 2 ^ 7 := by omega
  rw [h1, ← Nat.shiftLeft_add_eq_or_of_lt h2, Nat.shiftLeft_eq]

/-! ### `decode_variable_int` of meta.py (used by `MetaMessage.from_bytes`) -/

/-- clear the continuation bit in every element but the last: what the first `for` loop does -/
def loAllButLast : List Nat → List Nat
  | [] => []
  | [x] => [x]
  | x :: y :: r => ldiff x 128 :: loAllButLast (y :: r)

theorem land_inv128 (x : Nat) : land (x : Int) (inv 128) = ((ldiff x 128 : Nat) : Int) := by
  have : inv 128 = Int.negSucc 128 := by decide
  rw [this]; rfl

theorem src_vlq_lo_loop (F : Int → List Int → Except Err (ForInStep (List Int)))
    (hF : ∀ i s, F i s = (do let v ← idx s i; let s' ← setIdx s i (land v (inv 128)); pure (ForInStep.yield s'))) :
    ∀ (l pre : List Nat),
    forIn ((List.range' pre.length (l.length - 1)).map Int.ofNat) ((pre ++ l).map Int.ofNat) F
      = .ok ((pre ++ loAllButLast l).map Int.ofNat)
  | [], pre => by simp [loAllButLast, pure, Except.pure]
  | [x], pre => by simp [loAllButLast, pure, Except.pure]
  | x :: y :: r, pre => by
    have ih := src_vlq_lo_loop F hF (y :: r) (pre ++ [ldiff x 128])
    have hlen : (x :: y :: r).length - 1 = r.length + 1 := by simp
    have hlen2 : (y :: r).length - 1 = r.length := by simp
    rw [hlen, List.range'_succ, List.map_cons, List.forIn_cons, hF]
    have e1 := idx_mid pre x (y :: r)
    simp only [Int.ofNat_eq_natCast] at e1 ⊢
    have e2 := setIdx_mid pre x (y :: r) (ldiff x 128)
    have e3 := land_inv128 x
    simp only [e1, e3, e2, bind, Except.bind, pure, Except.pure]
    rw [hlen2] at ih
    simp only [List.length_append, List.length_cons, List.length_nil, Nat.zero_add, Int.ofNat_eq_natCast] at ih
    simpa [loAllButLast] using ih

/-- the second loop: `val = (val << 7) | byte` over bytes below 128 is the big-endian base-128 value -/
def be128 : Nat → List Nat → Nat
  | acc, [] => acc
  | acc, b :: r => be128 (acc * 128 + b) r

theorem src_vlq_fold (F : Int → Int → Except Err (ForInStep Int))
    (hF : ∀ i s, F i s = .ok (.yield (lor (shlN s 7) i))) :
    ∀ (l : List Nat) (acc : Nat), (∀ b ∈ l, b < 128) →
      forIn (l.map Int.ofNat) (acc : Int) F = .ok ((be128 acc l : Nat) : Int)
  | [], acc, _ => by simp [be128, pure, Except.pure]
  | b :: r, acc, h => by
    have hb : b < 128 := h b (by simp)
    have ih := src_vlq_fold F hF r (acc * 128 + b) (fun x hx => h x (by simp [hx]))
    rw [List.map_cons, List.forIn_cons, hF]
    have e : lor (shlN (acc : Int) 7) (Int.ofNat b) = ((acc * 128 + b : Nat) : Int) := by
      have := vlq_step acc b
      have hl : land (b : Int) 127 = (b : Int) := by
        rw [land_lit_right]; congr 1
        have h7 : b &&& 127 = b % 128 := Nat.and_two_pow_sub_one_eq_mod b 7
        rw [h7]; exact Nat.mod_eq_of_lt hb
      rw [hl] at this
      have hm : b % 128 = b := Nat.mod_eq_of_lt hb
      rw [hm] at this
      exact this
    simp only [e, bind, Except.bind, be128]
    exact ih

theorem ldiff_128 : ∀ x, x < 256 → 128 ≤ x → ldiff x 128 = x % 128 := by decide +kernel

theorem loAllButLast_snoc : ∀ (xs : List Nat) (z : Nat),
    loAllButLast (xs ++ [z]) = xs.map (fun x => ldiff x 128) ++ [z]
  | [], z => by simp [loAllButLast]
  | [x], z => by simp [loAllButLast]
  | x :: y :: r, z => by
    have ih := loAllButLast_snoc (y :: r) z
    simp only [List.cons_append] at ih ⊢
    rw [loAllButLast, ih]; simp

theorem readVlqAcc_shape : ∀ (hi : List Nat) (last acc : Nat) (rest : List Nat),
    (∀ b ∈ hi, 128 ≤ b) → last < 128 →
    readVlqAcc acc (hi ++ [last] ++ rest) = .ok (be128 acc (hi.map (· % 128) ++ [last]), rest)
  | [], last, acc, rest, _, hl => by
    have : last % 128 = last := Nat.mod_eq_of_lt hl
    simp [readVlqAcc, hl, be128, this]
  | b :: hi, last, acc, rest, hh, hl => by
    have hb : ¬ b < 128 := by have := hh b (by simp); omega
    have ih := readVlqAcc_shape hi last (acc * 128 + b % 128) rest (fun x hx => hh x (by simp [hx])) hl
    simp only [List.cons_append, readVlqAcc, hb, if_false, List.map_cons, be128]
    simpa using ih

/-- `decode_variable_int`, as translated from the source, on the bytes of a variable-length quantity (continuation
    bytes 128..255, then one byte below 128): the value the model's `readVlq` reads from them -/
theorem src_decode_variable_int (hi : List Nat) (last : Nat) (hh : ∀ b ∈ hi, 128 ≤ b ∧ b < 256) (hl : last < 128) :
    ∃ v, readVlq (hi ++ [last]) = .ok (v, []) ∧
      Src.decode_variable_int (natsToInts (hi ++ [last])) = .ok (v : Int) := by
  refine ⟨be128 0 (hi.map (· % 128) ++ [last]), ?_, ?_⟩
  · have := readVlqAcc_shape hi last 0 [] (fun b hb => (hh b hb).1) hl
    simpa [readVlq] using this
  · unfold Src.decode_variable_int
    simp only [bind, Except.bind, pure, Except.pure]
    have hr : rangeInt (len (natsToInts (hi ++ [last])) - 1)
        = (List.range' 0 ((hi ++ [last]).length - 1)).map Int.ofNat := by
      simp only [rangeInt, len, natsToInts, List.length_map, List.range_eq_range']
      congr 2
      simp
    have hlo := fun F hF => src_vlq_lo_loop F hF (hi ++ [last]) []
    simp only [List.length_nil, List.nil_append] at hlo
    rw [hr]
    simp only [natsToInts]
    rw [hlo]
    case hF => intro i s; rfl
    simp only []
    have hmask : loAllButLast (hi ++ [last]) = hi.map (· % 128) ++ [last] := by
      rw [loAllButLast_snoc]
      congr 1
      apply List.map_congr_left
      intro b hb
      exact ldiff_128 b (hh b hb).2 (hh b hb).1
    rw [hmask]
    have hfold := fun F hF => src_vlq_fold F hF (hi.map (· % 128) ++ [last]) 0 (by
      intro b hb
      simp only [List.mem_append, List.mem_map, List.mem_singleton] at hb
      rcases hb with ⟨x, _, rfl⟩ | rfl
      · omega
      · exact hl)
    have z : ((0 : Nat) : Int) = 0 := rfl
    rw [z] at hfold
    rw [hfold]
    case hF => intro i s; rfl

end Mido
