import MidoModel.PySem
/-!
  Python operators on non-negative ints are the `Nat` operators of the model
  (used by the source-tie theorems).
-/
namespace Mido.Py

@[simp] theorem lor_ofNat (a b : Nat) : lor (a : Int) (b : Int) = ((a ||| b : Nat) : Int) := rfl
@[simp] theorem land_ofNat (a b : Nat) : land (a : Int) (b : Int) = ((a &&& b : Nat) : Int) := rfl
@[simp] theorem shrN_ofNat (a k : Nat) : shrN (a : Int) k = ((a >>> k : Nat) : Int) := rfl
@[simp] theorem shlN_ofNat (a k : Nat) : shlN (a : Int) k = ((a <<< k : Nat) : Int) := by
  simp [shlN, Nat.shiftLeft_eq]

@[simp] theorem lor_lit_left (a b : Nat) : lor (no_index (OfNat.ofNat a)) (b : Int) = ((a ||| b : Nat) : Int) := rfl
@[simp] theorem lor_lit_right (a b : Nat) : lor (a : Int) (no_index (OfNat.ofNat b)) = ((a ||| b : Nat) : Int) := rfl
@[simp] theorem land_lit_left (a b : Nat) : land (no_index (OfNat.ofNat a)) (b : Int) = ((a &&& b : Nat) : Int) := rfl
@[simp] theorem land_lit_right (a b : Nat) : land (a : Int) (no_index (OfNat.ofNat b)) = ((a &&& b : Nat) : Int) := rfl
@[simp] theorem lor_shift (a b k : Nat) : lor (a : Int) ((b : Int) <<< k) = ((a ||| b <<< k : Nat) : Int) := by
  rw [← Int.natCast_shiftLeft]; rfl
@[simp] theorem lor_shift_left (a b k : Nat) : lor ((a : Int) <<< k) (b : Int) = ((a <<< k ||| b : Nat) : Int) := by
  rw [← Int.natCast_shiftLeft]; rfl

@[simp] theorem idx_zero {α} (x : α) (xs : List α) : idx (x :: xs) 0 = .ok x := by simp [idx]
@[simp] theorem idx_one {α} (x y : α) (xs : List α) : idx (x :: y :: xs) 1 = .ok y := by simp [idx]
@[simp] theorem idx_two {α} (x y z : α) (xs : List α) : idx (x :: y :: z :: xs) 2 = .ok z := by simp [idx]
@[simp] theorem idx_three {α} (x y z w : α) (xs : List α) : idx (x :: y :: z :: w :: xs) 3 = .ok w := by
  simp [idx]
@[simp] theorem idx_nil {α} (i : Int) : idx ([] : List α) i = .error .IndexError := by
  unfold idx; simp
theorem idx_one_single {α} (x : α) : idx [x] 1 = .error .IndexError := by simp [idx]

end Mido.Py
