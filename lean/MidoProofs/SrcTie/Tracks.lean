import MidoModel.Tracks
import MidoModel.Generated.SrcTracks
import MidoProofs.SrcTie.Basic
set_option linter.unusedSimpArgs false
/-!
  Source tie, tracks: `_to_abstime`, `_to_reltime`, `fix_end_of_track` and `merge_tracks` as translated from
  the text of `mido/midifiles/tracks.py` (generators become lists, `msg.copy(time=…)` a record update,
  `list.sort(key=time)` a stable merge sort) compute the model's `toAbs`, `toRel`, `fixEOT`, `mergeTracks`
  on which C12, C16 and the end_of_track clauses of C07 are proved.
-/
namespace Mido
open Mido.Py

/-- a model event as the translator's message record (Python ints are `Int`) -/
def TEv.toSrc (e : TEv) : TMsg :=
  { id := e.id, eot := e.eot, time := e.time, isMeta := e.eot, bytes := if e.eot then .ok [255, 47, 0] else .ok [] }

/-! ### `_to_abstime` -/

theorem src_abs_loop (F : TMsg → List TMsg × Int → Except Err (ForInStep (List TMsg × Int)))
    (hF : ∀ msg s, F msg s = .ok (.yield (s.1 ++ [{ msg with time := s.2 + msg.time }], s.2 + msg.time))) :
    ∀ (es : List TEv) (out : List TMsg) (now : Nat),
      forIn (es.map TEv.toSrc) (out, (now : Int)) F
        = .ok (out ++ (absFrom now es).map TEv.toSrc, ((totalFrom now es : Nat) : Int))
  | [], out, now => by simp [absFrom, totalFrom, pure, Except.pure]
  | e :: es, out, now => by
    have h := src_abs_loop F hF es (out ++ [TEv.toSrc { e with time := now + e.time }]) (now + e.time)
    rw [List.map_cons, List.forIn_cons, hF]
    simp only [bind, Except.bind, TEv.toSrc, absFrom, totalFrom, List.foldl_cons, List.map_cons, List.append_assoc,
      List.singleton_append] at h ⊢
    have e1 : ((now : Int) + (e.time : Int)) = ((now + e.time : Nat) : Int) := by omega
    rw [e1]
    exact h

theorem src_to_abstime (es : List TEv) :
    Src._to_abstime (es.map TEv.toSrc) = .ok ((toAbs es).map TEv.toSrc) := by
  simp only [Src._to_abstime, bind, Except.bind, pure, Except.pure]
  have h := fun F hF => src_abs_loop F hF es [] 0
  have z : ((0 : Nat) : Int) = 0 := rfl
  rw [z] at h
  rw [h]
  · simp [toAbs]
  · intro msg s; rfl

/-! ### `fix_end_of_track` -/

theorem src_fix_loop (F : TMsg → List TMsg × Int → Except Err (ForInStep (List TMsg × Int)))
    (hF : ∀ msg s, F msg s =
      if msg.eot = true then .ok (.yield (s.1, s.2 + msg.time))
      else if (s.2 != 0) = true then .ok (.yield (s.1 ++ [{ msg with time := s.2 + msg.time }], 0))
      else .ok (.yield (s.1 ++ [msg], s.2))) :
    ∀ (es : List TEv) (out : List TMsg) (acc : Nat),
      forIn (es.map TEv.toSrc) (out, (acc : Int)) F
        = .ok (out ++ (fixAcc acc es).1.map TEv.toSrc, (((fixAcc acc es).2 : Nat) : Int))
  | [], out, acc => by simp [fixAcc, pure, Except.pure]
  | e :: es, out, acc => by
    rw [List.map_cons, List.forIn_cons, hF]
    by_cases he : e.eot = true
    · have h := src_fix_loop F hF es out (acc + e.time)
      have e1 : ((acc : Int) + (e.time : Int)) = ((acc + e.time : Nat) : Int) := by omega
      simp only [TEv.toSrc, he, if_true, bind, Except.bind, fixAcc, e1] at h ⊢
      exact h
    · have he' : e.eot = false := by simpa using he
      by_cases ha : acc = 0
      · subst ha
        have h := src_fix_loop F hF es (out ++ [TEv.toSrc e]) 0
        simp [TEv.toSrc, he', bind, Except.bind, fixAcc] at h ⊢
        exact h
      · have ha' : ((acc : Int) != 0) = true := by simp; omega
        have h := src_fix_loop F hF es (out ++ [TEv.toSrc { e with time := acc + e.time }]) 0
        have e1 : ((acc : Int) + (e.time : Int)) = ((acc + e.time : Nat) : Int) := by omega
        simp only [TEv.toSrc, he', ha', ha, if_true, bind, Except.bind, fixAcc, e1, Bool.false_eq_true, if_false,
          ne_eq, not_false_eq_true, List.map_cons, List.append_assoc, List.singleton_append] at h ⊢
        have z : ((0 : Nat) : Int) = 0 := rfl
        rw [z] at h
        exact h

theorem src_fix_end_of_track (es : List TEv) :
    Src.fix_end_of_track (es.map TEv.toSrc) = .ok ((fixEOT es).map TEv.toSrc) := by
  simp only [Src.fix_end_of_track, bind, Except.bind, pure, Except.pure]
  have h := fun F hF => src_fix_loop F hF es [] 0
  have z : ((0 : Nat) : Int) = 0 := rfl
  rw [z] at h
  rw [h]
  · simp [fixEOT, TEv.toSrc, eotId]
  · intro msg s; rfl

/-! ### `_to_reltime` (on a list whose times do not decrease, which is where `merge_tracks` uses it) -/

/-- times do not decrease, starting from `now` -/
def chainLe : Nat → List TEv → Prop
  | _, [] => True
  | now, e :: es => now ≤ e.time ∧ chainLe e.time es

/-- the time of the last event (what `now` is when the loop ends) -/
def lastTime : Nat → List TEv → Nat
  | now, [] => now
  | _, e :: es => lastTime e.time es

theorem src_rel_loop (F : TMsg → List TMsg × Int → Except Err (ForInStep (List TMsg × Int)))
    (hF : ∀ msg s, F msg s = .ok (.yield (s.1 ++ [{ msg with time := msg.time - s.2 }], msg.time))) :
    ∀ (es : List TEv) (out : List TMsg) (now : Nat), chainLe now es →
      forIn (es.map TEv.toSrc) (out, (now : Int)) F
        = .ok (out ++ (relFrom now es).map TEv.toSrc, ((lastTime now es : Nat) : Int))
  | [], out, now, _ => by simp [relFrom, lastTime, pure, Except.pure]
  | e :: es, out, now, hc => by
    have h := src_rel_loop F hF es (out ++ [TEv.toSrc { e with time := e.time - now }]) e.time hc.2
    rw [List.map_cons, List.forIn_cons, hF]
    have e1 : ((e.time : Int) - (now : Int)) = ((e.time - now : Nat) : Int) := by have := hc.1; omega
    simp only [bind, Except.bind, TEv.toSrc, relFrom, lastTime, List.map_cons, List.append_assoc,
      List.singleton_append, e1] at h ⊢
    exact h

theorem src_to_reltime (es : List TEv) (hc : chainLe 0 es) :
    Src._to_reltime (es.map TEv.toSrc) = .ok ((toRel es).map TEv.toSrc) := by
  simp only [Src._to_reltime, bind, Except.bind, pure, Except.pure]
  have h := fun F hF => src_rel_loop F hF es [] 0 hc
  have z : ((0 : Nat) : Int) = 0 := rfl
  rw [z] at h
  rw [h]
  · simp [toRel]
  · intro msg s; rfl

/-- on a list that is NOT sorted the Python code produces a negative delta where the model (natural numbers)
    truncates: the hypothesis of `src_to_reltime` is necessary, and `merge_tracks` always meets it -/
example : Src._to_reltime [{ id := 1, eot := false, time := 5 }, { id := 2, eot := false, time := 3 }]
    = .ok [{ id := 1, eot := false, time := 5 }, { id := 2, eot := false, time := -2 }] := by decide

/-! ### `merge_tracks` -/

theorem chainLe_of_pairwise : ∀ (es : List TEv) (now : Nat),
    (∀ e ∈ es, now ≤ e.time) → es.Pairwise (fun a b => leTime a b = true) → chainLe now es
  | [], _, _, _ => trivial
  | e :: es, now, h0, hp => by
    have hp' := List.pairwise_cons.mp hp
    refine ⟨h0 e (by simp), chainLe_of_pairwise es e.time ?_ hp'.2⟩
    intro x hx
    have := hp'.1 x hx
    simpa [leTime] using this

theorem src_merge_loop (F : List TMsg → List TMsg → Except Err (ForInStep (List TMsg)))
    (hF : ∀ track s, F track s = (do let v ← Src._to_abstime track; pure (ForInStep.yield (s ++ v)))) :
    ∀ (ts : List (List TEv)) (acc : List TMsg),
      forIn (ts.map (·.map TEv.toSrc)) acc F = .ok (acc ++ (ts.flatMap toAbs).map TEv.toSrc)
  | [], acc => by simp [pure, Except.pure]
  | t :: ts, acc => by
    have h := src_merge_loop F hF ts (acc ++ (toAbs t).map TEv.toSrc)
    rw [List.map_cons, List.forIn_cons, hF, src_to_abstime]
    simp only [bind, Except.bind, pure, Except.pure, List.flatMap_cons, List.map_append, List.append_assoc] at h ⊢
    exact h

theorem src_sortByTime (es : List TEv) :
    sortByTime (es.map TEv.toSrc) = (es.mergeSort leTime).map TEv.toSrc := by
  unfold sortByTime
  rw [← List.map_mergeSort]
  intro a _ b _
  simp [leTime, TEv.toSrc]

/-- `merge_tracks`, as translated from the source, is the model's `mergeTracks` on every list of tracks -/
theorem src_merge_tracks (ts : List (List TEv)) :
    Src.merge_tracks (ts.map (·.map TEv.toSrc)) = .ok ((mergeTracks ts).map TEv.toSrc) := by
  simp only [Src.merge_tracks, bind, Except.bind, pure, Except.pure]
  have h := fun F hF => src_merge_loop F hF ts []
  rw [h]
  · have hsorted : chainLe 0 ((ts.flatMap toAbs).mergeSort leTime) := by
      apply chainLe_of_pairwise
      · intro e _; omega
      · apply List.pairwise_mergeSort
        · intro a b c h1 h2; simp [leTime] at *; omega
        · intro a b; simp [leTime]; omega
    simp only [List.nil_append, src_sortByTime, src_to_reltime _ hsorted, src_fix_end_of_track, mergeTracks]
  · intro track s; rfl

end Mido
