/-
  The writer tie, the reader tie and the C07 theorem composed: the save/load round trip stated about the functions
  translated from the source text.
-/
import MidoProofs.SrcTie.Writer
import MidoProofs.SrcTie.Reader
import MidoProofs.Props.C07
set_option linter.unusedSimpArgs false
namespace Mido
open Mido.Py

theorem writeTracks_ok (cs : Charset) : ∀ (trs : List (List TEvent)) (b : List Nat), writeTracks cs trs = .ok b →
    ∀ tr ∈ trs, ∃ c, writeTrack cs tr = .ok c
  | [], _, _ => by simp
  | t :: ts, b, h => by
    simp only [writeTracks, bind, Except.bind] at h
    cases ht : writeTrack cs t with
    | error e => rw [ht] at h; cases h
    | ok a =>
      rw [ht] at h
      cases hts : writeTracks cs ts with
      | error e => rw [hts] at h; cases h
      | ok r =>
        intro tr htr
        simp only [List.mem_cons] at htr
        rcases htr with rfl | htr
        · exact ⟨a, ht⟩
        · exact writeTracks_ok cs ts r hts tr htr

theorem writeFile_tracks_ok (cs : Charset) (f : MFile) (bytes : List Nat) (hw : writeFile cs f = .ok bytes) :
    ∀ tr ∈ f.tracks, ∃ c, writeTrack cs tr = .ok c := by
  unfold writeFile at hw
  split at hw
  · cases hw
  · simp only [bind, Except.bind] at hw
    cases ha : i16be f.type with
    | error e => rw [ha] at hw; cases hw
    | ok a =>
      rw [ha] at hw
      cases hb : i16be f.tracks.length with
      | error e => simp [hb] at hw
      | ok b =>
        simp only [hb] at hw
        cases hc : i16be f.tpb with
        | error e => simp [hc] at hw
        | ok c =>
          simp only [hc] at hw
          cases hd : writeTracks cs f.tracks with
          | error e => simp [hd] at hw
          | ok d => exact writeTracks_ok cs f.tracks d hd

theorem tracksFit_of_storable (cs : Charset) (f : MFile) (hs : StorableFile cs f) (bytes : List Nat)
    (hw : writeFile cs f = .ok bytes) : tracksFit cs f.tracks := by
  intro tr htr fixed body hfix hbody
  obtain ⟨c, hc⟩ := writeFile_tracks_ok cs f bytes hw tr htr
  have hlen := hs.chunk tr htr c hc
  simp only [writeTrack, bind, Except.bind] at hc
  split at hc
  · cases hc
  · simp only [hfix, hbody, pure, Except.pure] at hc
    cases hc
    simp only [List.length_append] at hlen
    omega

/-- **C07 at the level of the source text.**  For every storable file whose save succeeds, the translated
    `MidiFile.save` writes some bytes, and the translated `MidiFile._load` (clip off), run on exactly those bytes, gives
    back the type, the ticks per beat and per track the events of `fix_end_of_track(track)` -/
theorem src_save_load (cs : Charset) (f : MFile) (hs : StorableFile cs f) (bytes : List Nat)
    (hw : writeFile cs f = .ok bytes) (ty0 tpb0 : Int) :
    Src.MidiFile.save f.type (f.tracks.map (·.map (TEvent.toW cs))) f.tpb [] = .ok ((), natsToInts bytes) ∧
    (Src.MidiFile._load (modelExt cs) ty0 tpb0 [] false (mkFile bytes 0)).map
        (fun r => (r.1, r.2.1, r.2.2.1)) = .ok (f.type, f.tpb, f.tracks.map normTrack) := by
  constructor
  · have := src_save cs [] f (tracksFit_of_storable cs f hs bytes hw)
    rw [hw] at this
    simpa using this
  · have hl := src_load cs false bytes ty0 tpb0 []
    rw [C07_roundtrip cs f hs bytes hw] at hl
    cases hx : Src.MidiFile._load (modelExt cs) ty0 tpb0 [] false (mkFile bytes 0) with
    | error e => rw [hx] at hl; cases hl
    | ok r =>
      rw [hx] at hl
      simp only [Except.map, List.nil_append] at hl ⊢
      injection hl with hl
      simp only [Prod.mk.injEq] at hl
      simp [hl.1, hl.2.1, hl.2.2.1]
end Mido
