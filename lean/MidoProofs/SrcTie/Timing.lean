/-
  Source tie for `MidiFile.__iter__` of mido/midifiles/midifiles.py: the tempo bookkeeping of playback, translated from the
  source text with the float function `tick2second` as a parameter (instantiated by the exact product ticks * tempo, the
  model's micro-tick unit), against the model's `iterMicro`; and C13's integral theorem restated about it.
-/
import MidoModel.Generated.SrcTiming
import MidoModel.Tempo
import MidoProofs.Props.C13
set_option linter.unusedSimpArgs false
namespace Mido
open Mido.Py

/-- an event of the merged track as the translated `__iter__` sees it -/
def PEv.toMsg (e : PEv) : TMsg :=
  { id := 0, eot := false, time := e.delta, isMeta := e.isMeta, isSetTempo := e.tempo.isSome, tempo := (e.tempo.getD 0 : Nat) }

/-- `tick2second` in the model's unit (micro-ticks: one exact division by 10^6 · ticks_per_beat away from seconds) -/
def microT2S (ticks _tpb tempo : Int) : Int := ticks * tempo

/-- the value the local variable `delta` is left with -/
def lastDelta : List PEv → Int → Nat → Int
  | [], d, _ => d
  | e :: es, _, tempo => lastDelta es (if e.delta > 0 then ((e.delta * tempo : Nat) : Int) else 0) (e.tempo.getD tempo)

def outOf (es : List PEv) (tempo : Nat) : List TMsg :=
  List.zipWith (fun (e : PEv) (t : Nat) => { e.toMsg with time := (t : Int) }) es (iterMicro tempo es)

theorem src_iter_loop (tpb : Int) (F : TMsg → (List TMsg × Int × Int) → Except Err (ForInStep (List TMsg × Int × Int)))
    (hF : ∀ msg s, F msg s = .ok (.yield (s.1 ++ [{ msg with time := if msg.time > 0 then microT2S msg.time tpb s.2.2 else 0 }],
        (if msg.time > 0 then microT2S msg.time tpb s.2.2 else 0), (if msg.isSetTempo then msg.tempo else s.2.2)))) :
    ∀ (es : List PEv) (out : List TMsg) (d : Int) (tempo : Nat),
      forIn (es.map PEv.toMsg) ((out, d, (tempo : Int)) : List TMsg × Int × Int) F =
        .ok (out ++ outOf es tempo, lastDelta es d tempo, ((es.foldl (fun t e => e.tempo.getD t) tempo : Nat) : Int))
  | [], out, d, tempo => by simp [pure, Except.pure, iterMicro, outOf, lastDelta]
  | e :: es, out, d, tempo => by
    have hdelta : (if e.toMsg.time > 0 then microT2S e.toMsg.time tpb tempo else 0) =
        (if e.delta > 0 then ((e.delta * tempo : Nat) : Int) else 0) := by
      simp only [PEv.toMsg, microT2S]
      by_cases hd : e.delta > 0
      · have : ((e.delta : Int) > 0) := by omega
        simp [hd, this]
      · have : ¬ ((e.delta : Int) > 0) := by omega
        simp [hd, this]
    have ht : (if e.toMsg.isSetTempo = true then e.toMsg.tempo else (tempo : Int)) = ((e.tempo.getD tempo : Nat) : Int) := by
      cases h : e.tempo <;> simp [PEv.toMsg, h]
    have ih := src_iter_loop tpb F hF es
      (out ++ [{ e.toMsg with time := if e.delta > 0 then ((e.delta * tempo : Nat) : Int) else 0 }])
      (if e.delta > 0 then ((e.delta * tempo : Nat) : Int) else 0) (e.tempo.getD tempo)
    simp only [List.map_cons, List.forIn_cons, hF, bind, Except.bind, hdelta, ht, ih]
    simp only [iterMicro, outOf, List.zipWith_cons_cons, List.foldl_cons, List.append_assoc, List.singleton_append, lastDelta]
    congr 3
    by_cases hd : e.delta > 0 <;> simp [hd]

/-- **`MidiFile.__iter__`** of the source, with `tick2second` a parameter: every message of the merged track is handed out
    with the time `tick2second(delta, ticks_per_beat, tempo in force)` (0 for a delta of 0), the tempo switching AFTER the
    `set_tempo` message has been handed out and starting from 500000 — the model's `iterMicro` -/
theorem src_iter (es : List PEv) (tpb : Int) :
    Src.MidiFile.iter (es.map PEv.toMsg) tpb microT2S = .ok (outOf es defaultTempo) := by
  unfold Src.MidiFile.iter
  simp only [bind, Except.bind, pure, Except.pure]
  have hl := fun F hF => src_iter_loop tpb F hF es [] default defaultTempo
  simp only [defaultTempo] at hl
  have e5 : ((500000 : Nat) : Int) = 500000 := rfl
  rw [e5] at hl
  rw [hl]
  · simp [defaultTempo]
  · intro msg s
    obtain ⟨o, d, t⟩ := s
    by_cases h1 : msg.time > 0 <;> by_cases h2 : msg.isSetTempo = true <;> simp [h1, h2, pure, Except.pure, bind, Except.bind]

theorem outOf_times : ∀ (es : List PEv) (tempo : Nat),
    (outOf es tempo).map (·.time) = (iterMicro tempo es).map (fun (t : Nat) => (t : Int))
  | [], _ => rfl
  | e :: es, tempo => by
    have ih := outOf_times es (e.tempo.getD tempo)
    simp only [outOf, iterMicro, List.zipWith_cons_cons, List.map_cons] at ih ⊢
    rw [ih]

/-- **C13 at the level of the source text**: the times the translated `__iter__` attaches to the messages are the model's,
    so the cumulative time of the first k messages is the integral of the tempo map over the ticks they cover, and the sum of
    all of them (`length`) is the integral over the whole piece -/
theorem src_iter_integral (es : List PEv) (tpb : Int) (k : Nat) :
    ∃ out, Src.MidiFile.iter (es.map PEv.toMsg) tpb microT2S = .ok out ∧
      out.map (·.time) = (iterMicro defaultTempo es).map (fun (t : Nat) => (t : Int)) ∧
      sumList ((iterMicro defaultTempo es).take k) = integral defaultTempo (absTicks 0 es) 0 (totalDelta (es.take k)) ∧
      lengthMicro es = integral defaultTempo (absTicks 0 es) 0 (totalDelta es) :=
  ⟨_, src_iter es tpb, outOf_times es defaultTempo, C13_integral es k, C13_length es⟩

example : (Src.MidiFile.iter ([⟨10, none, false⟩, ⟨0, some 250000, true⟩, ⟨4, none, false⟩].map PEv.toMsg) 480 microT2S).map
    (fun out => out.map (·.time)) = .ok [5000000, 0, 1000000] := by decide +kernel

/-! ### `MidiFile.length` -/

theorem foldl_time_map (l : List TMsg) (a : Int) :
    List.foldl (fun acc msg => acc + msg.time) a l = List.foldl (· + ·) a (l.map (·.time)) := by
  induction l generalizing a with
  | nil => rfl
  | cons x r ih => simp only [List.foldl_cons, List.map_cons]; exact ih _

theorem foldl_cast (l : List Nat) (a : Nat) :
    List.foldl (· + ·) (a : Int) (l.map (fun (t : Nat) => (t : Int))) = ((List.foldl (· + ·) a l : Nat) : Int) := by
  induction l generalizing a with
  | nil => rfl
  | cons x r ih => simp only [List.foldl_cons, List.map_cons]; rw [← ih]; first | rfl | (congr 1; omega) | (congr 1)

/-- **`MidiFile.length`** of the source (a property: the type-2 refusal comes first, then the file's own translated
    `__iter__` is run to its end and the times are added from 0), with the float arithmetic of `tick2second` replaced by the
    model's exact unit: the model's `lengthFile` -/
theorem src_length (ty : Nat) (es : List PEv) (tpb : Int) :
    Src.MidiFile.length (ty : Int) (es.map PEv.toMsg) tpb microT2S = (lengthFile ty es).map (fun (n : Nat) => (n : Int)) := by
  unfold Src.MidiFile.length lengthFile
  by_cases h : ty = 2
  · subst h; rfl
  · have h' : ¬ ((ty : Int) = 2) := by omega
    simp only [beq_iff_eq, h, h', if_false, bind, Except.bind, pure, Except.pure, src_iter, Except.map]
    rw [foldl_time_map, outOf_times]
    have := foldl_cast (iterMicro defaultTempo es) 0
    simp only [Int.natCast_zero] at this
    rw [lengthMicro]
    exact congrArg Except.ok this

/-- C13 (length) about the translated property: refused with ValueError for a type-2 file, otherwise the integral of the
    tempo map over the whole file -/
theorem src_length_integral (ty : Nat) (es : List PEv) (tpb : Int) (h : ty ≠ 2) :
    Src.MidiFile.length (ty : Int) (es.map PEv.toMsg) tpb microT2S =
      .ok ((integral defaultTempo (absTicks 0 es) 0 (totalDelta es) : Nat) : Int) ∧
    Src.MidiFile.length 2 (es.map PEv.toMsg) tpb microT2S = .error .ValueError := by
  constructor
  · rw [src_length, lengthFile, if_neg h, C13_length]; rfl
  · exact src_length 2 es tpb

example : Src.MidiFile.length 1 ([⟨10, none, false⟩, ⟨0, some 250000, true⟩, ⟨4, none, false⟩].map PEv.toMsg) 480 microT2S = .ok 6000000 := by
  decide +kernel

end Mido
