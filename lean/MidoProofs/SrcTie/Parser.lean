/-
  Source tie for mido/parser.py: the Parser class (a Tokenizer held in a field, the decode loop over the tokenizer's
  generator, `get_message` as `for … else` over the parser's own generator), translated from the source text, against
  the model's `PState` operations.
-/
import MidoModel.Generated.SrcParser
import MidoProofs.SrcTie.Tok
set_option linter.unusedSimpArgs false
namespace Mido
open Mido.Py

/-- `Message.from_bytes` as the parser calls it: the model's decoder (tied to the source text by
    `src_decode_message`, C01/C02) -/
def parserExt : ReaderExt Msg :=
  { fromBytes := fun bs _ => decodeInts bs, mkSysex := fun _ _ => .error .Other, buildMeta := fun _ _ _ => .error .Other,
    isSysex := fun m => match m with | .sysex _ => true | _ => false,
    bin := fun m => .ok ((encode m).map Int.ofNat),
    hex := fun m => .ok ((toHex (encode m)).map (fun c => (c.toNat : Int))) }

def PState.toSrc (p : PState) : Src.Parser Msg := { messages := p.queue, _tok := p.tok.toSrc }

@[simp] theorem parserExt_fromBytes (bs : List Int) (t : Int) : parserExt.fromBytes bs t = decodeInts bs := rfl

theorem decodeInts_ofNat (t : List Nat) : decodeInts (t.map Int.ofNat) = decodeNats t := by
  simp [decodeInts, decodeNats, List.map_map]; rfl

/-- the decode loop: every token is popped and decoded in order; the first failing one raises -/
theorem src_parser_loop (toks : List (List Nat)) (fuel : Nat) (hf : toks.length < fuel) (q : List Msg) (t : Tok) :
    Src.Parser._decode.loop1 parserExt fuel { messages := q, _tok := ({ t with out := toks } : Tok).toSrc } =
      match decodeTokens toks with
      | .ok ms => .ok { messages := q ++ ms, _tok := ({ t with out := [] } : Tok).toSrc }
      | .error e => .error e := by
  induction toks generalizing fuel q with
  | nil =>
    cases fuel with
    | zero => omega
    | succ f => simp [Src.Parser._decode.loop1, Tok.toSrc, len, decodeTokens, pure, Except.pure]
  | cons tk rest ih =>
    cases fuel with
    | zero => simp at hf
    | succ f =>
      have hf' : rest.length < f := by simpa using hf
      have := ih f hf'
      simp only [Src.Parser._decode.loop1, Tok.toSrc, len, List.map_cons, List.length_cons, decodeTokens]
      have hne : ¬ ((rest.length : Int) + 1 = 0) := by omega
      simp [bind, Except.bind, decodeInts_ofNat, pure, Except.pure, hne]
      cases hd : decodeNats tk with
      | error e => simp [hd]
      | ok m =>
        simp only [hd]
        have := ih f hf' (q ++ [m])
        simp only [Tok.toSrc] at this
        rw [this]
        cases decodeTokens rest <;> simp
/-- `Parser._decode` is the model's `decodeAll` -/
theorem src_parser_decode (p : PState) :
    Src.Parser._decode parserExt p.toSrc =
      match p.decodeAll with
      | (p', none) => .ok p'.toSrc
      | (_, some e) => .error e := by
  have h := src_parser_loop p.tok.out (p.tok.out.length + 1) (by omega) p.queue p.tok
  simp only [Src.Parser._decode, PState.toSrc, PState.decodeAll, bind, Except.bind, pure, Except.pure]
  have e1 : (Tok.toSrc p.tok)._messages.length = p.tok.out.length := by simp [Tok.toSrc]
  rw [e1]
  have e2 : ({ p.tok with out := p.tok.out } : Tok) = p.tok := rfl
  rw [e2] at h
  rw [h]
  cases decodeTokens p.tok.out <;> rfl

/-- `Parser.feed(data)` is the model's `feed` operation: the state afterwards and what is raised -/
theorem src_parser_feed (p : PState) (bs : List Int) :
    Src.Parser.feed parserExt p.toSrc bs =
      match p.feedOp bs with
      | (p', .raised e) => .error e
      | (p', _) => .ok p'.toSrc := by
  have hf := src_feed p.tok bs
  simp only [Src.Parser.feed, PState.feedOp, bind, Except.bind, pure, Except.pure]
  have : (PState.toSrc p)._tok = p.tok.toSrc := rfl
  rw [this, hf]
  cases hfc : feedChecked p.tok bs with
  | mk t' eo =>
    cases eo with
    | some e => rfl
    | none =>
      simp only []
      have hd := src_parser_decode { p with tok := t' }
      have e3 : ({ (PState.toSrc p) with _tok := t'.toSrc } : Src.Parser Msg) = PState.toSrc { p with tok := t' } := rfl
      rw [e3, hd]
      cases hda : PState.decodeAll { p with tok := t' } with
      | mk p2 e2 => cases e2 <;> rfl

theorem src_parser_feed_byte (p : PState) (b : Int) :
    Src.Parser.feed_byte parserExt p.toSrc b =
      match p.feedOp [b] with
      | (p', .raised e) => .error e
      | (p', _) => .ok p'.toSrc := by
  have hf := src_feed_byte p.tok b
  simp only [Src.Parser.feed_byte, PState.feedOp, bind, Except.bind, pure, Except.pure, feedChecked]
  have : (PState.toSrc p)._tok = p.tok.toSrc := rfl
  rw [this, hf]
  cases hfc : p.tok.feedByteChecked b with
  | error e => rfl
  | ok t' =>
    simp only [Except.map]
    have hd := src_parser_decode { p with tok := t' }
    have e3 : ({ (PState.toSrc p) with _tok := t'.toSrc } : Src.Parser Msg) = PState.toSrc { p with tok := t' } := rfl
    rw [e3, hd]
    cases hda : PState.decodeAll { p with tok := t' } with
    | mk p2 e2 => cases e2 <;> rfl

/-- `Parser.get_message()` (a `for … else` over the parser's own generator) is the model's `get` -/
theorem src_parser_get (p : PState) :
    Src.Parser.get_message parserExt p.toSrc =
      match pstep p .get with
      | (p', .msg m) => .ok (some m, p'.toSrc)
      | (p', _) => .ok (none, p'.toSrc) := by
  cases hq : p.queue with
  | nil => simp [Src.Parser.get_message, Src.Parser.get_message.loop1, PState.toSrc, pstep, hq, len, bind, Except.bind,
      pure, Except.pure]
  | cons m q =>
    have hne : ¬ ((q.length : Int) + 1 ≤ 0) := by omega
    simp [Src.Parser.get_message, Src.Parser.get_message.loop1, PState.toSrc, pstep, hq, len, bind, Except.bind,
      pure, Except.pure, hne]

/-- `Parser.pending()` / `len(parser)` -/
theorem src_parser_pending (p : PState) :
    Src.Parser.pending parserExt p.toSrc = .ok ((p.queue.length : Int), p.toSrc) := by
  simp [Src.Parser.pending, PState.toSrc, len, pure, Except.pure]

/-! non-vacuity -/
example : (Src.Parser.feed parserExt ({} : PState).toSrc [0x90, 60, 100, 0xF8, 0x91, 61]).map (fun p => (p.messages, p._tok._bytes)) =
    .ok ([.chan3 .note_on 0 60 100, .sys1 .clock], [0x91, 61]) := by decide +kernel
example : (Src.Parser.feed parserExt ({} : PState).toSrc [0x90, 300]).toOption.isNone = true := by decide +kernel

end Mido
