/-
  Source tie for mido/syx.py: `read_syx_file` (on the contents of the file: binary or hex text, the Parser, the filter for
  sysex messages), translated from the source text, against the model's `readSyx`.
-/
import MidoModel.Generated.SrcSyx
import MidoModel.Syx
import MidoProofs.SrcTie.Parser
import MidoProofs.SrcTie.Codec
import MidoProofs.Props.C05
import MidoProofs.Props.C19
set_option linter.unusedSimpArgs false
namespace Mido
open Mido.Py

theorem hex_table : ∀ a < 256, hexVal (Char.ofNat a) = (hexDigitVal (Int.ofNat a)).map Int.toNat := by decide +kernel
theorem ws_table : ∀ a < 256, isReWs (Int.ofNat a) = isWsCode a ∧ (isAsciiWs (Int.ofNat a) = true → isReWs (Int.ofNat a) = true) ∧
    (isWsCode a = false → Char.ofNat a ≠ ' ') := by decide +kernel


theorem hexDigitVal_range (c x : Int) (h : hexDigitVal c = some x) : 0 ≤ x ∧ x ≤ 15 := by
  simp only [hexDigitVal] at h
  split at h
  · cases h; omega
  · split at h
    · cases h; omega
    · split at h
      · cases h; omega
      · cases h

theorem fromHex_space (rest : List Char) : fromHex (' ' :: rest) = fromHex rest := by simp [fromHex]
theorem fromHex_single (c : Char) (h : c ≠ ' ') : fromHex [c] = .error .ValueError := by
  unfold fromHex; split <;> simp_all
theorem fromHex_pair (c d : Char) (rest : List Char) (h : c ≠ ' ') :
    fromHex (c :: d :: rest) = match hexVal c, hexVal d with
      | some x, some y => (fromHex rest).map ((16 * x + y) :: ·)
      | _, _ => .error .ValueError := by
  conv => lhs; unfold fromHex
  split <;> simp_all <;> rfl

/-- `bytearray.fromhex(re.sub(r'\s', ' ', text))` of the source on latin1 text = the model's `fromHex` on the text with
    every whitespace character turned into a space -/
theorem src_fromhex : ∀ (data : List Nat), (∀ b ∈ data, b < 256) →
    fromhex (subWs (natsToInts data)) = (fromHex (data.map syxChar)).map natsToInts
  | [], _ => rfl
  | a :: tl, h => by
    have ha := h a (by simp)
    have htl : ∀ b ∈ tl, b < 256 := fun b hb => h b (by simp [hb])
    obtain ⟨w1, w2, w3⟩ := ws_table a ha
    simp only [Int.ofNat_eq_natCast] at w1 w2 w3
    by_cases hw : isWsCode a = true
    · have ih := src_fromhex tl htl
      have e1 : subWs (natsToInts (a :: tl)) = 32 :: subWs (natsToInts tl) := by
        simp [subWs, natsToInts, w1, hw]
      have e2 : (a :: tl).map syxChar = ' ' :: tl.map syxChar := by simp [syxChar, hw]
      rw [e1, e2, fromHex_space, ← ih]
      conv => lhs; unfold fromhex
      simp [isAsciiWs]
    · have hw' : isWsCode a = false := by simpa using hw
      have hne := w3 hw'
      have hnws : isAsciiWs (a : Int) = false := by
        cases hx : isAsciiWs (a : Int) with
        | false => rfl
        | true => have := w2 hx; rw [w1, hw'] at this; cases this
      have hsa : syxChar a = Char.ofNat a := by simp [syxChar, hw']
      cases tl with
      | nil =>
        simp [subWs, natsToInts, fromhex, w1, hw', hnws, hsa, fromHex_single _ hne, Except.map]
      | cons b rest =>
        have hb := h b (by simp)
        have hrest : ∀ x ∈ rest, x < 256 := fun x hx => h x (by simp [hx])
        have ih := src_fromhex rest hrest
        obtain ⟨v1, v2, v3⟩ := ws_table b hb
        simp only [Int.ofNat_eq_natCast] at v1 v2 v3
        have hxa := hex_table a ha
        simp only [Int.ofNat_eq_natCast] at hxa
        have e1 : subWs (natsToInts (a :: b :: rest)) = (a : Int) :: (if isWsCode b then 32 else (b : Int)) :: subWs (natsToInts rest) := by
          simp [subWs, natsToInts, w1, hw', v1]
        rw [e1]
        simp only [List.map_cons, hsa, fromHex_pair _ _ _ hne, fromhex, hnws, Bool.false_eq_true, if_false, hxa]
        by_cases hwb : isWsCode b = true
        · have : syxChar b = ' ' := by simp [syxChar, hwb]
          simp only [hwb, if_true, this]
          have h32 : hexDigitVal 32 = none := by decide
          have hsp : hexVal ' ' = none := by decide
          rw [h32, hsp]
          cases hexDigitVal (a : Int) <;> simp [Except.map]
        · have hwb' : isWsCode b = false := by simpa using hwb
          have hsb : syxChar b = Char.ofNat b := by simp [syxChar, hwb']
          have hxb := hex_table b hb
          simp only [Int.ofNat_eq_natCast] at hxb
          simp only [hwb', Bool.false_eq_true, if_false, hsb, hxb, ih]
          cases h1 : hexDigitVal (a : Int) with
          | none => simp [Except.map]
          | some x =>
            cases h2 : hexDigitVal (b : Int) with
            | none => simp [Except.map]
            | some y =>
              simp only [Option.map]
              have r1 := hexDigitVal_range _ _ h1
              have r2 := hexDigitVal_range _ _ h2
              have e : ((16 * x.toNat + y.toNat : Nat) : Int) = 16 * x + y := by omega
              cases fromHex (List.map syxChar rest) with
              | error e => rfl
              | ok v => simp [Except.map, natsToInts, e]
termination_by data => data.length

theorem fromHex_bytes : ∀ (cs : List Char) (bs : List Nat), fromHex cs = .ok bs → ∀ b ∈ bs, b < 256
  | [], bs, h => by simp [fromHex] at h; subst h; simp
  | [c], bs, h => by
    by_cases hc : c = ' '
    · subst hc; rw [fromHex_space] at h; exact fromHex_bytes [] bs h
    · rw [fromHex_single c hc] at h; cases h
  | c :: d :: rest, bs, h => by
    by_cases hc : c = ' '
    · subst hc; rw [fromHex_space] at h; exact fromHex_bytes (d :: rest) bs h
    · rw [fromHex_pair c d rest hc] at h
      cases hx : hexVal c with
      | none => simp [hx] at h
      | some x =>
        cases hy : hexVal d with
        | none => simp [hx, hy] at h
        | some y =>
          simp only [hx, hy] at h
          cases hr : fromHex rest with
          | error e => simp [hr, Except.map] at h
          | ok v =>
            simp only [hr, Except.map, Except.ok.injEq] at h
            subst h
            intro b hb
            simp only [List.mem_cons] at hb
            rcases hb with rfl | hb
            · have hx' : x ≤ 15 := by
                simp only [hexVal] at hx; split at hx
                · cases hx; rename_i h1; have := h1.2; have : c.toNat ≤ 57 := this; omega
                · split at hx
                  · cases hx; rename_i h1; have : c.toNat ≤ 70 := h1.2; omega
                  · split at hx
                    · cases hx; rename_i h1; have : c.toNat ≤ 102 := h1.2; omega
                    · cases hx
              have hy' : y ≤ 15 := by
                simp only [hexVal] at hy; split at hy
                · cases hy; rename_i h1; have : d.toNat ≤ 57 := h1.2; omega
                · split at hy
                  · cases hy; rename_i h1; have : d.toNat ≤ 70 := h1.2; omega
                  · split at hy
                    · cases hy; rename_i h1; have : d.toNat ≤ 102 := h1.2; omega
                    · cases hy
              omega
            · exact fromHex_bytes rest v hr b hb
termination_by cs => cs.length

theorem parserExt_isSysex (m : Msg) : parserExt.isSysex m = m.isSysex := by cases m <;> rfl

/-- draining the parser into the list of its sysex messages -/
theorem src_syx_loop (fb data text : List Int) : ∀ (q : List Msg) (fuel : Nat), q.length < fuel → ∀ (tok : Src.Tokenizer) (acc : List Msg),
    Src.read_syx_file.loop1 parserExt fb data text fuel { messages := q, _tok := tok } acc =
      .ok ({ messages := [], _tok := tok }, acc ++ q.filter Msg.isSysex)
  | [], fuel, hf, tok, acc => by
    cases fuel with
    | zero => simp at hf
    | succ f => simp [Src.read_syx_file.loop1, len, pure, Except.pure]
  | m :: q, fuel, hf, tok, acc => by
    cases fuel with
    | zero => simp at hf
    | succ f =>
      have ih := src_syx_loop fb data text q f (by simpa using hf) tok
      unfold Src.read_syx_file.loop1
      have hpos : (((q.length + 1 : Nat) : Int) > 0) := by omega
      simp only [len, List.length_cons, hpos, decide_true, if_true, bind, Except.bind, idx_zero,
        List.tail_cons, pure, Except.pure, parserExt_isSysex]
      cases hm : m.isSysex <;> simp [hm, ih]

theorem inByte_natsToInts (bs : List Nat) (h : ∀ b ∈ bs, b < 256) : (natsToInts bs).all inByte = true := by
  simp only [natsToInts, List.all_map, List.all_eq_true]
  intro b hb
  have := h b hb
  simp [inByte]; omega

theorem toNat_natsToInts (bs : List Nat) : (natsToInts bs).map Int.toNat = bs := by
  simp only [natsToInts, List.map_map]
  have : (Int.toNat ∘ Int.ofNat) = id := by funext x; simp
  rw [this, List.map_id]

/-- feeding a whole byte string to a fresh translated parser: the queue holds `parseAll` of it -/
theorem src_fresh_feed (bs : List Nat) (h : ∀ b ∈ bs, b < 256) :
    Src.Parser.feed parserExt ({ messages := [], _tok := {} } : Src.Parser Msg) (natsToInts bs) =
      match parseAll bs with
      | .ok ms => .ok { messages := ms, _tok := ({ (Tok.feed {} bs) with out := [] } : Tok).toSrc }
      | .error e => .error e := by
  have hf := src_parser_feed ({} : PState) (natsToInts bs)
  have e0 : (({} : PState).toSrc) = ({ messages := [], _tok := {} } : Src.Parser Msg) := rfl
  rw [e0] at hf
  rw [hf]
  simp only [PState.feedOp, feedChecked_valid _ _ (inByte_natsToInts bs h), toNat_natsToInts, PState.decodeAll]
  have : decodeTokens (Tok.feed {} bs).out = parseAll bs := rfl
  rw [this]
  cases parseAll bs <;> rfl

/-- **`read_syx_file`** of the source, on the contents of the file: the model's `readSyx` -/
theorem src_read_syx (data : List Nat) (h : ∀ b ∈ data, b < 256) :
    Src.read_syx_file parserExt (natsToInts data) = readSyx data := by
  cases data with
  | nil => simp [Src.read_syx_file, readSyx, natsToInts, len, pure, Except.pure]
  | cons first rest =>
    unfold Src.read_syx_file readSyx
    have hlen : ¬ (len (natsToInts (first :: rest)) = 0) := by simp [len, natsToInts]; omega
    have hi : idx (natsToInts (first :: rest)) 0 = .ok (first : Int) := by simp [natsToInts]
    simp only [hlen, bind, Except.bind, pure, Except.pure, hi, beq_iff_eq, if_false, decide_false, Bool.false_eq_true]
    by_cases h240 : first = 240
    · have : ((first : Int) = 240) := by omega
      simp only [this, if_true, h240]
      have hf := src_fresh_feed (240 :: rest) (by subst h240; exact h)
      simp only [hf]
      cases hp : parseAll (240 :: rest) with
      | error e => rfl
      | ok ms =>
        simp only []
        rw [src_syx_loop _ _ _ ms (ms.length + 1) (by omega)]
        simp [Except.map]
    · have : ¬ ((first : Int) = 240) := by omega
      simp only [this, if_false, h240]
      rw [src_fromhex (first :: rest) h]
      cases hx : fromHex ((first :: rest).map syxChar) with
      | error e => rfl
      | ok bs =>
        simp only [Except.map]
        have hb := fromHex_bytes _ _ hx
        simp only [src_fresh_feed bs hb]
        cases hp : parseAll bs with
        | error e => rfl
        | ok ms =>
          simp only []
          rw [src_syx_loop _ _ _ ms (ms.length + 1) (by omega)]
          simp [Except.map]

example : Src.read_syx_file parserExt [0xF0, 1, 2, 0xF7, 0x90, 1, 2, 0xF0, 0xF7] = .ok [.sysex [1, 2], .sysex []] := by
  decide +kernel
example : Src.read_syx_file parserExt ("F0 01\n02\tF7 f8".toList.map (fun c => (c.toNat : Int))) = .ok [.sysex [1, 2]] := by
  decide +kernel
example : Src.read_syx_file parserExt ("F0 1 F7".toList.map (fun c => (c.toNat : Int))) = .error .ValueError := by
  decide +kernel

/-! ### `write_syx_file` -/

theorem src_write_loop (ms : List Msg) (g : Msg → List Int) (F : Msg → List Int → Except Err (ForInStep (List Int)))
    (hF : ∀ m r, F m r = .ok (.yield (r ++ g m))) : ∀ acc : List Int, forIn ms acc F = .ok (acc ++ ms.flatMap g) := by
  induction ms with
  | nil => intro acc; simp [pure, Except.pure]
  | cons m r ih =>
    intro acc
    rw [List.forIn_cons, hF]
    simp only [bind, Except.bind]
    rw [ih]; simp only [List.flatMap_cons, List.append_assoc]

theorem filter_isSysex_ext (ms : List Msg) : List.filter (fun m => parserExt.isSysex m) ms = ms.filter Msg.isSysex := by
  congr 1 <;> (funext m; exact parserExt_isSysex m)

theorem flatMap_map_ofNat (ms : List Msg) : ms.flatMap (fun m => (encode m).map Int.ofNat) = natsToInts (ms.flatMap encode) := by
  induction ms with
  | nil => rfl
  | cons m r ih => simp only [List.flatMap_cons, natsToInts, List.map_append] at *; rw [ih]

/-- text written to a file, as the code points of its characters -/
def textCodes (cs : List Char) : List Int := cs.map (fun c => (c.toNat : Int))

theorem flatMap_text (ms : List Msg) :
    ms.flatMap (fun m => (toHex (encode m)).map (fun c => (c.toNat : Int)) ++ [(10 : Int)]) =
      textCodes (ms.flatMap (fun m => toHex (encode m) ++ ['\n'])) := by
  induction ms with
  | nil => rfl
  | cons m r ih => simp only [List.flatMap_cons, textCodes, List.map_append] at *; rw [ih]; rfl

/-- **`write_syx_file`** of the source, what ends up in the file: the model's `writeSyxBin` / `writeSyxText` -/
theorem src_write_syx (ms : List Msg) :
    Src.write_syx_file parserExt ms false = .ok (natsToInts (writeSyxBin ms)) ∧
    Src.write_syx_file parserExt ms true = .ok (textCodes (writeSyxText ms)) := by
  constructor
  · unfold Src.write_syx_file
    simp only [List.map_id', filter_isSysex_ext, Bool.false_eq_true, if_false, bind, Except.bind]
    rw [src_write_loop (ms.filter Msg.isSysex) (fun m => (encode m).map Int.ofNat)]
    · simp [pure, Except.pure, writeSyxBin, flatMap_map_ofNat]
    · intro m r; rfl
  · unfold Src.write_syx_file
    simp only [List.map_id', filter_isSysex_ext, if_true, bind, Except.bind]
    rw [src_write_loop (ms.filter Msg.isSysex) (fun m => (toHex (encode m)).map (fun c => (c.toNat : Int)) ++ [(10 : Int)])]
    · simp [pure, Except.pure, writeSyxText, flatMap_text]
    · intro m r; simp [parserExt, bind, Except.bind, pure, Except.pure, List.append_assoc]

theorem textCodes_textBytes (cs : List Char) : textCodes cs = natsToInts (textBytes cs) := by
  simp only [textCodes, textBytes, natsToInts, List.map_map]; rfl

theorem encodes_bytes_lt (ms : List Msg) (h : ∀ m ∈ ms, m.Valid) : ∀ b ∈ ms.flatMap encode, b < 256 := by
  intro b hb
  obtain ⟨m, hm, hbm⟩ := List.mem_flatMap.mp hb
  exact encode_bytes_lt m (h m hm) b hbm

theorem hexDigit_lt : ∀ n : Fin 16, (hexDigit n.val).toNat < 256 := by decide

theorem hexByte_lt (b : Nat) (hb : b < 256) : ∀ c ∈ hexByte b, c.toNat < 256 := by
  intro c hc
  simp only [hexByte, List.mem_cons, List.mem_nil_iff, or_false] at hc
  rcases hc with rfl | rfl
  · exact hexDigit_lt ⟨b / 16, by omega⟩
  · exact hexDigit_lt ⟨b % 16, by omega⟩

theorem toHex_lt : ∀ (bs : List Nat), (∀ b ∈ bs, b < 256) → ∀ c ∈ toHex bs, c.toNat < 256
  | [], _, c, hc => by simp [toHex] at hc
  | [b], h, c, hc => hexByte_lt b (h b (by simp)) c (by simpa [toHex] using hc)
  | b :: b2 :: rest, h, c, hc => by
    simp only [toHex, List.mem_append, List.mem_cons] at hc
    rcases hc with hc | rfl | hc
    · exact hexByte_lt b (h b (by simp)) c hc
    · decide
    · exact toHex_lt (b2 :: rest) (fun x hx => h x (by simp [hx])) c hc

theorem text_char_lt (ms : List Msg) (h : ∀ m ∈ ms, m.Valid) : ∀ c ∈ writeSyxText ms, c.toNat < 256 := by
  intro c hc
  simp only [writeSyxText, List.mem_flatMap, List.mem_append, List.mem_cons, List.mem_nil_iff, or_false] at hc
  obtain ⟨m, hm, hc | rfl⟩ := hc
  · exact toHex_lt _ (encode_bytes_lt m (h m (List.mem_filter.mp hm).1)) c hc
  · decide

/-- **C19 about the translated functions**: what the source's `write_syx_file` writes (either format), read by the
    source's `read_syx_file`, is the list of the sysex messages, in order -/
theorem src_syx_roundtrip (ms : List Msg) (h : ∀ m ∈ ms, m.Valid) :
    (Src.write_syx_file parserExt ms false >>= Src.read_syx_file parserExt) = .ok (ms.filter Msg.isSysex) ∧
    (Src.write_syx_file parserExt ms true >>= Src.read_syx_file parserExt) = .ok (ms.filter Msg.isSysex) := by
  have hv : ∀ m ∈ ms.filter Msg.isSysex, m.Valid := fun m hm => h m (List.mem_filter.mp hm).1
  constructor
  · rw [(src_write_syx ms).1]
    simp only [bind, Except.bind]
    rw [src_read_syx _ (by unfold writeSyxBin; exact encodes_bytes_lt _ hv)]
    exact C19_bin ms h
  · rw [(src_write_syx ms).2]
    simp only [bind, Except.bind]
    rw [textCodes_textBytes, src_read_syx _ ?_]
    · exact C19_text ms h
    · intro b hb
      simp only [textBytes, List.mem_map] at hb
      obtain ⟨c, hc, rfl⟩ := hb
      exact text_char_lt ms h c hc

example : Src.write_syx_file parserExt [.sysex [1, 2], .chan3 .note_on 0 1 2, .sysex []] false = .ok [0xF0, 1, 2, 0xF7, 0xF0, 0xF7] := by
  decide +kernel
example : Src.write_syx_file parserExt [.sysex [1, 0xAB % 128], .songpos 3] true = .ok ("F0 01 2B F7\n".toList.map (fun c => (c.toNat : Int))) := by
  decide +kernel

end Mido
