import MidoModel.Smf
import MidoModel.Generated.SrcFileIO
import MidoProofs.SrcTie.VlqRead
import MidoProofs.SrcTie.Basic
import MidoProofs.SrcTie.Codec
import MidoProofs.SrcTie.Vlq
set_option linter.unusedSimpArgs false
/-!
  Source tie, MIDI file reader: `read_bytes`, `read_sysex`, `read_meta_message`, `read_message`, `read_track`,
  `read_chunk_header` and `read_file_header` as translated from the text of `mido/midifiles/midifiles.py`,
  against the model's `readBytes`, `readSysex`, `readMeta`, `readChannelish`, `readEvents` / `readTrack`.

  The message constructors the reader calls (`Message.from_bytes`, `Message('sysex', …)`,
  `build_meta_message`) are outside the translated fragment: the translated functions take them as a
  parameter `ext`, and the theorems instantiate it with the model's own rendering of those constructors
  (`modelExt`), which C01/C02/C09 tie to the code.
-/
namespace Mido
open Mido.Py

instance : Inhabited LEvent := ⟨⟨.msg (.sys1 .clock), 0⟩⟩

def intsToNats (xs : List Int) : List Nat := xs.map Int.toNat

@[simp] theorem intsToNats_natsToInts (xs : List Nat) : intsToNats (natsToInts xs) = xs := by
  induction xs with
  | nil => rfl
  | cons x r ih => simp [intsToNats, natsToInts] at ih ⊢; exact ih

/-- the model's rendering of the message constructors the reader calls -/
def modelExt (cs : Charset) : ReaderExt LEvent where
  buildMeta ty data t :=
    match buildMeta cs ty.toNat (intsToNats data) with
    | .ok (.known m) => .ok ⟨.metaEv m, t.toNat⟩
    | .ok (.unknown tb d) => .ok ⟨.unknownMeta tb d, t.toNat⟩
    | .error e => .error e
  mkSysex data t :=
    if (intsToNats data).all (· ≤ 127) then .ok ⟨.msg (.sysex (intsToNats data)), t.toNat⟩ else .error .ValueError
  fromBytes bs t :=
    match decodeNats (intsToNats bs) with
    | .ok m => .ok ⟨.msg m, t.toNat⟩
    | .error e => .error e

/-! ### `read_bytes` -/

theorem src_read_bytes (bs : List Nat) (p : Int) (size : Int) :
    Src.read_bytes (mkFile bs p) size =
      match readBytes size.toNat bs with
      | .ok (d, r) => .ok (natsToInts d, mkFile r (p + bs.length - r.length))
      | .error e => .error e := by
  unfold Src.read_bytes readBytes
  by_cases h1 : size > 1000000
  · have : size.toNat > maxMessageLength := by simp [maxMessageLength]; omega
    simp [h1, this, throw, throwThe, MonadExceptOf.throw, bind, Except.bind]
  · have : ¬ size.toNat > maxMessageLength := by simp [maxMessageLength]; omega
    simp only [h1, this, decide_false, Bool.false_eq_true, if_false, bind, Except.bind, pure, Except.pure, readN, mkFile,
      natsToInts, List.length_map]
    by_cases h2 : bs.length < size.toNat
    · simp [h2]
    · simp only [h2, if_false]
      have hl : (bs.drop size.toNat).length = bs.length - size.toNat := by simp
      simp only [List.map_take, List.map_drop, hl]
      congr 3
      omega

/-! ### `read_sysex` -/

theorem head_ints (d : List Nat) (k : Nat) : (List.head? (natsToInts d) == some (k : Int)) = (d.head? == some k) := by
  cases d with
  | nil => simp [natsToInts]
  | cons x r =>
    simp only [natsToInts, List.map_cons, List.head?_cons]
    by_cases h : x = k
    · subst h; simp
    · have : ¬ ((x : Int) = (k : Int)) := by omega
      have e1 : ((x : Int) == (k : Int)) = false := by simpa using this
      have e2 : (x == k) = false := by simpa using h
      simp [e1, e2]

theorem getLast_ints (d : List Nat) (k : Nat) :
    (List.getLast? (natsToInts d) == some (k : Int)) = (d.getLast? == some k) := by
  simp only [natsToInts, List.getLast?_map]
  cases d.getLast? with
  | none => simp
  | some x =>
    by_cases h : x = k
    · subst h; simp
    · have : ¬ ((x : Int) = (k : Int)) := by omega
      have e1 : ((x : Int) == (k : Int)) = false := by simpa using this
      have e2 : (x == k) = false := by simpa using h
      simp [e1, e2]

theorem stripF0_ints (d : List Nat) :
    (if (List.head? (natsToInts d) == some (240 : Int)) = true then sliceFrom (natsToInts d) 1 else natsToInts d)
      = natsToInts (stripF0 d) := by
  have h := head_ints d 240
  have e240 : ((240 : Nat) : Int) = 240 := rfl
  rw [e240] at h
  rw [h]
  cases d with
  | nil => simp [stripF0, natsToInts]
  | cons x r =>
    by_cases hx : x = 240
    · subst hx; simp [stripF0, natsToInts, sliceFrom]
    · simp [hx, natsToInts]
      unfold stripF0
      split
      · rename_i heq; simp at heq; exact absurd heq.1 hx
      · rfl

theorem dropLast_ints (d : List Nat) :
    (if (List.getLast? (natsToInts d) == some (247 : Int)) = true then sliceDropLast (natsToInts d) 1 else natsToInts d)
      = natsToInts (if d.getLast? = some 0xf7 then d.dropLast else d) := by
  have h := getLast_ints d 247
  have e247 : ((247 : Nat) : Int) = 247 := rfl
  rw [e247] at h
  rw [h]
  by_cases hl : d.getLast? = some 0xf7
  · simp [hl, sliceDropLast, natsToInts, List.dropLast_eq_take, List.map_take]
  · have : (d.getLast? == some 247) = false := by simpa using hl
    simp [hl, this]

theorem clip_ints (d : List Nat) :
    List.map (fun byte : Int => if decide (byte < 127) = true then byte else 127) (natsToInts d)
      = natsToInts (d.map clipByte) := by
  simp only [natsToInts, List.map_map]
  apply List.map_congr_left
  intro x _
  simp only [Function.comp, clipByte]
  by_cases h : x < 127
  · have : (x : Int) < 127 := by omega
    simp [h, this]
  · have : ¬ (x : Int) < 127 := by omega
    simp [h, this]

theorem mkSysex_model (cs : Charset) (δ : Nat) (d : List Nat) :
    (modelExt cs).mkSysex (natsToInts d) (δ : Int) =
      if d.all (· ≤ 127) = true then .ok ⟨.msg (.sysex d), δ⟩ else .error .ValueError := by
  simp [modelExt]

theorem src_read_sysex (cs : Charset) (bs : List Nat) (p : Int) (δ : Nat) (clip : Bool) :
    Src.read_sysex (modelExt cs) (mkFile bs p) (δ : Int) clip =
      match readSysex clip bs with
      | .ok (ev, r) => .ok (⟨ev, δ⟩, mkFile r (p + bs.length - r.length))
      | .error e => .error e := by
  unfold Src.read_sysex readSysex
  simp only [bind, Except.bind, pure, Except.pure, src_read_variable_int]
  cases hv : readVlq bs with
  | error e => rfl
  | ok pr =>
    obtain ⟨len, r1⟩ := pr
    simp only [src_read_bytes, Int.toNat_natCast]
    cases hb : readBytes len r1 with
    | error e => rfl
    | ok pr2 =>
      obtain ⟨data, r2⟩ := pr2
      have hpos : p + (bs.length : Int) - (r1.length : Int) + (r1.length : Int) - (r2.length : Int)
          = p + (bs.length : Int) - (r2.length : Int) := by omega
      have e240 : ((240 : Nat) : Int) = 240 := rfl
      have e247 : ((247 : Nat) : Int) = 247 := rfl
      simp only [hpos, stripF0_ints, dropLast_ints]
      cases clip
      · simp only [Bool.false_eq_true, if_false, mkSysex_model]
        cases h : (if (stripF0 data).getLast? = some 247 then (stripF0 data).dropLast else stripF0 data).all (· ≤ 127) <;>
          simp [h, throw, throwThe, MonadExceptOf.throw]
      · simp only [if_true, clip_ints, mkSysex_model]
        cases h : (List.map clipByte
            (if (stripF0 data).getLast? = some 247 then (stripF0 data).dropLast else stripF0 data)).all (· ≤ 127) <;>
          simp [h, throw, throwThe, MonadExceptOf.throw]

/-! ### `read_meta_message` -/

theorem src_read_meta_message (cs : Charset) (bs : List Nat) (p : Int) (δ : Nat) :
    Src.read_meta_message (modelExt cs) (mkFile bs p) (δ : Int) =
      match readMeta cs bs with
      | .ok (ev, r) => .ok (⟨ev, δ⟩, mkFile r (p + bs.length - r.length))
      | .error e => .error e := by
  unfold Src.read_meta_message readMeta
  cases bs with
  | nil => simp [mkFile, natsToInts, readByte, bind, Except.bind]
  | cons ty r0 =>
    have hb : readByte (mkFile (ty :: r0) p) = .ok ((ty : Int), mkFile r0 (p + 1)) := by
      simp [readByte, mkFile, natsToInts]
    simp only [hb, bind, Except.bind, pure, Except.pure, src_read_variable_int]
    cases hv : readVlq r0 with
    | error e => rfl
    | ok pr =>
      obtain ⟨len, r1⟩ := pr
      simp only [src_read_bytes, Int.toNat_natCast]
      cases hd : readBytes len r1 with
      | error e => rfl
      | ok pr2 =>
        obtain ⟨data, r2⟩ := pr2
        have hpos : p + 1 + (r0.length : Int) - (r1.length : Int) + (r1.length : Int) - (r2.length : Int)
            = p + ((ty :: r0).length : Int) - (r2.length : Int) := by
          simp only [List.length_cons]; push_cast; omega
        simp only [hpos, modelExt, Int.toNat_natCast, intsToNats_natsToInts]
        cases hm : buildMeta cs ty data with
        | error e => rfl
        | ok me => cases me <;> rfl

/-! ### `read_message` -/

theorem spec_keys_small : ∀ p ∈ Src.SPEC_BY_STATUS, p.1 < 256 := by decide +kernel

theorem spec_table_get : ∀ s, s < 256 →
    (definedStatus s = true →
      (dictGet Src.SPEC_BY_STATUS (Int.ofNat s)).map (·.length) = .ok (Int.ofNat ((specLen s).getD 0))) ∧
    (definedStatus s = false → dictGet Src.SPEC_BY_STATUS (Int.ofNat s) = .error .KeyError) := by
  decide +kernel

theorem spec_get_big (s : Nat) (h : 256 ≤ s) : dictGet Src.SPEC_BY_STATUS (s : Int) = .error .KeyError := by
  unfold dictGet
  have : Src.SPEC_BY_STATUS.find? (fun p => p.1 == (s : Int)) = none := by
    rw [List.find?_eq_none]
    intro p hp
    have := spec_keys_small p hp
    simp; omega
  rw [this]

theorem defined_small (s : Nat) (h : definedStatus s = true) : s < 256 := by
  by_cases h2 : s < 256
  · exact h2
  · exfalso
    have h3 : ¬ (s = 0xF0) := by omega
    have : specLen s = none := by
      unfold specLen
      have a1 : ¬ (0x80 ≤ s ∧ s < 0xC0) := by omega
      have a2 : ¬ (0xC0 ≤ s ∧ s < 0xE0) := by omega
      have a3 : ¬ (0xE0 ≤ s ∧ s < 0xF0) := by omega
      have a4 : ¬ (s = 0xF1 ∨ s = 0xF3) := by omega
      have a5 : ¬ (s = 0xF2) := by omega
      have a6 : ¬ (s = 0xF6 ∨ s = 0xF8 ∨ s = 0xFA ∨ s = 0xFB ∨ s = 0xFC ∨ s = 0xFE ∨ s = 0xFF) := by omega
      simp only [a1, a2, a3, a4, a5, a6, if_false]
    simp [definedStatus, this, h3] at h

theorem bytes_check_loop (F : Int → PUnit → Except Err (ForInStep PUnit))
    (hF : ∀ b s, F b s = if decide (b > 127) = true then .error .OSError else .ok (.yield PUnit.unit)) :
    ∀ data : List Nat, forIn (natsToInts data) PUnit.unit F =
      if data.any (· > 127) = true then .error .OSError else .ok PUnit.unit
  | [] => by simp [natsToInts, pure, Except.pure]
  | b :: r => by
    have ih := bytes_check_loop F hF r
    simp only [natsToInts] at ih
    simp only [natsToInts, List.map_cons, List.forIn_cons, hF, List.any_cons]
    by_cases hb : b > 127
    · have : (b : Int) > 127 := by omega
      simp [hb, this, bind, Except.bind]
    · have : ¬ (b : Int) > 127 := by omega
      have e : ((Int.ofNat b) > 127) = ((b : Int) > 127) := rfl
      simp only [e, hb, this, decide_false, Bool.false_eq_true, if_false, bind, Except.bind, Bool.false_or]
      exact ih

theorem fromBytes_model (cs : Charset) (δ : Nat) (status : Nat) (d : List Nat) :
    (modelExt cs).fromBytes ([(status : Int)] ++ natsToInts d) (δ : Int) =
      match decodeNats (status :: d) with
      | .ok m => .ok ⟨.msg m, δ⟩
      | .error e => .error e := by
  have : intsToNats ([(status : Int)] ++ natsToInts d) = status :: d := by
    have := intsToNats_natsToInts (status :: d)
    simpa [natsToInts] using this
  simp only [modelExt, this, Int.toNat_natCast]

theorem forIn_bytes_check (l : List Int) (F : Int → PUnit → Except Err (ForInStep PUnit))
    (hF : ∀ b s, F b s = if decide (b > 127) = true then .error .OSError else .ok (.yield PUnit.unit)) :
    forIn l PUnit.unit F =
      forIn l PUnit.unit (fun b _ => if decide (b > 127) = true then .error .OSError else .ok (.yield PUnit.unit)) := by
  have : F = _ := funext fun b => funext fun s => hF b s
  rw [this]

/-- `readChannelish` with the length written as `getD` (the same function: the `match` is decided) -/
theorem readChannelish_src_eq (clip : Bool) (status : Nat) (peek bs : List Nat) :
    readChannelish clip status peek bs =
      if !definedStatus status then .error .OSError else
      let size := (specLen status).getD 0 - 1 - peek.length
      if bs.length < size then .error .EOFError else
      let data := peek ++ bs.take size
      let rest := bs.drop size
      let data' := if clip then data.map clipByte else data
      if !clip && data.any (· > 127) then .error .OSError else
      match decodeNats (status :: data') with
      | .ok m => .ok (.msg m, rest)
      | .error e => .error e := by
  unfold readChannelish
  cases specLen status <;> rfl

theorem src_read_message (cs : Charset) (bs : List Nat) (p : Int) (status : Nat) (peek : List Nat) (δ : Nat)
    (clip : Bool) :
    Src.read_message (modelExt cs) (mkFile bs p) (status : Int) (natsToInts peek) (δ : Int) clip =
      match readChannelish clip status peek bs with
      | .ok (ev, r) => .ok (⟨ev, δ⟩, mkFile r (p + bs.length - r.length))
      | .error e => .error e := by
  rw [readChannelish_src_eq]
  unfold Src.read_message
  by_cases hdef : definedStatus status = true
  · have hsmall := defined_small status hdef
    have hget := (spec_table_get status hsmall).1 hdef
    simp only [Int.ofNat_eq_natCast] at hget
    cases hg : dictGet Src.SPEC_BY_STATUS (status : Int) with
    | error e => simp [hg, Except.map] at hget
    | ok row =>
      have hlen : row.length = (((specLen status).getD 0 : Nat) : Int) := by simpa [hg, Except.map] using hget
      have hL3 : (specLen status).getD 0 ≤ 3 := by
        unfold specLen
        split
        · simp
        · split
          · simp
          · split
            · simp
            · split
              · simp
              · split
                · simp
                · split <;> simp
      generalize hL : (specLen status).getD 0 = L at hlen hL3
      simp only [hdef, Bool.not_true, Bool.false_eq_true, if_false]
      simp only [hg, mapErr, bind, Except.bind, pure, Except.pure, hlen, src_read_bytes]
      have hsize : ((L : Int) - 1 - len (natsToInts peek)).toNat = L - 1 - peek.length := by
        simp only [len, natsToInts, List.length_map]; omega
      have hsmallsize : ¬ (L - 1 - peek.length > maxMessageLength) := by
        simp [maxMessageLength]; omega
      simp only [hsize, readBytes, hsmallsize, if_false]
      by_cases hshort : bs.length < L - 1 - peek.length
      · simp [hshort]
      · simp only [hshort, if_false]
        have hl : (bs.drop (L - 1 - peek.length)).length = bs.length - (L - 1 - peek.length) := by simp
        cases clip
        · simp only [Bool.false_eq_true, if_false, Bool.not_false, Bool.true_and]
          rw [forIn_bytes_check]
          case hF => intro b s; rfl
          have hcat : natsToInts peek ++ natsToInts (bs.take (L - 1 - peek.length))
              = natsToInts (peek ++ bs.take (L - 1 - peek.length)) := by simp [natsToInts]
          rw [hcat, bytes_check_loop _ (fun _ _ => rfl)]
          by_cases hany : (peek ++ bs.take (L - 1 - peek.length)).any (· > 127) = true
          · simp [hany]
          · simp only [hany, Bool.false_eq_true, if_false, fromBytes_model]
            cases decodeNats (status :: (peek ++ bs.take (L - 1 - peek.length))) <;> rfl
        · simp only [if_true, Bool.not_true, Bool.false_and, Bool.false_eq_true, if_false]
          have hcat : natsToInts peek ++ natsToInts (bs.take (L - 1 - peek.length))
              = natsToInts (peek ++ bs.take (L - 1 - peek.length)) := by simp [natsToInts]
          rw [hcat, clip_ints, fromBytes_model]
          cases decodeNats (status :: (peek ++ bs.take (L - 1 - peek.length)).map clipByte) <;> rfl
  · have hdef' : definedStatus status = false := by simpa using hdef
    have hget : dictGet Src.SPEC_BY_STATUS (status : Int) = .error .KeyError := by
      by_cases hs : status < 256
      · have := (spec_table_get status hs).2 hdef'
        simpa using this
      · exact spec_get_big status (by omega)
    simp [hdef', hget, mapErr, bind, Except.bind, throw, throwThe, MonadExceptOf.throw]

/-! ### what the read functions leave unread is shorter -/

theorem readVlqAcc_len : ∀ (bs : List Nat) (acc v : Nat) (r : List Nat),
    readVlqAcc acc bs = .ok (v, r) → r.length < bs.length
  | [], acc, v, r, h => by simp [readVlqAcc] at h
  | b :: rest, acc, v, r, h => by
    simp only [readVlqAcc] at h
    by_cases hb : b < 128
    · simp only [hb, if_true, Except.ok.injEq, Prod.mk.injEq] at h
      rw [← h.2]; simp
    · simp only [hb, if_false] at h
      have := readVlqAcc_len rest _ v r h
      simp only [List.length_cons]; omega

theorem readVlq_len (bs : List Nat) (v : Nat) (r : List Nat) (h : readVlq bs = .ok (v, r)) : r.length < bs.length :=
  readVlqAcc_len bs 0 v r h

theorem readBytes_len (n : Nat) (bs d r : List Nat) (h : readBytes n bs = .ok (d, r)) : r.length ≤ bs.length := by
  unfold readBytes at h
  split at h
  · simp at h
  · split at h
    · simp at h
    · simp only [Except.ok.injEq, Prod.mk.injEq] at h
      rw [← h.2]; simp

theorem readSysex_len (clip : Bool) (bs : List Nat) (e : FEv) (r : List Nat)
    (h : readSysex clip bs = .ok (e, r)) : r.length < bs.length := by
  unfold readSysex at h
  simp only [bind, Except.bind] at h
  cases hv : readVlq bs with
  | error err => simp [hv] at h
  | ok pr =>
    obtain ⟨len, r1⟩ := pr
    simp only [hv] at h
    cases hb : readBytes len r1 with
    | error err => simp [hb] at h
    | ok pr2 =>
      obtain ⟨data, r2⟩ := pr2
      simp only [hb] at h
      have h1 := readVlq_len bs len r1 hv
      have h2 := readBytes_len len r1 data r2 hb
      have key : ∀ (c : Prop) [Decidable c] (x : FEv),
          (if c then (pure (x, r2) : Except Err (FEv × List Nat)) else throw .ValueError) = .ok (e, r) → r = r2 := by
        intro c _ x hx
        by_cases hc : c
        · simp only [hc, if_true, pure, Except.pure, Except.ok.injEq, Prod.mk.injEq] at hx
          exact hx.2.symm
        · simp [hc, throw, throwThe, MonadExceptOf.throw] at hx
      have := key _ _ h
      rw [this]; omega

theorem readMeta_len (cs : Charset) (bs : List Nat) (e : FEv) (r : List Nat)
    (h : readMeta cs bs = .ok (e, r)) : r.length < bs.length := by
  unfold readMeta at h
  cases bs with
  | nil => simp at h
  | cons ty r0 =>
    simp only [bind, Except.bind] at h
    cases hv : readVlq r0 with
    | error err => simp [hv] at h
    | ok pr =>
      obtain ⟨len, r1⟩ := pr
      simp only [hv] at h
      cases hb : readBytes len r1 with
      | error err => simp [hb] at h
      | ok pr2 =>
        obtain ⟨data, r2⟩ := pr2
        simp only [hb] at h
        have h1 := readVlq_len r0 len r1 hv
        have h2 := readBytes_len len r1 data r2 hb
        cases hm : buildMeta cs ty data with
        | error err => simp [hm] at h
        | ok me =>
          simp only [hm] at h
          cases me <;> simp only [pure, Except.pure, Except.ok.injEq, Prod.mk.injEq] at h <;>
            (rw [← h.2]; simp only [List.length_cons]; omega)

theorem readChannelish_len (clip : Bool) (status : Nat) (peek bs : List Nat) (e : FEv) (r : List Nat)
    (h : readChannelish clip status peek bs = .ok (e, r)) : r.length ≤ bs.length := by
  rw [readChannelish_src_eq] at h
  split at h
  · simp at h
  · simp only [] at h
    split at h
    · simp at h
    · split at h
      · simp at h
      · split at h
        · simp only [Except.ok.injEq, Prod.mk.injEq] at h
          rw [← h.2]; simp
        · simp at h

/-! ### one round of `read_track`'s loop = the model's `readEvent` -/

theorem tell_mkFile (bs : List Nat) (p : Int) : tell (mkFile bs p) = p := rfl

theorem readByte_mkFile (b : Nat) (r : List Nat) (p : Int) :
    readByte (mkFile (b :: r) p) = .ok ((b : Int), mkFile r (p + 1)) := by
  simp [readByte, mkFile, natsToInts]

theorem readByte_mkFile_nil (p : Int) : readByte (mkFile [] p) = .error .EOFError := by
  simp [readByte, mkFile, natsToInts]

/-- what the three `read_*` calls of a round come to, given the event reader's result -/
theorem round_finish (track : List LEvent) (l : Option Int) (q q' : Int) (rest : List Nat) (e : LEvent) (hq : q = q') :
    (Except.ok (Sum.inr (mkFile rest q, track ++ [e], l)) : Except Err (Sum (PyFile × List LEvent × Option Int) (PyFile × List LEvent × Option Int)))
      = .ok (Sum.inr (mkFile rest q', track ++ [e], l)) := by rw [hq]

set_option maxRecDepth 8000 in
theorem src_track_body (cs : Charset) (clip : Bool) (name : List Int) (size : Nat) (start : Int)
    (bs : List Nat) (p : Int) (consumed : Nat) (last : Option Nat) (track : List LEvent)
    (hp : p - start = consumed) :
    Src.read_track.loop1.body (modelExt cs) clip name (size : Int) start (mkFile bs p) track (optInt last) =
      if consumed = size then .ok (Sum.inl (mkFile bs p, track, optInt last))
      else match readEvent cs clip last bs with
        | .ok (e, rest, last') =>
          .ok (Sum.inr (mkFile rest (p + bs.length - rest.length), track ++ [e], optInt last'))
        | .error err => .error err := by
  unfold Src.read_track.loop1.body
  by_cases hdone : consumed = size
  · have : (tell (mkFile bs p) - start == (size : Int)) = true := by
      rw [tell_mkFile, hp, hdone]; simp
    simp [this, hdone, pure, Except.pure, bind, Except.bind]
  · have : (tell (mkFile bs p) - start == (size : Int)) = false := by
      rw [tell_mkFile, hp]
      have : ¬ ((consumed : Int) = (size : Int)) := by omega
      simpa using this
    simp only [this, hdone, Bool.false_eq_true, if_false, bind, Except.bind, pure, Except.pure,
      src_read_variable_int]
    unfold readEvent
    simp only [bind, Except.bind]
    cases hv : readVlq bs with
    | error err => rfl
    | ok pr =>
      obtain ⟨delta, r1⟩ := pr
      simp only []
      cases r1 with
      | nil => simp [readByte_mkFile_nil, throw, throwThe, MonadExceptOf.throw]
      | cons sb r2 =>
        have hl1 := readVlq_len bs delta (sb :: r2) hv
        simp only [List.length_cons] at hl1
        have hq : p + (bs.length : Int) - ((sb :: r2).length : Int) + 1 = p + (bs.length : Int) - (r2.length : Int) := by
          simp only [List.length_cons]; push_cast; omega
        simp only [readByte_mkFile, hq]
        by_cases hsb : sb < 0x80
        · have hsb' : decide ((sb : Int) < 128) = true := by simp; omega
          simp only [hsb, hsb', if_true]
          cases last with
          | none => simp [optInt, throw, throwThe, MonadExceptOf.throw]
          | some st =>
            have hne : (optInt (some st) == none) = false := by simp [optInt]
            have hget : optGet (optInt (some st)) = .ok (st : Int) := by simp [optInt, optGet]
            simp only [hne, Bool.false_eq_true, if_false, hget]
            by_cases h255 : st = 0xff
            · subst h255
              have e1 : (((255 : Nat) : Int) == 255) = true := by decide
              simp only [e1, if_true, src_read_meta_message, if_true]
              cases hm : readMeta cs r2 with
              | error err => simp
              | ok pr2 =>
                obtain ⟨ev, rest⟩ := pr2
                have := readMeta_len cs r2 ev rest hm
                simp only [pure, Except.pure]
                apply round_finish; omega
            · have e1 : ((st : Int) == 255) = false := by
                have : ¬ ((st : Int) = 255) := by omega
                simpa using this
              simp only [h255, e1, Bool.false_eq_true, if_false]
              by_cases hsx : st = 0xf0 ∨ st = 0xf7
              · have e2 : List.elem (st : Int) [240, 247] = true := by
                  rcases hsx with h | h <;> subst h <;> decide
                simp only [hsx, e2, if_true, src_read_sysex]
                cases hm : readSysex clip r2 with
                | error err => simp
                | ok pr2 =>
                  obtain ⟨ev, rest⟩ := pr2
                  have := readSysex_len clip r2 ev rest hm
                  simp only [pure, Except.pure]
                  apply round_finish; omega
              · have e2 : List.elem (st : Int) [240, 247] = false := by
                  have a : ((st : Int) == 240) = false := by
                    have : ¬ ((st : Int) = 240) := by omega
                    simpa using this
                  have b : ((st : Int) == 247) = false := by
                    have : ¬ ((st : Int) = 247) := by omega
                    simpa using this
                  simp [List.elem, a, b]
                have hpk : ([(sb : Int)] : List Int) = natsToInts [sb] := by simp [natsToInts]
                simp only [hsx, e2, Bool.false_eq_true, if_false, hpk, src_read_message]
                cases hm : readChannelish clip st [sb] r2 with
                | error err => simp
                | ok pr2 =>
                  obtain ⟨ev, rest⟩ := pr2
                  have := readChannelish_len clip st [sb] r2 ev rest hm
                  simp only [pure, Except.pure]
                  apply round_finish; omega
        · have hsb' : decide ((sb : Int) < 128) = false := by simp; omega
          simp only [hsb, hsb', Bool.false_eq_true, if_false]
          by_cases h255 : sb = 0xff
          · subst h255
            have e0 : (((255 : Nat) : Int) != 255) = false := by decide
            have e1 : (((255 : Nat) : Int) == 255) = true := by decide
            simp only [e0, e1, Bool.false_eq_true, if_false, if_true, src_read_meta_message]
            cases hm : readMeta cs r2 with
            | error err => simp
            | ok pr2 =>
              obtain ⟨ev, rest⟩ := pr2
              have := readMeta_len cs r2 ev rest hm
              simp only [pure, Except.pure]
              apply round_finish; omega
          · have e0 : ((sb : Int) != 255) = true := by
              have : ¬ ((sb : Int) = 255) := by omega
              simpa using this
            have e1 : ((sb : Int) == 255) = false := by
              have : ¬ ((sb : Int) = 255) := by omega
              simpa using this
            simp only [h255, e0, e1, if_true, Bool.false_eq_true, if_false]
            by_cases hsx : sb = 0xf0 ∨ sb = 0xf7
            · have e2 : List.elem (sb : Int) [240, 247] = true := by
                rcases hsx with h | h <;> subst h <;> decide
              simp only [hsx, e2, if_true, src_read_sysex]
              cases hm : readSysex clip r2 with
              | error err => simp
              | ok pr2 =>
                obtain ⟨ev, rest⟩ := pr2
                have := readSysex_len clip r2 ev rest hm
                simp only [pure, Except.pure, optInt, Option.map_some]
                apply round_finish; omega
            · have e2 : List.elem (sb : Int) [240, 247] = false := by
                have a : ((sb : Int) == 240) = false := by
                  have : ¬ ((sb : Int) = 240) := by omega
                  simpa using this
                have b : ((sb : Int) == 247) = false := by
                  have : ¬ ((sb : Int) = 247) := by omega
                  simpa using this
                simp [List.elem, a, b]
              simp only [hsx, e2, Bool.false_eq_true, if_false]
              have hpk : ([] : List Int) = natsToInts [] := by simp [natsToInts]
              rw [hpk, src_read_message]
              cases hm : readChannelish clip sb [] r2 with
              | error err => simp
              | ok pr2 =>
                obtain ⟨ev, rest⟩ := pr2
                have := readChannelish_len clip sb [] r2 ev rest hm
                simp only [pure, Except.pure, optInt, Option.map_some]
                apply round_finish; omega

/-! ### the loop of `read_track` = the model's `readEvents` -/

theorem readEvent_len (cs : Charset) (clip : Bool) (last : Option Nat) (bs : List Nat) (e : LEvent) (r : List Nat)
    (l : Option Nat) (h : readEvent cs clip last bs = .ok (e, r, l)) : r.length < bs.length := by
  unfold readEvent at h
  simp only [bind, Except.bind] at h
  cases hv : readVlq bs with
  | error err => simp [hv] at h
  | ok pr =>
    obtain ⟨delta, r1⟩ := pr
    simp only [hv] at h
    have h1 := readVlq_len bs delta r1 hv
    cases r1 with
    | nil => simp [throw, throwThe, MonadExceptOf.throw] at h
    | cons sb r2 =>
      simp only [List.length_cons] at h1
      simp only [] at h
      -- every branch reads from r2 and returns what its reader leaves
      have hmeta : ∀ ev rr, readMeta cs r2 = .ok (ev, rr) → rr.length ≤ r2.length :=
        fun ev rr hh => Nat.le_of_lt (readMeta_len cs r2 ev rr hh)
      have hsys : ∀ ev rr, readSysex clip r2 = .ok (ev, rr) → rr.length ≤ r2.length :=
        fun ev rr hh => Nat.le_of_lt (readSysex_len clip r2 ev rr hh)
      have hch : ∀ st pk ev rr, readChannelish clip st pk r2 = .ok (ev, rr) → rr.length ≤ r2.length :=
        fun st pk ev rr hh => readChannelish_len clip st pk r2 ev rr hh
      have : r.length ≤ r2.length := by
        split at h
        · cases last with
          | none => simp [throw, throwThe, MonadExceptOf.throw] at h
          | some st =>
            simp only [] at h
            split at h
            · (cases hx : readMeta cs r2 with
              | error err => simp [hx] at h
              | ok v =>
                simp only [hx, pure, Except.pure, Except.ok.injEq, Prod.mk.injEq] at h
                have := hmeta v.1 v.2 (by rw [hx])
                rw [← h.2.1]; exact this)
            · split at h
              · (cases hx : readSysex clip r2 with
              | error err => simp [hx] at h
              | ok v =>
                simp only [hx, pure, Except.pure, Except.ok.injEq, Prod.mk.injEq] at h
                have := hsys v.1 v.2 (by rw [hx])
                rw [← h.2.1]; exact this)
              · (cases hx : readChannelish clip st [sb] r2 with
              | error err => simp [hx] at h
              | ok v =>
                simp only [hx, pure, Except.pure, Except.ok.injEq, Prod.mk.injEq] at h
                have := hch st [sb] v.1 v.2 (by rw [hx])
                rw [← h.2.1]; exact this)
        · split at h
          · (cases hx : readMeta cs r2 with
              | error err => simp [hx] at h
              | ok v =>
                simp only [hx, pure, Except.pure, Except.ok.injEq, Prod.mk.injEq] at h
                have := hmeta v.1 v.2 (by rw [hx])
                rw [← h.2.1]; exact this)
          · split at h
            · (cases hx : readSysex clip r2 with
              | error err => simp [hx] at h
              | ok v =>
                simp only [hx, pure, Except.pure, Except.ok.injEq, Prod.mk.injEq] at h
                have := hsys v.1 v.2 (by rw [hx])
                rw [← h.2.1]; exact this)
            · (cases hx : readChannelish clip sb [] r2 with
              | error err => simp [hx] at h
              | ok v =>
                simp only [hx, pure, Except.pure, Except.ok.injEq, Prod.mk.injEq] at h
                have := hch sb [] v.1 v.2 (by rw [hx])
                rw [← h.2.1]; exact this)
      omega

theorem readEvents_len (cs : Charset) (clip : Bool) (size : Nat) :
    ∀ (fuel consumed : Nat) (last : Option Nat) (bs : List Nat) (es : List LEvent) (rest : List Nat),
      readEvents cs clip size fuel consumed last bs = .ok (es, rest) → rest.length ≤ bs.length
  | 0, _, _, _, _, _, h => by simp [readEvents] at h
  | f + 1, consumed, last, bs, es, rest, h => by
    rw [readEvents] at h
    by_cases hd : consumed = size
    · simp only [hd, if_true, Except.ok.injEq, Prod.mk.injEq] at h
      rw [← h.2]; exact Nat.le_refl _
    · simp only [hd, if_false, bind, Except.bind] at h
      cases he : readEvent cs clip last bs with
      | error err => simp [he] at h
      | ok pr =>
        obtain ⟨e, r1, l1⟩ := pr
        simp only [he] at h
        have h1 := readEvent_len cs clip last bs e r1 l1 he
        cases hr : readEvents cs clip size f (consumed + (bs.length - r1.length)) l1 r1 with
        | error err => simp [hr] at h
        | ok pr2 =>
          obtain ⟨es2, r2⟩ := pr2
          have h2 := readEvents_len cs clip size f _ l1 r1 es2 r2 hr
          simp only [hr, pure, Except.pure, Except.ok.injEq, Prod.mk.injEq] at h
          rw [← h.2]; omega

theorem src_track_loop (cs : Charset) (clip : Bool) (name : List Int) (size : Nat) (start : Int) :
    ∀ (fuel : Nat) (bs : List Nat) (p : Int) (consumed : Nat) (last : Option Nat) (track : List LEvent),
      bs.length < fuel → p - start = consumed →
      match readEvents cs clip size fuel consumed last bs with
      | .ok (es, rest) => ∃ l', Src.read_track.loop1 (modelExt cs) clip name (size : Int) start fuel (mkFile bs p) track
          (optInt last) = .ok (mkFile rest (p + bs.length - rest.length), track ++ es, l')
      | .error err => Src.read_track.loop1 (modelExt cs) clip name (size : Int) start fuel (mkFile bs p) track
          (optInt last) = .error err
  | 0, bs, p, consumed, last, track, hf, _ => by omega
  | f + 1, bs, p, consumed, last, track, hf, hp => by
    rw [Src.read_track.loop1, readEvents]
    simp only [if_true, src_track_body cs clip name size start bs p consumed last track hp]
    by_cases hdone : consumed = size
    · simp only [hdone, if_true]
      exact ⟨optInt last, by simp [pure, Except.pure]⟩
    · simp only [hdone, if_false, bind, Except.bind]
      cases he : readEvent cs clip last bs with
      | error err => simp
      | ok pr =>
        obtain ⟨e, rest, last'⟩ := pr
        have hlen := readEvent_len cs clip last bs e rest last' he
        have ih := src_track_loop cs clip name size start f rest (p + bs.length - rest.length)
          (consumed + (bs.length - rest.length)) last' (track ++ [e]) (by omega) (by omega)
        simp only []
        cases hr : readEvents cs clip size f (consumed + (bs.length - rest.length)) last' rest with
        | error err =>
          simp only [hr] at ih
          simp only [ih]
        | ok pr2 =>
          obtain ⟨es, rest'⟩ := pr2
          simp only [hr] at ih
          obtain ⟨l', hl⟩ := ih
          refine ⟨l', ?_⟩
          simp only [hl, pure, Except.pure, List.append_assoc, List.singleton_append]
          have hlen2 : rest'.length ≤ rest.length := readEvents_len cs clip size f _ last' rest es rest' hr
          congr 3
          omega

/-! ### `read_chunk_header`, `read_track` -/

set_option maxRecDepth 8000 in
theorem beVal_be32 (a b c d : Nat) : beVal (natsToInts [a, b, c, d]) = ((be32 [a, b, c, d] : Nat) : Int) := by
  simp only [natsToInts, List.map_cons, List.map_nil, beVal, be32, List.length_cons, List.length_nil]
  have e3 : (256 : Int) ^ (0 + 1 + 1 + 1) = 16777216 := by decide
  have e2 : (256 : Int) ^ (0 + 1 + 1) = 65536 := by decide
  have e1 : (256 : Int) ^ (0 + 1) = 256 := by decide
  have e0 : (256 : Int) ^ 0 = 1 := by decide
  rw [e3, e2, e1, e0]
  simp only [Int.ofNat_eq_natCast]
  push_cast
  omega

theorem src_read_chunk_header (bs : List Nat) (p : Int) :
    Src.read_chunk_header (mkFile bs p) =
      if bs.length < 8 then .error .EOFError
      else .ok ((natsToInts (bs.take 4), ((be32 ((bs.drop 4).take 4) : Nat) : Int)), mkFile (bs.drop 8) (p + 8)) := by
  unfold Src.read_chunk_header
  have e8 : (8 : Int).toNat = 8 := rfl
  have hrl : (mkFile bs p).rest.length = bs.length := by simp [mkFile, natsToInts]
  by_cases h : bs.length < 8
  · have hk : min 8 bs.length = bs.length := by omega
    have hlt : decide ((len (List.take bs.length (mkFile bs p).rest)) < (8 : Int)) = true := by
      simp [len, hrl]; omega
    simp only [readUpTo, e8, hrl, hk, h, if_true, bind, Except.bind, pure, Except.pure, hlt, throw, throwThe,
      MonadExceptOf.throw]
  · have hk : min 8 bs.length = 8 := by omega
    have hlt : decide ((len (List.take 8 (mkFile bs p).rest)) < (8 : Int)) = false := by
      simp [len, hrl]; omega
    simp only [readUpTo, e8, hrl, hk, h, if_false, bind, Except.bind, pure, Except.pure, hlt, Bool.false_eq_true]
    -- the eight header bytes
    match bs, h with
    | a :: b :: c :: d :: e :: f :: g :: i :: rest, _ =>
      have hb := beVal_be32 e f g i
      simp only [natsToInts, List.map_cons, List.map_nil] at hb
      simp [unpack4sL, mkFile, natsToInts]
      exact hb
    | [], h | [_], h | [_, _], h | [_, _, _], h | [_, _, _, _], h | [_, _, _, _, _], h | [_, _, _, _, _, _], h
    | [_, _, _, _, _, _, _], h => simp at h

/-- `read_track`, as translated from the source (chunk header, `tell()`-based end test, delta time, running
    status, the three kinds of event), reads from EVERY byte list exactly the events of the model's `readTrack`,
    leaves the same bytes unread at the position that corresponds to them, and raises where the model raises -/
theorem src_read_track (cs : Charset) (clip : Bool) (bs : List Nat) (p : Int) :
    Src.read_track (modelExt cs) (mkFile bs p) clip =
      match readTrack cs clip bs with
      | .ok (es, rest) => .ok (es, mkFile rest (p + bs.length - rest.length))
      | .error e => .error e := by
  unfold Src.read_track readTrack
  simp only [bind, Except.bind, pure, Except.pure, src_read_chunk_header]
  by_cases h8 : bs.length < 8
  · simp [h8]
  · simp only [h8, if_false]
    have hmtrk : natsToInts mtrk = [77, 84, 114, 107] := by decide
    by_cases hname : bs.take 4 = mtrk
    · have hne : (natsToInts (bs.take 4) != ([77, 84, 114, 107] : List Int)) = false := by
        rw [hname, hmtrk]; simp
      have hne' : (natsToInts mtrk != ([77, 84, 114, 107] : List Int)) = false := by rw [hmtrk]; simp
      simp only [hne, hne', Bool.false_eq_true, if_false, hname, ne_eq, not_true_eq_false, tell_mkFile]
      have hl : (mkFile (bs.drop 8) (p + 8)).rest.length = (bs.drop 8).length := by simp [mkFile, natsToInts]
      have hloop := src_track_loop cs clip (natsToInts mtrk) (be32 ((bs.drop 4).take 4)) (p + 8)
        ((bs.drop 8).length + 1) (bs.drop 8) (p + 8) 0 none [] (by omega) (by simp)
      rw [hl]
      cases hr : readEvents cs clip (be32 ((bs.drop 4).take 4)) ((bs.drop 8).length + 1) 0 none (bs.drop 8) with
      | error err =>
        simp only [hr] at hloop
        simp only [optInt, Option.map_none] at hloop
        rw [hloop]
      | ok pr =>
        obtain ⟨es, rest⟩ := pr
        simp only [hr] at hloop
        obtain ⟨l', hl'⟩ := hloop
        simp only [optInt, Option.map_none, List.nil_append] at hl'
        rw [hl']
        have hrl := readEvents_len cs clip _ _ _ _ _ es rest hr
        have hd : (bs.drop 8).length = bs.length - 8 := by simp
        have hpos : p + 8 + ((bs.drop 8).length : Int) - (rest.length : Int) = p + (bs.length : Int) - (rest.length : Int) := by
          rw [hd]; omega
        simp only [hpos]
    · have hne : (natsToInts (bs.take 4) != ([77, 84, 114, 107] : List Int)) = true := by
        rw [← hmtrk]
        simp only [bne_iff_ne, ne_eq]
        intro hh
        apply hname
        have := congrArg intsToNats hh
        simpa using this
      simp [hne, hname, throw, throwThe, MonadExceptOf.throw]

/-! ### `read_file_header`, `MidiFile._load` -/

theorem s16_eq (a b : Nat) : Py.s16 (a : Int) (b : Int) = Mido.s16 a b := by
  have hc : ((a * 256 + b : Nat) : Int) = (a : Int) * 256 + (b : Int) := by
    rw [Int.natCast_add, Int.natCast_mul]; rfl
  unfold Py.s16 Mido.s16
  simp only [hc]
  by_cases h : a * 256 + b ≥ 32768
  · have h' : (a : Int) * 256 + (b : Int) ≥ 32768 := by omega
    rw [if_pos h', if_pos h]
  · have h' : ¬ ((a : Int) * 256 + (b : Int) ≥ 32768) := by omega
    rw [if_neg h', if_neg h]

theorem src_read_file_header (bs : List Nat) (p : Int) :
    Src.read_file_header (mkFile bs p) =
      if bs.length < 8 then .error .EOFError
      else if bs.take 4 ≠ mthd then .error .OSError
      else
        let size := be32 ((bs.drop 4).take 4)
        match (bs.drop 8).take size with
        | a :: b :: c :: d :: e :: f :: _ =>
          .ok ((Mido.s16 a b, Mido.s16 c d, Mido.s16 e f),
               mkFile ((bs.drop 8).drop size) (p + 8 + (min size (bs.drop 8).length : Nat)))
        | _ => .error .EOFError := by
  unfold Src.read_file_header
  simp only [bind, Except.bind, pure, Except.pure, src_read_chunk_header]
  by_cases h8 : bs.length < 8
  · simp [h8]
  · simp only [h8, if_false]
    have hmthd : natsToInts mthd = [77, 84, 104, 100] := by decide
    by_cases hname : bs.take 4 = mthd
    · have hne : (natsToInts (bs.take 4) != ([77, 84, 104, 100] : List Int)) = false := by
        rw [hname, hmthd]; simp
      have hne' : (natsToInts mthd != ([77, 84, 104, 100] : List Int)) = false := by rw [hmthd]; simp
      simp only [hne, hne', Bool.false_eq_true, if_false, hname, ne_eq, not_true_eq_false]
      generalize hsz : be32 ((bs.drop 4).take 4) = size
      generalize hbody : bs.drop 8 = body
      have hk : min ((size : Int)).toNat (mkFile body (p + 8)).rest.length = min size body.length := by
        simp [mkFile, natsToInts]
      simp only [readUpTo, hk, len, mkFile, natsToInts, List.length_take, List.length_map]
      have htake : List.take (min size body.length) (List.map Int.ofNat body) = natsToInts (body.take size) := by
        simp [natsToInts, List.map_take, List.take_take]
      have e1 : ((size : Int)).toNat = size := Int.toNat_natCast size
      have hkk : min (min size body.length) body.length = min size body.length := by omega
      have hlen : (body.take size).length = min size body.length := List.length_take
      have hdrop : List.drop (min size body.length) (List.map Int.ofNat body) = List.map Int.ofNat (body.drop size) := by
        rw [← List.map_drop]
        congr 1
        by_cases hs : size ≤ body.length
        · rw [Nat.min_eq_left hs]
        · rw [Nat.min_eq_right (by omega), List.drop_of_length_le (Nat.le_refl _), List.drop_of_length_le (by omega)]
      simp only [e1, hkk, htake, hdrop]
      -- the six header bytes, if they are there
      match hd : body.take size, hlen with
      | a :: b :: c :: d :: e :: f :: tail, hlen =>
        have h6 : ¬ (((min size body.length : Nat) : Int) < 6) := by
          rw [← hlen]; simp only [List.length_cons]; omega
        simp only [h6, decide_false, Bool.false_eq_true, if_false, natsToInts, List.map_cons, List.take, unpackHHH,
          Int.ofNat_eq_natCast, s16_eq]
      | [], hlen | [_], hlen | [_, _], hlen | [_, _, _], hlen | [_, _, _, _], hlen | [_, _, _, _, _], hlen =>
        have h6 : (((min size body.length : Nat) : Int) < 6) := by
          rw [← hlen]; simp only [List.length_cons, List.length_nil]; omega
        simp [h6, throw, throwThe, MonadExceptOf.throw]
    · have hne : (natsToInts (bs.take 4) != ([77, 84, 104, 100] : List Int)) = true := by
        rw [← hmthd]
        simp only [bne_iff_ne, ne_eq]
        intro hh
        apply hname
        have := congrArg intsToNats hh
        simpa using this
      simp [hne, hname, throw, throwThe, MonadExceptOf.throw]

/-- the loop over the tracks of `_load` (the loop variable is not used) -/
theorem src_load_loop (cs : Charset) (clip : Bool)
    (F : Int → PyFile × List (List LEvent) → Except Err (ForInStep (PyFile × List (List LEvent))))
    (hF : ∀ i s, F i s = (match Src.read_track (modelExt cs) s.1 clip with
      | .error err => .error err
      | .ok v => .ok (.yield (v.2, s.2 ++ [v.1])))) :
    ∀ (is : List Int) (bs : List Nat) (p : Int) (acc : List (List LEvent)),
      match readTracks cs clip is.length bs with
      | .ok ts => ∃ f', forIn is (mkFile bs p, acc) F = .ok (f', acc ++ ts)
      | .error e => forIn is (mkFile bs p, acc) F = .error e
  | [], bs, p, acc => by simp [readTracks, pure, Except.pure]
  | i :: is, bs, p, acc => by
    rw [List.forIn_cons, hF]
    simp only [List.length_cons, readTracks, src_read_track, bind, Except.bind]
    cases ht : readTrack cs clip bs with
    | error e => rfl
    | ok pr =>
      obtain ⟨t, rest⟩ := pr
      simp only []
      have ih := src_load_loop cs clip F hF is rest (p + bs.length - rest.length) (acc ++ [t])
      cases hr : readTracks cs clip is.length rest with
      | error e =>
        simp only [hr] at ih
        exact ih
      | ok ts =>
        simp only [hr] at ih
        obtain ⟨f', hf⟩ := ih
        refine ⟨f', ?_⟩
        simp only [pure, Except.pure, hf, List.append_assoc, List.singleton_append]

/-- one round of the loop over the tracks -/
def loadStep (cs : Charset) (clip : Bool) (_ : Int) (s : PyFile × List (List LEvent)) :
    Except Err (ForInStep (PyFile × List (List LEvent))) :=
  match Src.read_track (modelExt cs) s.1 clip with
  | .error err => .error err
  | .ok v => .ok (.yield (v.2, s.2 ++ [v.1]))

theorem forIn_load (cs : Charset) (clip : Bool) (l : List Int) (init : PyFile × List (List LEvent))
    (F : Int → PyFile × List (List LEvent) → Except Err (ForInStep (PyFile × List (List LEvent))))
    (hF : ∀ i s, F i s = loadStep cs clip i s) : forIn l init F = forIn l init (loadStep cs clip) := by
  have : F = loadStep cs clip := funext fun i => funext fun s => hF i s
  rw [this]

/-- `MidiFile._load`, as translated from the source, reads from EVERY byte string what the model's `readFile`
    reads: type, ticks per beat and all tracks, appended to the tracks the object held -/
theorem src_load (cs : Charset) (clip : Bool) (bs : List Nat) (ty0 tpb0 : Int) (tracks0 : List (List LEvent)) :
    (Src.MidiFile._load (modelExt cs) ty0 tpb0 tracks0 clip (mkFile bs 0)).map
        (fun r => (r.1, r.2.1, r.2.2.1, r.2.2.2.1)) =
      match readFile cs clip bs with
      | .ok f => .ok (f.type, f.tpb, tracks0 ++ f.tracks, clip)
      | .error e => .error e := by
  unfold Src.MidiFile._load readFile
  simp only [bind, Except.bind, pure, Except.pure, src_read_file_header]
  by_cases h8 : bs.length < 8
  · simp [h8, Except.map]
  · simp only [h8, if_false]
    by_cases hname : bs.take 4 = mthd
    · simp only [hname, ne_eq, not_true_eq_false, if_false]
      generalize List.take (be32 (List.take 4 (List.drop 4 bs))) (List.drop 8 bs) = data
      generalize List.drop (be32 (List.take 4 (List.drop 4 bs))) (List.drop 8 bs) = rest
      generalize (0 : Int) + 8 + ((min (be32 (List.take 4 (List.drop 4 bs))) (List.drop 8 bs).length : Nat) : Int) = q
      match data with
      | a :: b :: c :: d :: e :: f :: tail =>
        simp only []
        have hlenr : (rangeInt (Mido.s16 c d)).length = (Mido.s16 c d).toNat := by simp [rangeInt]
        rw [forIn_load cs clip]
        case hF => intro i s; unfold loadStep; cases Src.read_track (modelExt cs) s.1 clip <;> rfl
        have hloop := src_load_loop cs clip (loadStep cs clip) (fun _ _ => rfl) (rangeInt (Mido.s16 c d)) rest q tracks0
        rw [hlenr] at hloop
        cases hr : readTracks cs clip (Mido.s16 c d).toNat rest with
        | error err =>
          simp only [hr] at hloop
          simp only [hloop, Except.map]
        | ok ts =>
          simp only [hr] at hloop
          obtain ⟨f', hf⟩ := hloop
          simp only [hf, Except.map]
      | [] | [_] | [_, _] | [_, _, _] | [_, _, _, _] | [_, _, _, _, _] => simp [Except.map]
    · simp [hname, Except.map]

end Mido
