import MidoModel.Smf
import MidoModel.Generated.Src
import MidoProofs.SrcTie.Basic
import MidoProofs.SrcTie.Codec
import MidoProofs.SrcTie.Vlq
set_option linter.unusedSimpArgs false
/-!
  Source tie, MIDI file reader: `read_bytes`, `read_sysex`, `read_meta_message`, `read_message`, `read_track`,
  `read_chunk_header` and `read_file_header` as translated from the text of `mido/midifiles/midifiles.py`,
  against the model's `readBytes`, `readSysex`, `readMeta`, `readChannelish`, `readEvents` / `readTrack`.

  The message constructors the reader calls (`Message.from_bytes`, `Message('sysex', …)`,
  `build_meta_message`) are outside the translated fragment: the translated functions take them as a
  parameter `ext`, and the theorems instantiate it with the model's own rendering of those constructors
  (`modelExt`), which C01/C02/C09 tie to the code.
-/
namespace Mido
open Mido.Py

instance : Inhabited LEvent := ⟨⟨.msg (.sys1 .clock), 0⟩⟩

def intsToNats (xs : List Int) : List Nat := xs.map Int.toNat

@[simp] theorem intsToNats_natsToInts (xs : List Nat) : intsToNats (natsToInts xs) = xs := by
  induction xs with
  | nil => rfl
  | cons x r ih => simp [intsToNats, natsToInts] at ih ⊢; exact ih

/-- the model's rendering of the message constructors the reader calls -/
def modelExt (cs : Charset) : ReaderExt LEvent where
  buildMeta ty data t :=
    match buildMeta cs ty.toNat (intsToNats data) with
    | .ok (.known m) => .ok ⟨.metaEv m, t.toNat⟩
    | .ok (.unknown tb d) => .ok ⟨.unknownMeta tb d, t.toNat⟩
    | .error e => .error e
  mkSysex data t :=
    if (intsToNats data).all (· ≤ 127) then .ok ⟨.msg (.sysex (intsToNats data)), t.toNat⟩ else .error .ValueError
  fromBytes bs t :=
    match decodeNats (intsToNats bs) with
    | .ok m => .ok ⟨.msg m, t.toNat⟩
    | .error e => .error e

/-! ### `read_bytes` -/

theorem src_read_bytes (bs : List Nat) (p : Int) (size : Int) :
    Src.read_bytes (mkFile bs p) size =
      match readBytes size.toNat bs with
      | .ok (d, r) => .ok (natsToInts d, mkFile r (p + bs.length - r.length))
      | .error e => .error e := by
  unfold Src.read_bytes readBytes
  by_cases h1 : size > 1000000
  · have : size.toNat > maxMessageLength := by simp [maxMessageLength]; omega
    simp [h1, this, throw, throwThe, MonadExceptOf.throw, bind, Except.bind]
  · have : ¬ size.toNat > maxMessageLength := by simp [maxMessageLength]; omega
    simp only [h1, this, decide_false, Bool.false_eq_true, if_false, bind, Except.bind, pure, Except.pure, readN, mkFile,
      natsToInts, List.length_map]
    by_cases h2 : bs.length < size.toNat
    · simp [h2]
    · simp only [h2, if_false]
      have hl : (bs.drop size.toNat).length = bs.length - size.toNat := by simp
      simp only [List.map_take, List.map_drop, hl]
      congr 3
      omega

/-! ### `read_sysex` -/

theorem head_ints (d : List Nat) (k : Nat) : (List.head? (natsToInts d) == some (k : Int)) = (d.head? == some k) := by
  cases d with
  | nil => simp [natsToInts]
  | cons x r =>
    simp only [natsToInts, List.map_cons, List.head?_cons]
    by_cases h : x = k
    · subst h; simp
    · have : ¬ ((x : Int) = (k : Int)) := by omega
      have e1 : ((x : Int) == (k : Int)) = false := by simpa using this
      have e2 : (x == k) = false := by simpa using h
      simp [e1, e2]

theorem getLast_ints (d : List Nat) (k : Nat) :
    (List.getLast? (natsToInts d) == some (k : Int)) = (d.getLast? == some k) := by
  simp only [natsToInts, List.getLast?_map]
  cases d.getLast? with
  | none => simp
  | some x =>
    by_cases h : x = k
    · subst h; simp
    · have : ¬ ((x : Int) = (k : Int)) := by omega
      have e1 : ((x : Int) == (k : Int)) = false := by simpa using this
      have e2 : (x == k) = false := by simpa using h
      simp [e1, e2]

theorem stripF0_ints (d : List Nat) :
    (if (List.head? (natsToInts d) == some (240 : Int)) = true then sliceFrom (natsToInts d) 1 else natsToInts d)
      = natsToInts (stripF0 d) := by
  have h := head_ints d 240
  have e240 : ((240 : Nat) : Int) = 240 := rfl
  rw [e240] at h
  rw [h]
  cases d with
  | nil => simp [stripF0, natsToInts]
  | cons x r =>
    by_cases hx : x = 240
    · subst hx; simp [stripF0, natsToInts, sliceFrom]
    · simp [hx, natsToInts]
      unfold stripF0
      split
      · rename_i heq; simp at heq; exact absurd heq.1 hx
      · rfl

theorem dropLast_ints (d : List Nat) :
    (if (List.getLast? (natsToInts d) == some (247 : Int)) = true then sliceDropLast (natsToInts d) 1 else natsToInts d)
      = natsToInts (if d.getLast? = some 0xf7 then d.dropLast else d) := by
  have h := getLast_ints d 247
  have e247 : ((247 : Nat) : Int) = 247 := rfl
  rw [e247] at h
  rw [h]
  by_cases hl : d.getLast? = some 0xf7
  · simp [hl, sliceDropLast, natsToInts, List.dropLast_eq_take, List.map_take]
  · have : (d.getLast? == some 247) = false := by simpa using hl
    simp [hl, this]

theorem clip_ints (d : List Nat) :
    List.map (fun byte : Int => if decide (byte < 127) = true then byte else 127) (natsToInts d)
      = natsToInts (d.map clipByte) := by
  simp only [natsToInts, List.map_map]
  apply List.map_congr_left
  intro x _
  simp only [Function.comp, clipByte]
  by_cases h : x < 127
  · have : (x : Int) < 127 := by omega
    simp [h, this]
  · have : ¬ (x : Int) < 127 := by omega
    simp [h, this]

theorem mkSysex_model (cs : Charset) (δ : Nat) (d : List Nat) :
    (modelExt cs).mkSysex (natsToInts d) (δ : Int) =
      if d.all (· ≤ 127) = true then .ok ⟨.msg (.sysex d), δ⟩ else .error .ValueError := by
  simp [modelExt]

theorem src_read_sysex (cs : Charset) (bs : List Nat) (p : Int) (δ : Nat) (clip : Bool) :
    Src.read_sysex (modelExt cs) (mkFile bs p) (δ : Int) clip =
      match readSysex clip bs with
      | .ok (ev, r) => .ok (⟨ev, δ⟩, mkFile r (p + bs.length - r.length))
      | .error e => .error e := by
  unfold Src.read_sysex readSysex
  simp only [bind, Except.bind, pure, Except.pure, src_read_variable_int]
  cases hv : readVlq bs with
  | error e => rfl
  | ok pr =>
    obtain ⟨len, r1⟩ := pr
    simp only [src_read_bytes, Int.toNat_natCast]
    cases hb : readBytes len r1 with
    | error e => rfl
    | ok pr2 =>
      obtain ⟨data, r2⟩ := pr2
      have hpos : p + (bs.length : Int) - (r1.length : Int) + (r1.length : Int) - (r2.length : Int)
          = p + (bs.length : Int) - (r2.length : Int) := by omega
      have e240 : ((240 : Nat) : Int) = 240 := rfl
      have e247 : ((247 : Nat) : Int) = 247 := rfl
      simp only [hpos, stripF0_ints, dropLast_ints]
      cases clip
      · simp only [Bool.false_eq_true, if_false, mkSysex_model]
        cases h : (if (stripF0 data).getLast? = some 247 then (stripF0 data).dropLast else stripF0 data).all (· ≤ 127) <;>
          simp [h, throw, throwThe, MonadExceptOf.throw]
      · simp only [if_true, clip_ints, mkSysex_model]
        cases h : (List.map clipByte
            (if (stripF0 data).getLast? = some 247 then (stripF0 data).dropLast else stripF0 data)).all (· ≤ 127) <;>
          simp [h, throw, throwThe, MonadExceptOf.throw]

/-! ### `read_meta_message` -/

theorem src_read_meta_message (cs : Charset) (bs : List Nat) (p : Int) (δ : Nat) :
    Src.read_meta_message (modelExt cs) (mkFile bs p) (δ : Int) =
      match readMeta cs bs with
      | .ok (ev, r) => .ok (⟨ev, δ⟩, mkFile r (p + bs.length - r.length))
      | .error e => .error e := by
  unfold Src.read_meta_message readMeta
  cases bs with
  | nil => simp [mkFile, natsToInts, readByte, bind, Except.bind]
  | cons ty r0 =>
    have hb : readByte (mkFile (ty :: r0) p) = .ok ((ty : Int), mkFile r0 (p + 1)) := by
      simp [readByte, mkFile, natsToInts]
    simp only [hb, bind, Except.bind, pure, Except.pure, src_read_variable_int]
    cases hv : readVlq r0 with
    | error e => rfl
    | ok pr =>
      obtain ⟨len, r1⟩ := pr
      simp only [src_read_bytes, Int.toNat_natCast]
      cases hd : readBytes len r1 with
      | error e => rfl
      | ok pr2 =>
        obtain ⟨data, r2⟩ := pr2
        have hpos : p + 1 + (r0.length : Int) - (r1.length : Int) + (r1.length : Int) - (r2.length : Int)
            = p + ((ty :: r0).length : Int) - (r2.length : Int) := by
          simp only [List.length_cons]; push_cast; omega
        simp only [hpos, modelExt, Int.toNat_natCast, intsToNats_natsToInts]
        cases hm : buildMeta cs ty data with
        | error e => rfl
        | ok me => cases me <;> rfl

/-! ### `read_message` -/

theorem spec_keys_small : ∀ p ∈ Src.SPEC_BY_STATUS, p.1 < 256 := by decide +kernel

theorem spec_table_get : ∀ s, s < 256 →
    (definedStatus s = true →
      (dictGet Src.SPEC_BY_STATUS (Int.ofNat s)).map (·.length) = .ok (Int.ofNat ((specLen s).getD 0))) ∧
    (definedStatus s = false → dictGet Src.SPEC_BY_STATUS (Int.ofNat s) = .error .KeyError) := by
  decide +kernel

theorem spec_get_big (s : Nat) (h : 256 ≤ s) : dictGet Src.SPEC_BY_STATUS (s : Int) = .error .KeyError := by
  unfold dictGet
  have : Src.SPEC_BY_STATUS.find? (fun p => p.1 == (s : Int)) = none := by
    rw [List.find?_eq_none]
    intro p hp
    have := spec_keys_small p hp
    simp; omega
  rw [this]

theorem defined_small (s : Nat) (h : definedStatus s = true) : s < 256 := by
  by_cases h2 : s < 256
  · exact h2
  · exfalso
    have h3 : ¬ (s = 0xF0) := by omega
    have : specLen s = none := by
      unfold specLen
      have a1 : ¬ (0x80 ≤ s ∧ s < 0xC0) := by omega
      have a2 : ¬ (0xC0 ≤ s ∧ s < 0xE0) := by omega
      have a3 : ¬ (0xE0 ≤ s ∧ s < 0xF0) := by omega
      have a4 : ¬ (s = 0xF1 ∨ s = 0xF3) := by omega
      have a5 : ¬ (s = 0xF2) := by omega
      have a6 : ¬ (s = 0xF6 ∨ s = 0xF8 ∨ s = 0xFA ∨ s = 0xFB ∨ s = 0xFC ∨ s = 0xFE ∨ s = 0xFF) := by omega
      simp only [a1, a2, a3, a4, a5, a6, if_false]
    simp [definedStatus, this, h3] at h

theorem bytes_check_loop (F : Int → PUnit → Except Err (ForInStep PUnit))
    (hF : ∀ b s, F b s = if decide (b > 127) = true then .error .OSError else .ok (.yield PUnit.unit)) :
    ∀ data : List Nat, forIn (natsToInts data) PUnit.unit F =
      if data.any (· > 127) = true then .error .OSError else .ok PUnit.unit
  | [] => by simp [natsToInts, pure, Except.pure]
  | b :: r => by
    have ih := bytes_check_loop F hF r
    simp only [natsToInts] at ih
    simp only [natsToInts, List.map_cons, List.forIn_cons, hF, List.any_cons]
    by_cases hb : b > 127
    · have : (b : Int) > 127 := by omega
      simp [hb, this, bind, Except.bind]
    · have : ¬ (b : Int) > 127 := by omega
      have e : ((Int.ofNat b) > 127) = ((b : Int) > 127) := rfl
      simp only [e, hb, this, decide_false, Bool.false_eq_true, if_false, bind, Except.bind, Bool.false_or]
      exact ih

theorem fromBytes_model (cs : Charset) (δ : Nat) (status : Nat) (d : List Nat) :
    (modelExt cs).fromBytes ([(status : Int)] ++ natsToInts d) (δ : Int) =
      match decodeNats (status :: d) with
      | .ok m => .ok ⟨.msg m, δ⟩
      | .error e => .error e := by
  have : intsToNats ([(status : Int)] ++ natsToInts d) = status :: d := by
    have := intsToNats_natsToInts (status :: d)
    simpa [natsToInts] using this
  simp only [modelExt, this, Int.toNat_natCast]

theorem forIn_bytes_check (l : List Int) (F : Int → PUnit → Except Err (ForInStep PUnit))
    (hF : ∀ b s, F b s = if decide (b > 127) = true then .error .OSError else .ok (.yield PUnit.unit)) :
    forIn l PUnit.unit F =
      forIn l PUnit.unit (fun b _ => if decide (b > 127) = true then .error .OSError else .ok (.yield PUnit.unit)) := by
  have : F = _ := funext fun b => funext fun s => hF b s
  rw [this]

/-- `readChannelish` with the length written as `getD` (the same function: the `match` is decided) -/
theorem readChannelish_eq (clip : Bool) (status : Nat) (peek bs : List Nat) :
    readChannelish clip status peek bs =
      if !definedStatus status then .error .OSError else
      let size := (specLen status).getD 0 - 1 - peek.length
      if bs.length < size then .error .EOFError else
      let data := peek ++ bs.take size
      let rest := bs.drop size
      let data' := if clip then data.map clipByte else data
      if !clip && data.any (· > 127) then .error .OSError else
      match decodeNats (status :: data') with
      | .ok m => .ok (.msg m, rest)
      | .error e => .error e := by
  unfold readChannelish
  cases specLen status <;> rfl

theorem src_read_message (cs : Charset) (bs : List Nat) (p : Int) (status : Nat) (peek : List Nat) (δ : Nat)
    (clip : Bool) :
    Src.read_message (modelExt cs) (mkFile bs p) (status : Int) (natsToInts peek) (δ : Int) clip =
      match readChannelish clip status peek bs with
      | .ok (ev, r) => .ok (⟨ev, δ⟩, mkFile r (p + bs.length - r.length))
      | .error e => .error e := by
  rw [readChannelish_eq]
  unfold Src.read_message
  by_cases hdef : definedStatus status = true
  · have hsmall := defined_small status hdef
    have hget := (spec_table_get status hsmall).1 hdef
    simp only [Int.ofNat_eq_natCast] at hget
    cases hg : dictGet Src.SPEC_BY_STATUS (status : Int) with
    | error e => simp [hg, Except.map] at hget
    | ok row =>
      have hlen : row.length = (((specLen status).getD 0 : Nat) : Int) := by simpa [hg, Except.map] using hget
      have hL3 : (specLen status).getD 0 ≤ 3 := by
        unfold specLen
        split
        · simp
        · split
          · simp
          · split
            · simp
            · split
              · simp
              · split
                · simp
                · split <;> simp
      generalize hL : (specLen status).getD 0 = L at hlen hL3
      simp only [hdef, Bool.not_true, Bool.false_eq_true, if_false]
      simp only [hg, mapErr, bind, Except.bind, pure, Except.pure, hlen, src_read_bytes]
      have hsize : ((L : Int) - 1 - len (natsToInts peek)).toNat = L - 1 - peek.length := by
        simp only [len, natsToInts, List.length_map]; omega
      have hsmallsize : ¬ (L - 1 - peek.length > maxMessageLength) := by
        simp [maxMessageLength]; omega
      simp only [hsize, readBytes, hsmallsize, if_false]
      by_cases hshort : bs.length < L - 1 - peek.length
      · simp [hshort]
      · simp only [hshort, if_false]
        have hl : (bs.drop (L - 1 - peek.length)).length = bs.length - (L - 1 - peek.length) := by simp
        cases clip
        · simp only [Bool.false_eq_true, if_false, Bool.not_false, Bool.true_and]
          rw [forIn_bytes_check]
          case hF => intro b s; rfl
          have hcat : natsToInts peek ++ natsToInts (bs.take (L - 1 - peek.length))
              = natsToInts (peek ++ bs.take (L - 1 - peek.length)) := by simp [natsToInts]
          rw [hcat, bytes_check_loop _ (fun _ _ => rfl)]
          by_cases hany : (peek ++ bs.take (L - 1 - peek.length)).any (· > 127) = true
          · simp [hany]
          · simp only [hany, Bool.false_eq_true, if_false, fromBytes_model]
            cases decodeNats (status :: (peek ++ bs.take (L - 1 - peek.length))) <;> rfl
        · simp only [if_true, Bool.not_true, Bool.false_and, Bool.false_eq_true, if_false]
          have hcat : natsToInts peek ++ natsToInts (bs.take (L - 1 - peek.length))
              = natsToInts (peek ++ bs.take (L - 1 - peek.length)) := by simp [natsToInts]
          rw [hcat, clip_ints, fromBytes_model]
          cases decodeNats (status :: (peek ++ bs.take (L - 1 - peek.length)).map clipByte) <;> rfl
  · have hdef' : definedStatus status = false := by simpa using hdef
    have hget : dictGet Src.SPEC_BY_STATUS (status : Int) = .error .KeyError := by
      by_cases hs : status < 256
      · have := (spec_table_get status hs).2 hdef'
        simpa using this
      · exact spec_get_big status (by omega)
    simp [hdef', hget, mapErr, bind, Except.bind, throw, throwThe, MonadExceptOf.throw]

end Mido
