import MidoModel.Codec
import MidoModel.MsgObj
import MidoModel.Generated.SrcCodec
import MidoProofs.SrcTie.Basic
set_option linter.unusedSimpArgs false
/-!
  Source tie, message codec: the definitions that `harness/py2lean.py` generated from the text of
  `mido/messages/encode.py`, `decode.py` and `checks.py` in the working tree compute what the
  hand-written model (`Mido.encode`, `Mido.buildMsg`, `Mido.checkRange`) computes.
-/
namespace Mido
open Mido.Py

def natsToInts (xs : List Nat) : List Int := xs.map Int.ofNat

/-- None or a natural number as Python's None or int -/
def optInt (r : Option Nat) : Option Int := r.map Int.ofNat

/-! ### encode.py -/

theorem src_encode_pitchwheel (ch : Nat) (p : Int) (h : -8192 ≤ p) :
    Src._encode_pitchwheel p ch = .ok (natsToInts (encode (.pitchwheel ch p))) := by
  obtain ⟨q, hq⟩ := Int.eq_ofNat_of_zero_le (show 0 ≤ p - (-8192) by omega)
  simp only [Src._encode_pitchwheel, encode, natsToInts, hq, pure, Except.pure, bind, Except.bind]
  simp

theorem src_encode_sysex (d : List Nat) :
    Src._encode_sysex (natsToInts d) = .ok (natsToInts (encode (.sysex d))) := by
  simp [Src._encode_sysex, encode, natsToInts, pure, Except.pure]

theorem src_encode_quarter_frame (ft fv : Nat) :
    Src._encode_quarter_frame ft fv = .ok (natsToInts (encode (.quarter_frame ft fv))) := by
  simp [Src._encode_quarter_frame, encode, natsToInts, pure, Except.pure]

theorem src_encode_songpos (p : Nat) :
    Src._encode_songpos p = .ok (natsToInts (encode (.songpos p))) := by
  simp [Src._encode_songpos, encode, natsToInts, pure, Except.pure]

theorem src_encode_note_off (ch n v : Nat) :
    Src._encode_note_off ch n v = .ok (natsToInts (encode (.chan3 .note_off ch n v))) := by
  simp [Src._encode_note_off, encode, natsToInts, pure, Except.pure, C3.base]

theorem src_encode_note_on (ch n v : Nat) :
    Src._encode_note_on ch n v = .ok (natsToInts (encode (.chan3 .note_on ch n v))) := by
  simp [Src._encode_note_on, encode, natsToInts, pure, Except.pure, C3.base]

theorem src_encode_control_change (ch c v : Nat) :
    Src._encode_control_change ch c v = .ok (natsToInts (encode (.chan3 .control_change ch c v))) := by
  simp [Src._encode_control_change, encode, natsToInts, pure, Except.pure, C3.base]

/-- which message types have a dedicated encoder (`_SPECIAL_CASES` of encode.py, as read from the
    working tree); every other type goes through the generic `status | channel` + value list path -/
theorem src_encode_dispatch : Src.ENCODE_SPECIAL_CASES =
    [("control_change", "_encode_control_change"), ("note_off", "_encode_note_off"),
     ("note_on", "_encode_note_on"), ("pitchwheel", "_encode_pitchwheel"),
     ("quarter_frame", "_encode_quarter_frame"), ("songpos", "_encode_songpos"),
     ("sysex", "_encode_sysex")] := by decide

/-! ### decode.py: the dedicated decoders against `buildMsg` -/

/-- which status bytes have a dedicated decoder (`_SPECIAL_CASES` of decode.py) -/
theorem src_decode_dispatch : Src.DECODE_SPECIAL_CASES =
    ((List.range 16).map (fun i => (0xe0 + i, "_decode_pitchwheel_data"))) ++
    [(0xf0, "_decode_sysex_data"), (0xf1, "_decode_quarter_frame_data"), (0xf2, "_decode_songpos_data")] := by
  decide


theorem src_decode_sysex_data (d : List Int) : Src._decode_sysex_data d = .ok d := by
  simp [Src._decode_sysex_data, pure, Except.pure]

theorem src_decode_quarter_frame (d1 : Nat) :
    ∃ ft fv : Nat, buildMsg 0xf1 true [d1] = .ok (.quarter_frame ft fv) ∧
      Src._decode_quarter_frame_data [(d1 : Int)] = .ok ((ft : Int), (fv : Int)) := by
  refine ⟨d1 >>> 4, d1 &&& 15, by simp [buildMsg], ?_⟩
  simp [Src._decode_quarter_frame_data, pure, Except.pure, bind, Except.bind]

theorem src_decode_songpos (d1 d2 : Nat) :
    ∃ p : Nat, buildMsg 0xf2 true [d1, d2] = .ok (.songpos p) ∧
      Src._decode_songpos_data [(d1 : Int), (d2 : Int)] = .ok (p : Int) := by
  refine ⟨d1 ||| (d2 <<< 7), by simp [buildMsg], ?_⟩
  simp [Src._decode_songpos_data, pure, Except.pure, bind, Except.bind]

theorem src_decode_pitchwheel (s d1 d2 : Nat) (h1 : 0xE0 ≤ s) (h2 : s < 0xF0) :
    ∃ p : Int, buildMsg s true [d1, d2] = .ok (.pitchwheel (s &&& 0x0f) p) ∧
      Src._decode_pitchwheel_data [(d1 : Int), (d2 : Int)] = .ok p := by
  refine ⟨pyLor (d1 : Int) (((d2 : Int) <<< 7) + (-8192)), ?_, ?_⟩
  · have a : ¬ s < 0x90 := by omega
    have b : ¬ s < 0xa0 := by omega
    have c : ¬ s < 0xb0 := by omega
    have d : ¬ s < 0xc0 := by omega
    simp [buildMsg, h2, a, b, c, d]
  · simp [Src._decode_pitchwheel_data, pure, Except.pure, bind, Except.bind, shlN, Int.shiftLeft_eq]

/-- the dedicated decoders on data of the wrong length (the length guard of `decode_message`,
    repaired for F1, is what keeps these from being reached) -/
theorem src_decode_short :
    Src._decode_songpos_data [1] = .error .IndexError ∧
    Src._decode_pitchwheel_data [1] = .error .IndexError ∧
    Src._decode_quarter_frame_data [] = .error .IndexError := by
  refine ⟨?_, ?_, ?_⟩ <;> simp [Src._decode_songpos_data, Src._decode_pitchwheel_data,
    Src._decode_quarter_frame_data, idx, bind, Except.bind]

/-! ### checks.py -/

theorem range_form (lo hi n : Int) (e : Except Err Unit)
    (h1 : lo ≤ n ∧ n ≤ hi → e = .ok ()) (h2 : ¬ (lo ≤ n ∧ n ≤ hi) → e = .error .ValueError) :
    e = checkRange (.int n) lo hi := by
  simp only [checkRange]; by_cases h : lo ≤ n ∧ n ≤ hi
  · rw [h1 h, if_pos h]
  · rw [h2 h, if_neg h]

/-- a generated range check equals the model's `checkRange`: decided semantically (both branches by
    `omega`), so that re-arranged comparisons in the source keep the proof -/
macro "src_range" f:ident : tactic => `(tactic| (
  apply range_form <;> intro h <;>
  simp [$f:ident, pure, Except.pure, bind, Except.bind, throw, throwThe, MonadExceptOf.throw, h] <;>
  first | rfl | omega | (intros; omega) | (split <;> first | rfl | omega | (exfalso; omega))))

theorem src_check_channel (n : Int) : Src.check_channel n = checkRange (.int n) 0 15 := by
  src_range Src.check_channel
theorem src_check_pos (n : Int) : Src.check_pos n = checkRange (.int n) 0 16383 := by
  src_range Src.check_pos
theorem src_check_pitch (n : Int) : Src.check_pitch n = checkRange (.int n) (-8192) 8191 := by
  src_range Src.check_pitch
theorem src_check_frame_type (n : Int) : Src.check_frame_type n = checkRange (.int n) 0 7 := by
  src_range Src.check_frame_type
theorem src_check_frame_value (n : Int) : Src.check_frame_value n = checkRange (.int n) 0 15 := by
  src_range Src.check_frame_value
theorem src_check_data_byte (n : Int) : Src.check_data_byte n = checkRange (.int n) 0 127 := by
  src_range Src.check_data_byte

theorem src_check_data (xs : List Int) : Src.check_data xs = checkDataItems (xs.map Item.int) := by
  simp only [Src.check_data]
  induction xs with
  | nil => simp [checkDataItems, pure, Except.pure, bind, Except.bind]
  | cons x r ih =>
    simp only [List.forIn_cons, List.map_cons, checkDataItems, checkDataItem]
    have hx := src_check_data_byte x
    simp only [checkRange] at hx
    by_cases h : 0 ≤ x ∧ x ≤ 127
    · simp only [h, and_self, if_true] at hx ⊢
      simp only [hx, bind, Except.bind] at ih ⊢
      exact ih
    · simp only [h, if_false] at hx ⊢
      simp [hx, bind, Except.bind]

/-- `_CHECKS`: which check function guards which attribute name, as read from the working tree,
    is what the model's `checkAttr` implements (on integer values; other kinds are `TypeError`
    on both sides by the `isinstance` guard, which the translator resolves by type) -/
theorem src_checks_table :
    Src._CHECKS = [("channel", "check_channel"), ("control", "check_data_byte"), ("data", "check_data"),
      ("frame_type", "check_frame_type"), ("frame_value", "check_frame_value"), ("note", "check_data_byte"),
      ("pitch", "check_pitch"), ("pos", "check_pos"), ("program", "check_data_byte"),
      ("song", "check_data_byte"), ("time", "check_time"), ("type", "check_type"),
      ("value", "check_data_byte"), ("velocity", "check_data_byte")] := by decide

theorem src_checkAttr_int (n : Int) :
    checkAttr "channel" (.int n) = Src.check_channel n ∧
    checkAttr "pitch" (.int n) = Src.check_pitch n ∧
    checkAttr "pos" (.int n) = Src.check_pos n ∧
    checkAttr "frame_type" (.int n) = Src.check_frame_type n ∧
    checkAttr "frame_value" (.int n) = Src.check_frame_value n ∧
    (∀ name ∈ ["control", "note", "program", "song", "value", "velocity"],
      checkAttr name (.int n) = Src.check_data_byte n) := by
  simp only [src_check_channel, src_check_pitch, src_check_pos, src_check_frame_type,
    src_check_frame_value, src_check_data_byte]
  refine ⟨by simp [checkAttr], by simp [checkAttr], by simp [checkAttr], by simp [checkAttr],
    by simp [checkAttr], ?_⟩
  intro name h
  simp only [List.mem_cons, List.mem_nil_iff, or_false] at h
  rcases h with h | h | h | h | h | h <;> subst h <;> simp [checkAttr]

end Mido
