/-
  C04 and C06 restated about the Parser class translated from the source text: a fresh translated `Parser`, fed any bytes in
  one call, never raises, holds valid messages whose encodings are the tokens of the input, and recognises a complete
  message after any prefix (`src_fresh_feed` of the syx tie composed with the property theorems).
-/
import MidoProofs.SrcTie.Syx
import MidoProofs.Props.C04
import MidoProofs.Props.C06
set_option linter.unusedSimpArgs false
namespace Mido
open Mido.Py

/-- the queue of a fresh translated Parser after one `feed` -/
def srcParse (bs : List Nat) : Except Err (List Msg) :=
  (Src.Parser.feed parserExt ({ messages := [], _tok := {} } : Src.Parser Msg) (natsToInts bs)).map (·.messages)

theorem srcParse_eq (bs : List Nat) (h : ∀ b ∈ bs, b < 256) : srcParse bs = parseAll bs := by
  unfold srcParse
  rw [src_fresh_feed bs h]
  cases parseAll bs <;> rfl

/-- **C04 about the translated Parser**: any bytes 0..255 — no exception, every message valid, the encodings of the messages
    are the tokens of the input in order; each defined real-time byte gives exactly one real-time message; the bytes of the
    other messages form a subsequence of the input -/
theorem src_parser_total (bs : List Nat) (h : ∀ b ∈ bs, b < 256) :
    ∃ ms, srcParse bs = .ok ms ∧ (∀ m ∈ ms, m.Valid) ∧ ms.map encode = tokenize bs ∧
      (ms.filter Msg.isRealtime).map encode = (bs.filter definedRt).map (fun b => [b]) ∧
      List.Sublist ((ms.filter (fun m => !m.isRealtime)).map encode).flatten (bs.filter (fun b => !isRtByte b)) := by
  obtain ⟨ms, hp, hv, he⟩ := C04_total bs h
  exact ⟨ms, by rw [srcParse_eq bs h, hp], hv, he, C04_realtime bs h ms hp, C04_subseq bs h ms hp⟩

theorem encode_all_lt (ms : List Msg) (h : ∀ m ∈ ms, m.Valid) : ∀ b ∈ ms.flatMap encode, b < 256 := by
  intro b hb
  obtain ⟨m, hm, hbm⟩ := List.mem_flatMap.mp hb
  exact encode_bytes_lt m (h m hm) b hbm

/-- **C06 about the translated Parser**: after any prefix a complete message is recognised; a concatenation of encodings
    parses back to the same list -/
theorem src_parser_resync (P : List Nat) (hP : ∀ b ∈ P, b < 256) (m : Msg) (h : m.Valid) (ms : List Msg) (hms : ∀ m ∈ ms, m.Valid) :
    srcParse (P ++ encode m) = .ok (parsed P ++ [m]) ∧ srcParse (ms.flatMap encode) = .ok ms := by
  constructor
  · rw [srcParse_eq _ (by
      intro b hb
      rcases List.mem_append.mp hb with hb | hb
      · exact hP b hb
      · exact encode_bytes_lt m h b hb)]
    exact C06_prefix P hP m h
  · rw [srcParse_eq _ (encode_all_lt ms hms)]
    exact C06_concat ms hms

/-- real-time bytes inside a sysex message are delivered ahead of it and the payload is unchanged -/
theorem src_parser_sysex_rt (P : List Nat) (hP : ∀ b ∈ P, b < 256) (xs : List Nat)
    (hx : ∀ x ∈ xs, x < 128 ∨ (0xF8 ≤ x ∧ x < 256)) :
    srcParse (P ++ ([0xF0] ++ xs ++ [0xF7])) =
      .ok (parsed P ++ (xs.filter definedRt).map rtMsg ++ [.sysex (xs.filter (· < 128))]) := by
  rw [srcParse_eq _ (by
    intro b hb
    simp only [List.mem_append, List.mem_cons, List.mem_nil_iff, or_false] at hb
    rcases hb with hb | (rfl | hb) | rfl
    · exact hP b hb
    · omega
    · rcases hx b hb with h | h <;> omega
    · omega)]
  exact C06_sysex_rt P hP xs hx

example : srcParse [0x90, 1, 0xF8, 2, 0xF0, 5, 0xFA, 6, 0xF7, 0x33] = .ok [.sys1 .clock, .sys1 .start, .sysex [5, 6]] := by
  decide +kernel

end Mido
