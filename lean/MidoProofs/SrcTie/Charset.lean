/-
  Source tie for the charset scope of mido/midifiles/meta.py: the context manager `meta_charset` (a generator with
  `try: yield finally:` that rebinds a module global), translated from the source text, is scoped for every block, and
  is the model's `withCharset`.
-/
import MidoModel.Generated.SrcCharset
import MidoModel.CharsetScope
import MidoProofs.Props.C17
set_option linter.unusedSimpArgs false
namespace Mido
open Mido.Py

/-- the translated context manager, computed: the block runs with the temporary charset in force, and whatever it does —
    return, raise, rebind the global itself — the charset in force afterwards is the one from before -/
theorem src_meta_charset {α : Type} (c : String) (body : PM Src.MetaGlobals α) (g : Src.MetaGlobals) :
    Src.meta_charset c body g = ((body { g with _charset := c }).1, { (body { g with _charset := c }).2 with _charset := g._charset }) := by
  simp only [Src.meta_charset, bind, PM.bind', get, getThe, MonadStateOf.get, modify, modifyGet, MonadStateOf.modifyGet,
    PM.tryFinally']

/-- **Scoped**, for every block (raising or not, itself rebinding the global or not) and every nesting -/
theorem src_meta_charset_scoped {α : Type} (c : String) (body : PM Src.MetaGlobals α) (g : Src.MetaGlobals) :
    (Src.meta_charset c body g).2._charset = g._charset := by
  rw [src_meta_charset]

/-- a block that encodes or decodes with the charset in force (and does not rebind it) -/
def readCs {α : Type} (f : String → Except Err α) : PM Src.MetaGlobals α := fun s => (f s._charset, s)

/-- the block sees the temporary charset, the caller's state is untouched -/
theorem src_meta_charset_inner {α : Type} (c : String) (f : String → Except Err α) (g : Src.MetaGlobals) :
    Src.meta_charset c (readCs f) g = (f c, g) := by
  rw [src_meta_charset]; rfl

/-- nested scopes: inside the inner one its charset is in force, after it the outer one again, after both the original -/
theorem src_meta_charset_nested {α : Type} (c1 c2 : String) (f : String → Except Err α) (g : Src.MetaGlobals) :
    Src.meta_charset c1 (do
        let a ← Src.meta_charset c2 (readCs f)
        let b ← readCs f
        pure (a, b)) g
      = ((do let a ← f c2; let b ← f c1; pure (a, b)), g) := by
  rw [src_meta_charset]
  simp only [bind, PM.bind', src_meta_charset_inner, pure, PM.pure', Except.bind, Except.pure, readCs]
  cases h2 : f c2 <;> cases h1 : f c1 <;> simp [h1, h2]

/-- the charset names the library and the model use -/
def csName : Charset → String | .latin1 => "latin1" | .ascii => "ascii" | .utf8 => "utf-8"
def csOfName (s : String) : Charset := if s = "ascii" then .ascii else if s = "utf-8" then .utf8 else .latin1
theorem csOfName_csName (c : Charset) : csOfName (csName c) = c := by cases c <;> rfl

/-- the model's `withCharset` is the translated context manager around a block that reads the charset -/
theorem src_withCharset {α : Type} (g : GState) (c : Charset) (body : GState → Except Err α) :
    (⟨csOfName (Src.meta_charset (csName c) (readCs fun s => body ⟨csOfName s⟩) ⟨csName g.charset⟩).2._charset⟩,
      (Src.meta_charset (csName c) (readCs fun s => body ⟨csOfName s⟩) ⟨csName g.charset⟩).1) = withCharset g c body := by
  simp only [src_meta_charset_inner, withCharset, csOfName_csName]

example : Src.meta_charset "utf-8" (readCs fun s => if s = "utf-8" then .error .UnicodeError else .ok s) ⟨"latin1"⟩ =
    (.error .UnicodeError, ⟨"latin1"⟩) := by decide +kernel

end Mido
