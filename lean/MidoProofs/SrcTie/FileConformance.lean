/-
  The reader / writer ties and the C08 theorems composed: conformance with the Standard MIDI File format in both
  directions, stated about the functions translated from the source text.
-/
import MidoProofs.SrcTie.FileRoundTrip
import MidoProofs.Props.C08
set_option linter.unusedSimpArgs false
namespace Mido
open Mido.Py

/-- **C08, read direction, at the level of the source text**: EVERY standard-conformant encoding of a file (any mix of
    running status, delta times and lengths padded at will, longer header chunks — the relation `EncFile`) is loaded by
    the translated `MidiFile._load` to exactly that file, with clip on or off -/
theorem src_load_any_encoding (cs : Charset) (f : LFile) (bytes : List Nat) (h : EncFile cs f bytes) (clip : Bool)
    (ty0 tpb0 : Int) :
    (Src.MidiFile._load (modelExt cs) ty0 tpb0 [] clip (mkFile bytes 0)).map
        (fun r => (r.1, r.2.1, r.2.2.1, r.2.2.2.1)) = .ok (f.type, f.tpb, f.tracks, clip) := by
  have hl := src_load cs clip bytes ty0 tpb0 []
  rw [C08_read_any cs f bytes h clip] at hl
  simpa using hl

/-- **C08, write direction, at the level of the source text**: what the translated `MidiFile.save` writes for a storable
    file is a member of the encoding relation for the in-memory header and `fix_end_of_track` of every track -/
theorem src_save_conforms (cs : Charset) (f : MFile) (hs : StorableFile cs f) (bytes : List Nat)
    (hw : writeFile cs f = .ok bytes) :
    Src.MidiFile.save f.type (f.tracks.map (·.map (TEvent.toW cs))) f.tpb [] = .ok ((), natsToInts bytes) ∧
    EncFile cs ⟨f.type, f.tpb, f.tracks.map normTrack⟩ bytes :=
  ⟨(src_save_load cs f hs bytes hw 0 0).1, C08_write_conforms cs f hs bytes hw⟩
end Mido
