import MidoModel.Meta
import MidoModel.Generated.SrcMetaNum
import MidoProofs.SrcTie.Basic
import MidoProofs.SrcTie.Codec
set_option linter.unusedSimpArgs false
/-!
  Source tie, meta messages: the payload arithmetic generated from the text of
  `mido/midifiles/meta.py` (the `encode` / `decode` / `check` methods of the numeric `MetaSpec_*`
  classes and `check_int`) against the model's `metaPayload`, `metaDecodePayload`, `checkInt`.
-/
namespace Mido
open Mido.Py

theorem src_check_int (v lo hi : Int) : Src.check_int v lo hi = checkInt (.int v) lo hi := by
  have : checkInt (.int v) lo hi = checkRange (.int v) lo hi := rfl
  rw [this]
  src_range Src.check_int

/-! ### encode -/

theorem src_meta_sequence_number_encode (n : Nat) :
    Src.MetaSpec_sequence_number.encode n =
      (metaPayload .latin1 ⟨.sequence_number, [.nat n]⟩).map natsToInts := by
  simp [Src.MetaSpec_sequence_number.encode, metaPayload, PyVal.nat, natOf, intOf, natsToInts, Except.map,
    pure, Except.pure, -Int.natCast_shiftRight, -Int.natCast_shiftLeft]

theorem src_meta_channel_prefix_encode (n : Nat) :
    Src.MetaSpec_channel_prefix.encode n =
      (metaPayload .latin1 ⟨.channel_prefix, [.nat n]⟩).map natsToInts := by
  simp [Src.MetaSpec_channel_prefix.encode, metaPayload, PyVal.nat, natOf, intOf, natsToInts, Except.map,
    pure, Except.pure, -Int.natCast_shiftRight, -Int.natCast_shiftLeft]

theorem src_meta_midi_port_encode (n : Nat) :
    Src.MetaSpec_midi_port.encode n =
      (metaPayload .latin1 ⟨.midi_port, [.nat n]⟩).map natsToInts := by
  simp [Src.MetaSpec_midi_port.encode, metaPayload, PyVal.nat, natOf, intOf, natsToInts, Except.map,
    pure, Except.pure, -Int.natCast_shiftRight, -Int.natCast_shiftLeft]

theorem src_meta_set_tempo_encode (n : Nat) :
    Src.MetaSpec_set_tempo.encode n =
      (metaPayload .latin1 ⟨.set_tempo, [.nat n]⟩).map natsToInts := by
  simp [Src.MetaSpec_set_tempo.encode, metaPayload, PyVal.nat, natOf, intOf, natsToInts, Except.map,
    pure, Except.pure, -Int.natCast_shiftRight, -Int.natCast_shiftLeft]

theorem log2_eq_log2Nat : ∀ n : Nat, Nat.log2 n = log2Nat n := by
  intro n
  induction n using Nat.strongRecOn with
  | _ n ih =>
    match n with
    | 0 => simp [log2Nat]
    | 1 => rw [Nat.log2_def]; simp [log2Nat]
    | k + 2 =>
      rw [log2Nat, Nat.log2_def]
      have h : 2 ≤ k + 2 := by omega
      simp only [h, if_true]
      rw [ih ((k + 2) / 2) (by omega)]
      omega

theorem bitLength_sub_one (d : Nat) (h : 0 < d) : bitLength (d : Int) - 1 = (log2Nat d : Nat) := by
  have : d ≠ 0 := by omega
  simp [bitLength, this, log2_eq_log2Nat]

/-- `time_signature`: `denominator.bit_length() - 1` is the exponent the model writes -/
theorem src_meta_time_signature_encode (n d c b : Nat) (hd : 0 < d) :
    Src.MetaSpec_time_signature.encode n d c b =
      (metaPayload .latin1 ⟨.time_signature, [.nat n, .nat d, .nat c, .nat b]⟩).map natsToInts := by
  simp [Src.MetaSpec_time_signature.encode, metaPayload, PyVal.nat, natOf, intOf, natsToInts, Except.map,
    pure, Except.pure, bitLength_sub_one d hd]

/-! ### check -/

theorem src_meta_checks (name : String) (v : Int) :
    Src.MetaSpec_sequence_number.check name v = metaCheckAttr .sequence_number 0 (.int v) ∧
    Src.MetaSpec_channel_prefix.check name v = metaCheckAttr .channel_prefix 0 (.int v) ∧
    Src.MetaSpec_midi_port.check name v = metaCheckAttr .midi_port 0 (.int v) ∧
    Src.MetaSpec_set_tempo.check name v = metaCheckAttr .set_tempo 0 (.int v) := by
  refine ⟨?_, ?_, ?_, ?_⟩ <;>
  simp only [Src.MetaSpec_sequence_number.check, Src.MetaSpec_channel_prefix.check,
    Src.MetaSpec_midi_port.check, Src.MetaSpec_set_tempo.check, metaCheckAttr, src_check_int] <;>
  (cases h : checkInt (PyVal.int v) _ _ <;> simp [h, bind, Except.bind, pure, Except.pure])

/-! ### decode -/

theorem src_meta_sequence_number_decode (old : Int) (data : List Nat) :
    (Src.MetaSpec_sequence_number.decode old (natsToInts data)).map (fun v => [PyVal.int v]) =
      metaDecodePayload .latin1 .sequence_number data := by
  match data with
  | [] => simp [Src.MetaSpec_sequence_number.decode, metaDecodePayload, natsToInts, Py.len, Except.map,
      pure, Except.pure, bind, Except.bind]
  | [a] => simp [Src.MetaSpec_sequence_number.decode, metaDecodePayload, natsToInts, Py.len, Except.map,
      pure, Except.pure, bind, Except.bind, idx]
  | a :: b :: r =>
    have : ¬ ((r.length : Int) + 1 + 1 = 0) := by omega
    simp [this, Src.MetaSpec_sequence_number.decode, metaDecodePayload, natsToInts, Py.len, Except.map,
      pure, Except.pure, bind, Except.bind, PyVal.nat, -Int.natCast_shiftRight, -Int.natCast_shiftLeft]

theorem src_meta_channel_prefix_decode (old : Int) (data : List Nat) :
    (Src.MetaSpec_channel_prefix.decode old (natsToInts data)).map (fun v => [PyVal.int v]) =
      metaDecodePayload .latin1 .channel_prefix data := by
  match data with
  | [] => simp [Src.MetaSpec_channel_prefix.decode, metaDecodePayload, natsToInts, Except.map,
      pure, Except.pure, bind, Except.bind]
  | a :: r => simp [Src.MetaSpec_channel_prefix.decode, metaDecodePayload, natsToInts, Except.map,
      pure, Except.pure, bind, Except.bind, PyVal.nat]

theorem src_meta_midi_port_decode (old : Int) (data : List Nat) :
    (Src.MetaSpec_midi_port.decode old (natsToInts data)).map (fun v => [PyVal.int v]) =
      metaDecodePayload .latin1 .midi_port data := by
  match data with
  | [] => simp [Src.MetaSpec_midi_port.decode, metaDecodePayload, natsToInts, Py.len, Except.map,
      pure, Except.pure, bind, Except.bind]
  | a :: r =>
    have : ¬ ((r.length : Int) + 1 = 0) := by omega
    simp [this, Src.MetaSpec_midi_port.decode, metaDecodePayload, natsToInts, Py.len, Except.map,
      pure, Except.pure, bind, Except.bind, PyVal.nat]

theorem src_meta_set_tempo_decode (old : Int) (data : List Nat) :
    (Src.MetaSpec_set_tempo.decode old (natsToInts data)).map (fun v => [PyVal.int v]) =
      metaDecodePayload .latin1 .set_tempo data := by
  match data with
  | [] | [a] | [a, b] => simp [Src.MetaSpec_set_tempo.decode, metaDecodePayload, natsToInts, Except.map,
      pure, Except.pure, bind, Except.bind, idx]
  | a :: b :: c :: r => simp [Src.MetaSpec_set_tempo.decode, metaDecodePayload, natsToInts, Except.map,
      pure, Except.pure, bind, Except.bind, PyVal.nat, -Int.natCast_shiftRight, -Int.natCast_shiftLeft]

/-- `time_signature`: `2 ** data[1]` -/
theorem src_meta_time_signature_decode (o1 o2 o3 o4 : Int) (data : List Nat) :
    (Src.MetaSpec_time_signature.decode o1 o2 o3 o4 (natsToInts data)).map
        (fun v => [PyVal.int v.1, .int v.2.1, .int v.2.2.1, .int v.2.2.2]) =
      metaDecodePayload .latin1 .time_signature data := by
  have hb : ∀ b : Nat, ¬ ((b : Int) < 0) := by intro b; omega
  match data with
  | [] | [a] | [a, b] | [a, b, c] => simp [hb, Src.MetaSpec_time_signature.decode, metaDecodePayload, natsToInts,
      Except.map, pure, Except.pure, bind, Except.bind, idx, Py.pow]
  | a :: b :: c :: d :: r =>
    simp [hb, Src.MetaSpec_time_signature.decode, metaDecodePayload, natsToInts, Except.map,
      pure, Except.pure, bind, Except.bind, PyVal.nat, Py.pow]

/-! ### the power-of-two test of `time_signature` (`value & (value - 1)`) -/

theorem testBit_top (x k : Nat) (h1 : 2 ^ k ≤ x) (h2 : x < 2 ^ (k + 1)) : x.testBit k = true := by
  rw [Nat.testBit_eq_decide_div_mod_eq]
  have : x / 2 ^ k = 1 := Nat.div_eq_of_lt_le (by omega) (by rw [Nat.pow_succ] at h2; omega)
  simp [this]

/-- `n & (n - 1) == 0` exactly for the powers of two (n ≥ 1): the bit trick of the source is the model's exact test -/
theorem and_pred_eq_zero_iff (n : Nat) (h : 0 < n) : n &&& (n - 1) = 0 ↔ 2 ^ Nat.log2 n = n := by
  have hn : n ≠ 0 := by omega
  have hle := Nat.log2_self_le hn
  have hlt := @Nat.lt_log2_self n
  constructor
  · intro hz
    by_cases heq : 2 ^ Nat.log2 n = n
    · exact heq
    · exfalso
      have h1 : 2 ^ Nat.log2 n ≤ n - 1 := by omega
      have h2 : n - 1 < 2 ^ (Nat.log2 n + 1) := by omega
      have b1 := testBit_top n _ hle hlt
      have b2 := testBit_top (n - 1) _ h1 h2
      have := Nat.testBit_and n (n - 1) (Nat.log2 n)
      rw [hz, Nat.zero_testBit, b1, b2] at this
      simp at this
  · intro heq
    have : n &&& (2 ^ Nat.log2 n - 1) = n % 2 ^ Nat.log2 n := Nat.and_two_pow_sub_one_eq_mod n _
    rw [heq] at this
    rw [this, Nat.mod_self]

theorem isPow2_iff (n : Nat) (h : 0 < n) : isPow2 n = true ↔ n &&& (n - 1) = 0 := by
  rw [and_pred_eq_zero_iff n h, log2_eq_log2Nat]
  have hn : n ≠ 0 := by omega
  simp [isPow2, hn]

/-- `MetaSpec_time_signature.check`: range checks and the power-of-two test -/
theorem src_meta_time_signature_check (v : Int) :
    Src.MetaSpec_time_signature.check "denominator" v = metaCheckAttr .time_signature 1 (.int v) ∧
    (∀ name i, name ≠ "denominator" → i ≠ 1 →
      Src.MetaSpec_time_signature.check name v = metaCheckAttr .time_signature i (.int v)) := by
  constructor
  · simp only [Src.MetaSpec_time_signature.check, metaCheckAttr, src_check_int, Py.pow, if_true, bind, Except.bind,
      pure, Except.pure]
    have hp : ¬ ((255 : Int) < 0) := by omega
    simp only [hp, if_false, beq_self_eq_true, if_true]
    have h255 : (2 : Int) ^ (255 : Int).toNat = 2 ^ 255 := rfl
    rw [h255]
    cases hc : checkInt (.int v) 1 (2 ^ 255) with
    | error e => rfl
    | ok u =>
      simp only []
      have hr : 1 ≤ v ∧ v ≤ 2 ^ 255 := by
        by_cases hh : 1 ≤ v ∧ v ≤ 2 ^ 255
        · exact hh
        · exfalso
          have : checkInt (.int v) 1 (2 ^ 255) = .error .ValueError := by
            show (if 1 ≤ v ∧ v ≤ 2 ^ 255 then Except.ok () else Except.error Err.ValueError) = _
            rw [if_neg hh]
          rw [this] at hc
          cases hc
      obtain ⟨n, rfl⟩ := Int.eq_ofNat_of_zero_le (show 0 ≤ v by omega)
      have hn : 0 < n := by omega
      have hsub : ((n : Int) - 1) = ((n - 1 : Nat) : Int) := by omega
      have hl : land (n : Int) ((n : Int) - 1) = ((n &&& (n - 1) : Nat) : Int) := by rw [hsub]; rfl
      simp only [Int.ofNat_eq_natCast, hl, Int.toNat_natCast]
      by_cases hz : n &&& (n - 1) = 0
      · have hpw := (isPow2_iff n hn).2 hz
        simp [hz, hpw]
      · have hpw : isPow2 n = false := by
          cases hh : isPow2 n with
          | false => rfl
          | true => exact absurd ((isPow2_iff n hn).1 hh) hz
        have hz' : ¬ (((n &&& (n - 1) : Nat) : Int) = 0) := by omega
        simp [hz', hz, hpw, throw, throwThe, MonadExceptOf.throw]
  · intro name i hname hi
    have hb : (name == "denominator") = false := by simpa using hname
    simp only [Src.MetaSpec_time_signature.check, metaCheckAttr, hb, hi, Bool.false_eq_true, if_false, src_check_int,
      bind, Except.bind, pure, Except.pure]
    cases checkInt (.int v) 0 255 <;> rfl

end Mido
