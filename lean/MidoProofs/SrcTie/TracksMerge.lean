/-
  The tracks tie and the C12 theorems composed.
-/
import MidoProofs.SrcTie.Tracks
import MidoProofs.Props.C12
set_option linter.unusedSimpArgs false
namespace Mido
open Mido.Py List

/-- **C12 at the level of the source text**: the translated `merge_tracks` returns a track `res` (never raises) whose
    non-end_of_track events are exactly those of all inputs, each at its absolute tick, ordered by absolute time with ties
    in track order then in-track order, followed by exactly one end_of_track, and whose total duration is that of the
    longest input -/
theorem src_merge_property (ts : List (List TEv)) :
    ∃ res, Src.merge_tracks (ts.map (·.map TEv.toSrc)) = .ok (res.map TEv.toSrc) ∧
      ((toAbs res).filter notEot).Perm (A ts) ∧
      ((toAbs res).filter notEot).Pairwise (fun a b => a.time ≤ b.time) ∧
      (∀ a b, [a, b] <+ A ts → a.time ≤ b.time → [a, b] <+ (toAbs res).filter notEot) ∧
      (∃ init d, res = init ++ [⟨eotId, true, d⟩] ∧ ∀ e ∈ init, e.eot = false) ∧
      total res = (ts.map total).foldl max 0 :=
  ⟨mergeTracks ts, src_merge_tracks ts, C12_perm ts, C12_sorted ts, fun a b h hab => C12_stable ts a b h hab,
    C12_one_eot ts, C12_duration ts⟩
end Mido
