/-
  Source tie for mido/ports.py: `BasePort.close`, `BaseOutput.send` / `reset`, `BaseInput.receive` / `poll` /
  `iter_pending`, translated from the source text into computations on the port object whose state survives an
  exception (`PM`), against the sequential port model (MidoModel/PortsSeq.lean).  The device methods the port subclass
  supplies (`_receive`, `_send`, `_close`) are parameters, instantiated here by the model's device double.
  `with self._lock:` is read as its body: this is the single-thread reading of the methods; what the locks are for is
  the subject of the lock-discipline model of C10.
-/
import MidoModel.Generated.SrcPorts
import MidoModel.PortsSeq
set_option linter.unusedSimpArgs false
set_option linter.unusedVariables false
namespace Mido
open Mido.Py

/-! ### running a `PM` computation -/
section
variable {σ α β : Type}
@[simp] theorem PM.run_pure (a : α) (s : σ) : (pure a : PM σ α) s = (.ok a, s) := rfl
@[simp] theorem PM.run_bind (x : PM σ α) (f : α → PM σ β) (s : σ) :
    (x >>= f) s = match x s with | (.ok a, s') => f a s' | (.error e, s') => (.error e, s') := rfl
@[simp] theorem PM.run_get (s : σ) : (get : PM σ σ) s = (.ok s, s) := rfl
@[simp] theorem PM.run_modify (f : σ → σ) (s : σ) : (modify f : PM σ Unit) s = (.ok (), f s) := rfl
@[simp] theorem PM.run_throw (e : Err) (s : σ) : (throw e : PM σ α) s = (.error e, s) := rfl
@[simp] theorem PM.run_tryCatch (x : PM σ α) (h : Err → PM σ α) (s : σ) :
    (tryCatch x h) s = match x s with | (.ok a, s') => (.ok a, s') | (.error e, s') => h e s' := rfl
theorem PM.run_ite (c : Prop) [Decidable c] (x y : PM σ α) (s : σ) : (if c then x else y) s = if c then x s else y s := by
  split <;> rfl
end

/-- the device side of a model port -/
structure PDev where
  kind : PKind
  script : List (List Nat × Bool)
  log : List LogEv
  budget : Option Nat

def Port.toSrc (p : Port) : Src.BasePort Nat PDev :=
  { closed := p.closed, _messages := p.queue, autoreset := p.autoreset, sleeps := p.sleeps,
    dev := { kind := p.kind, script := p.script, log := p.log, budget := p.budget } }

def portOfSrc (s : Src.BasePort Nat PDev) : Port :=
  { kind := s.dev.kind, closed := s.closed, queue := s._messages, autoreset := s.autoreset, script := s.dev.script,
    log := s.dev.log, sleeps := s.sleeps.toNat, budget := s.dev.budget }

@[simp] theorem portOfSrc_toSrc (p : Port) : portOfSrc p.toSrc = p := by
  cases p; simp [portOfSrc, Port.toSrc]

/-- the device double of the model behind the methods ports.py calls on the port subclass -/
def modelPortExt : Src.PortExt Nat PDev where
  recv _ := fun s => (.ok none, (portOfSrc s).envStep.toSrc)
  send id := fun s =>
    let p := portOfSrc s
    if p.sendFails then (.error .OSError, s) else (.ok (), (p.rawSend id).toSrc)
  closeDev := fun s => let p := portOfSrc s; (.ok (), ({ p with log := p.log ++ [.closed] } : Port).toSrc)
  copy := id
  resetMsgs := resetIds

def exc {α} : Except Err Unit → α → Except Err α
  | .ok _, a => .ok a
  | .error e, _ => .error e

@[simp] theorem mext_send (id : Nat) (p : Port) : modelPortExt.send id p.toSrc =
    if p.sendFails then (.error .OSError, p.toSrc) else (.ok (), (p.rawSend id).toSrc) := by
  simp [modelPortExt]
@[simp] theorem mext_recv (b : Bool) (p : Port) : modelPortExt.recv b p.toSrc = (.ok none, p.envStep.toSrc) := by
  simp [modelPortExt]
@[simp] theorem mext_close (p : Port) : modelPortExt.closeDev p.toSrc = (.ok (), ({ p with log := p.log ++ [.closed] } : Port).toSrc) := by
  simp [modelPortExt]
@[simp] theorem mext_copy (m : Nat) : modelPortExt.copy m = m := rfl
@[simp] theorem mext_reset : modelPortExt.resetMsgs = resetIds := rfl
@[simp] theorem toSrc_closed (p : Port) : p.toSrc.closed = p.closed := rfl
@[simp] theorem toSrc_messages (p : Port) : p.toSrc._messages = p.queue := rfl
@[simp] theorem toSrc_autoreset (p : Port) : p.toSrc.autoreset = p.autoreset := rfl

/-- `send(msg)` -/
theorem src_port_send (p : Port) (id : Nat) :
    Src.BaseOutput.send modelPortExt id p.toSrc = ((p.send id).2, (p.send id).1.toSrc) := by
  unfold Src.BaseOutput.send Port.send
  by_cases hc : p.closed = true
  · simp [hc, PM.run_ite]
  · by_cases hf : p.sendFails = true
    · simp [hc, hf, PM.run_ite]
    · simp [hc, hf, PM.run_ite]
/-- does one of the sends of `l` meet a device that refuses? -/
def failsWithin (l : List Nat) (p : Port) : Bool :=
  p.kind == .dev && (match p.budget with | some b => decide (b < l.length) | none => false)

theorem sendFails_iff (p : Port) : p.sendFails = true ↔ p.kind = .dev ∧ p.budget = some 0 := by
  simp only [Port.sendFails]
  cases p.kind <;> cases hb : p.budget <;> simp
  rename_i b; cases b <;> simp

/-- the loop of `reset()`: `send` message by message; the first refusal raises and ends it -/
theorem src_reset_loop (F : Nat → PUnit → PM (Src.BasePort Nat PDev) (ForInStep PUnit))
    (hF : ∀ i u, F i u = (do Src.BaseOutput.send modelPortExt i; pure (ForInStep.yield PUnit.unit))) :
    ∀ (l : List Nat) (p : Port), p.closed = false →
      forIn l PUnit.unit F p.toSrc =
        ((if failsWithin l p then .error .OSError else .ok PUnit.unit), (Port.resetSends l p).toSrc)
  | [], p, _ => by simp [failsWithin, Port.resetSends]; cases p.kind <;> cases p.budget <;> simp
  | i :: r, p, hc => by
    rw [List.forIn_cons, hF]
    simp only [bind_assoc, PM.run_bind, src_port_send, Port.send, hc, Bool.false_eq_true, if_false, Port.resetSends]
    by_cases hf : p.sendFails = true
    · simp only [hf, if_true]
      have : failsWithin (i :: r) p = true := by
        obtain ⟨hk, hb⟩ := (sendFails_iff p).mp hf
        simp [failsWithin, hk, hb]
      simp [this]
    · simp only [hf, if_false, Bool.false_eq_true]
      have hc' : (p.rawSend i).closed = false := by
        simp only [Port.rawSend]; cases p.kind <;> simp [hc]
      have ih := src_reset_loop F hF r (p.rawSend i) hc'
      simp only [PM.run_pure, PM.run_bind]
      rw [ih]
      have : failsWithin r (p.rawSend i) = failsWithin (i :: r) p := by
        have hnf := fun h => hf ((sendFails_iff p).mpr h)
        simp only [failsWithin, Port.rawSend]
        cases hk : p.kind with
        | echo => cases hb : p.budget <;> simp [hk, hb]; rfl
        | dev =>
          cases hb : p.budget with
          | none => simp [hk, hb]
          | some b =>
            cases b with
            | zero => simp [hk, hb] at hnf
            | succ b => simp [hk, hb]
      rw [this]

/-- `reset()` called by the user (and by `close()` of an autoreset port) -/
theorem src_port_reset (p : Port) :
    Src.BaseOutput.reset modelPortExt p.toSrc = (p.userReset.2, p.userReset.1.toSrc) := by
  unfold Src.BaseOutput.reset Port.userReset
  by_cases hc : p.closed = true
  · simp [hc, PM.run_ite]
  · have hc' : p.closed = false := by simpa using hc
    have hl := fun F hF => src_reset_loop F hF resetIds p hc'
    simp only [PM.run_bind, PM.run_get, toSrc_closed, hc', Bool.false_eq_true, if_false, mext_reset, PM.run_ite]
    rw [hl]
    case hF => intro i u; rfl
    have : failsWithin resetIds p =
        (p.kind == .dev && (match p.budget with | some b => decide (b < resetIds.length) | none => false)) := rfl
    rw [this]
    cases hfw : (p.kind == PKind.dev && (match p.budget with | some b => decide (b < resetIds.length) | none => false)) <;> rfl

theorem userReset_open (p : Port) (h : p.closed = false) : p.userReset.1 = Port.resetSends resetIds p := by
  simp [Port.userReset, h]

theorem userReset_err (p : Port) : p.userReset.2 = .ok () ∨ p.userReset.2 = .error .OSError := by
  simp only [Port.userReset]
  split
  · left; rfl
  · simp only []; split
    · cases (p.kind == PKind.dev && decide (_ < resetIds.length)) <;> simp
    · left; simp

theorem resetSends_closed : ∀ (l : List Nat) (p : Port), (Port.resetSends l p).closed = p.closed
  | [], p => rfl
  | i :: r, p => by
    simp only [Port.resetSends]; split
    · rfl
    · rw [resetSends_closed r]; simp only [Port.rawSend]; cases p.kind <;> rfl

/-- `close()`: nothing on a closed port; otherwise the reset messages of an autoreset port (an OSError from the device
    ends them and is swallowed), then the device is closed and the flag set -/
theorem src_port_close (p : Port) :
    Src.BasePort.close modelPortExt p.toSrc = (.ok (), p.close.toSrc) := by
  unfold Src.BasePort.close Port.close
  by_cases hc : p.closed = true
  · simp [hc, PM.run_ite]
  · have hc' : p.closed = false := by simpa using hc
    have hcs : p.toSrc.closed = false := hc'
    simp only [PM.run_bind, PM.run_get, hcs, Bool.not_false, if_true, PM.run_ite, Bool.false_eq_true, if_false]
    by_cases ha : p.autoreset = true
    · rw [if_pos (show p.toSrc.autoreset = true from ha)]
      simp only [tryCatchThe, tryCatch]
      have hr := src_port_reset p
      have hopen := userReset_open p hc'
      have htc : (MonadExceptOf.tryCatch (Src.BaseOutput.reset modelPortExt) (fun e =>
            if (e == Err.OSError) = true then (pure () : PM _ Unit) else throw e)) p.toSrc
          = (.ok (), (Port.resetSends resetIds p).toSrc) := by
        show PM.tryCatch' _ _ _ = _
        simp only [PM.tryCatch', hr, hopen]
        rcases userReset_err p with h2 | h2 <;> rw [h2] <;> simp
      simp only [PM.run_bind, htc, mext_close, PM.run_modify, PM.run_pure]
      simp [Port.toSrc, resetSends_closed, hc', ha]
    · rw [if_neg (show ¬ p.toSrc.autoreset = true from ha)]
      simp only [PM.run_bind, mext_close, PM.run_modify, PM.run_pure]
      simp [Port.toSrc, ha, hc']

/-- what a receiving call hands back -/
def routSrc : ROut → Except Err (Option Nat)
  | .msg m => .ok (some m)
  | .none => .ok none
  | .raised e => .error e
  | .hang => .error .Hang

theorem toSrc_sleep (p : Port) :
    ({ p.toSrc with sleeps := p.toSrc.sleeps + 1 } : Src.BasePort Nat PDev) = ({ p with sleeps := p.sleeps + 1 } : Port).toSrc := by
  simp [Port.toSrc]

theorem toSrc_pop (p : Port) (q : List Nat) :
    ({ p.toSrc with _messages := q } : Src.BasePort Nat PDev) = ({ p with queue := q } : Port).toSrc := by
  simp [Port.toSrc]

/-- the polling loop of `receive()` -/
theorem src_recv_loop (f0 : Nat) (block : Bool) : ∀ (fuel : Nat) (p : Port),
    Src.BaseInput.receive.loop1 modelPortExt f0 block fuel () p.toSrc =
      (match (Port.recvLoop block fuel p).2 with
        | .hang => .error .Hang
        | o => (routSrc o).map Sum.inl,
       (Port.recvLoop block fuel p).1.toSrc)
  | 0, p => by simp [Src.BaseInput.receive.loop1, Port.recvLoop]
  | fuel + 1, p => by
    have ihh := src_recv_loop f0 block fuel
    unfold Src.BaseInput.receive.loop1 Port.recvLoop
    simp only [if_true, PM.run_bind, mext_recv]
    generalize p.envStep = p1
    obtain ⟨k, cl, qu, ar, sc, lg, sl, bu⟩ := p1
    cases qu with
    | cons m q =>
      simp [PM.run_ite, Port.toSrc, routSrc, Except.map]
    | nil =>
      cases block with
      | false => simp [PM.run_ite, Port.toSrc, routSrc, Except.map]
      | true =>
        cases cl with
        | true => simp [PM.run_ite, Port.toSrc, routSrc, Except.map]
        | false =>
          have ih := ihh ⟨k, false, [], ar, sc, lg, sl + 1, bu⟩
          simp only [Port.toSrc] at ih
          have e : ((sl + 1 : Nat) : Int) = (sl : Int) + 1 := by omega
          rw [e] at ih
          simp [PM.run_ite, Port.toSrc, ih]

/-- `receive(block)`: a pending message first; a closed port raises (blocking) or answers None; otherwise the polling
    loop.  `fuel` is the number of rounds after which the model declares a silent open port hanging -/
theorem src_port_receive (p : Port) (block : Bool) :
    Src.BaseInput.receive modelPortExt p.fuel block p.toSrc = (routSrc (p.receive block).2, (p.receive block).1.toSrc) := by
  have hl := src_recv_loop p.fuel block p.fuel
  unfold Src.BaseInput.receive Port.receive
  obtain ⟨k, cl, qu, ar, sc, lg, sl, bu⟩ := p
  cases qu with
  | cons m q => simp [PM.run_ite, Port.toSrc, routSrc]
  | nil =>
    cases cl with
    | true => cases block <;> simp [PM.run_ite, Port.toSrc, routSrc]
    | false =>
      have h := hl ⟨k, false, [], ar, sc, lg, sl, bu⟩
      simp only [Port.toSrc] at h
      simp only [PM.run_bind, PM.run_get, PM.run_ite, Port.toSrc, List.isEmpty_nil, Bool.not_true, Bool.false_eq_true,
        if_false, h]
      generalize Port.recvLoop block (Port.fuel ⟨k, false, [], ar, sc, lg, sl, bu⟩) ⟨k, false, [], ar, sc, lg, sl, bu⟩ = r
      obtain ⟨p', o⟩ := r
      cases o <;> simp [routSrc, Except.map]

theorem recvLoop_nb (f : Nat) (p : Port) : Port.recvLoop false (f + 1) p = Port.recvLoop false 1 p := by
  simp only [Port.recvLoop]
  cases p.envStep.queue <;> simp

/-- `poll()` = `receive(block=False)`: one round of the loop at most, whatever the fuel -/
theorem src_port_poll (p : Port) (f : Nat) :
    Src.BaseInput.poll modelPortExt (f + 1) p.toSrc = (routSrc p.poll.2, p.poll.1.toSrc) := by
  have hl := src_recv_loop (f + 1) false (f + 1)
  unfold Src.BaseInput.poll Src.BaseInput.receive Port.poll Port.receive
  obtain ⟨k, cl, qu, ar, sc, lg, sl, bu⟩ := p
  cases qu with
  | cons m q => simp [PM.run_ite, Port.toSrc, routSrc]
  | nil =>
    cases cl with
    | true => simp [PM.run_ite, Port.toSrc, routSrc]
    | false =>
      have h := hl ⟨k, false, [], ar, sc, lg, sl, bu⟩
      simp only [Port.toSrc] at h
      simp only [PM.run_bind, PM.run_get, PM.run_ite, Port.toSrc, List.isEmpty_nil, Bool.not_true, Bool.false_eq_true,
        if_false, h, Port.fuel]
      rw [recvLoop_nb f, ← recvLoop_nb (sc.length + 1)]
      generalize Port.recvLoop false (sc.length + 1 + 1) ⟨k, false, [], ar, sc, lg, sl, bu⟩ = r
      obtain ⟨p', o⟩ := r
      cases o <;> simp [routSrc, Except.map]

def endSrc (acc : List Nat) : Ending → Except Err (List Nat)
  | .normal => .ok acc
  | .raised e => .error e
  | .hang => .error .Hang

/-- the loop of `iter_pending()`: `poll()` until it answers None -/
theorem src_iter_pending_loop (f f2' : Nat) : ∀ (fuel2 : Nat) (p : Port) (acc : List Nat),
    Src.BaseInput.iter_pending.loop1 modelPortExt (f + 1) f2' fuel2 acc p.toSrc =
      ((endSrc (Port.iterPending fuel2 p acc).2.1 (Port.iterPending fuel2 p acc).2.2).map Sum.inl,
       (Port.iterPending fuel2 p acc).1.toSrc)
  | 0, p, acc => by simp [Src.BaseInput.iter_pending.loop1, Port.iterPending, endSrc, Except.map]
  | n + 1, p, acc => by
    have ih := src_iter_pending_loop f f2' n
    unfold Src.BaseInput.iter_pending.loop1 Port.iterPending
    simp only [if_true, PM.run_bind, src_port_poll]
    generalize p.poll = r
    obtain ⟨p', o⟩ := r
    cases o with
    | msg m => simp [routSrc, PM.run_ite, ih]
    | none => simp [routSrc, PM.run_ite, endSrc, Except.map]
    | raised e => simp [routSrc, endSrc, Except.map]
    | hang => simp [routSrc, endSrc, Except.map]

/-- `iter_pending()` run to its end -/
theorem src_port_iter_pending (p : Port) (f fuel2 : Nat) :
    Src.BaseInput.iter_pending modelPortExt (f + 1) fuel2 p.toSrc =
      (endSrc (Port.iterPending fuel2 p []).2.1 (Port.iterPending fuel2 p []).2.2, (Port.iterPending fuel2 p []).1.toSrc) := by
  unfold Src.BaseInput.iter_pending
  simp only [PM.run_bind, src_iter_pending_loop]
  generalize Port.iterPending fuel2 p [] = r
  obtain ⟨p', acc, e⟩ := r
  cases e <;> simp [endSrc, Except.map]

/-! non-vacuity: an autoreset port whose device refuses the fifth message: `close()` swallows the OSError, the device is
    closed once, the port is closed; a receive on a scripted device -/
example : ((Src.BasePort.close modelPortExt
      ({ autoreset := true, budget := some 4 } : Port).toSrc).2.dev.log.length,
    (Src.BasePort.close modelPortExt ({ autoreset := true, budget := some 4 } : Port).toSrc).2.closed) = (5, true) := by
  decide +kernel
example : (Src.BaseInput.receive modelPortExt 5 true ({ script := [([], false), ([7, 8], false)] } : Port).toSrc).1 = .ok (some 7) := by
  decide +kernel
example : (Src.BaseInput.receive modelPortExt 5 true ({ script := [([], true)] } : Port).toSrc).1 = .error .OSError := by
  decide +kernel

end Mido
