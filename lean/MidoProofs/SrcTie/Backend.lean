/-
  Source tie for the name listings of mido/backends/backend.py (`get_input_names`, `get_output_names`,
  `get_ioport_names`, `_get_devices`), `_add_api`, `_env`, `open_input`, `open_output` and `open_ioport`, translated from the
  source text: the process environment, what the backend module defines and what its classes / `get_devices` do are
  parameters; names, API injection, name precedence and the listings are the model's.
-/
import MidoModel.Generated.SrcBackend
import MidoModel.Backend
import MidoProofs.Props.C20
set_option linter.unusedSimpArgs false
namespace Mido
open Mido.Py

/-- the model's device triples as the dicts a backend module reports -/
def devOf (devs : List (String × Bool × Bool)) : List Device := devs.map (fun d => ⟨d.1, d.2.1, d.2.2⟩)

theorem devOf_filter_in (devs : List (String × Bool × Bool)) :
    List.map (fun (d : Device) => d.name) (List.filter (fun d => d.is_input) (devOf devs)) = (devs.filter (·.2.1)).map (·.1) := by
  induction devs with
  | nil => rfl
  | cons d r ih =>
    simp only [devOf, List.map_cons, List.filter_cons] at *
    cases h : d.2.1 <;> simp [h, ih]

theorem devOf_filter_out (devs : List (String × Bool × Bool)) :
    List.map (fun (d : Device) => d.name) (List.filter (fun d => d.is_output) (devOf devs)) = (devs.filter (·.2.2)).map (·.1) := by
  induction devs with
  | nil => rfl
  | cons d r ih =>
    simp only [devOf, List.map_cons, List.filter_cons] at *
    cases h : d.2.2 <;> simp [h, ih]

/-! ### `_add_api` and `_env` -/

/-- the keyword dict of a call that passed `api=a` (`some a`) or no `api` at all (`none`) -/
def kwOfCall (callApi : Option (Option String)) : KwArgs :=
  match callApi with | some a => [("api", a)] | none => []

/-- the `api` a port constructor / device query of the recording module sees (absent and None are the same to it) -/
def kwApi (kw : KwArgs) : Option String :=
  match kw.find? (fun p => p.1 == "api") with | some p => p.2 | none => none

theorem optStrTruthy_truthy (s : Option String) : optStrTruthy s = (truthy s).isSome := by
  cases s with
  | none => rfl
  | some x => simp only [optStrTruthy, truthy]; cases x.isEmpty <;> rfl

/-- **`_add_api`** of the source: the call's own `api=` keyword wins (also `api=None`), otherwise the backend's API is
    injected when it is truthy — the model's `addApi`; nothing else in the keyword dict is touched -/
theorem src_add_api (b : Backend) (callApi : Option (Option String)) :
    ∃ kw, Src.Backend._add_api b.api (kwOfCall callApi) = .ok kw ∧ kwApi kw = b.addApi callApi := by
  cases callApi with
  | some a => exact ⟨[("api", a)], by simp [Src.Backend._add_api, kwOfCall, kwHas, pure, Except.pure], by simp [kwApi, Backend.addApi]⟩
  | none =>
    cases hb : b.api with
    | none => exact ⟨[], by simp [Src.Backend._add_api, kwOfCall, kwHas, optStrTruthy, pure, Except.pure], by simp [kwApi, Backend.addApi, truthy, hb]⟩
    | some x =>
      by_cases hx : x.isEmpty = true
      · exact ⟨[], by simp [Src.Backend._add_api, kwOfCall, kwHas, optStrTruthy, hx, pure, Except.pure],
          by simp [kwApi, Backend.addApi, truthy, hb, hx]⟩
      · exact ⟨[("api", some x)], by simp [Src.Backend._add_api, kwOfCall, kwHas, kwSet, optStrTruthy, hx, pure, Except.pure],
          by simp [kwApi, Backend.addApi, truthy, hb, hx]⟩

theorem src_add_api_others (api : Option String) (kw : KwArgs) (k : String) (hk : k ≠ "api") :
    ∃ kw', Src.Backend._add_api api kw = .ok kw' ∧ kw'.filter (fun p => p.1 == k) = kw.filter (fun p => p.1 == k) := by
  unfold Src.Backend._add_api
  by_cases h : (optStrTruthy api && !kwHas kw "api") = true
  · refine ⟨kwSet kw "api" api, by simp [h, pure, Except.pure], ?_⟩
    have hn : kwHas kw "api" = false := by simp at h; exact h.2
    simp only [kwSet, hn, Bool.false_eq_true, if_false, List.filter_append]
    have : (("api" : String) == k) = false := by simp; exact fun e => hk e.symm
    simp [this]
  · exact ⟨kw, by simp [h, pure, Except.pure], rfl⟩

/-- **`_env`** of the source (the process environment a parameter): the variable when `use_environ` is on, else None — the
    model's `envVar` -/
theorem src_env (b : Backend) (name : String) (environ_get : String → Option String) :
    Src.Backend._env b.useEnviron name environ_get = .ok (b.envVar (environ_get name)) := by
  unfold Src.Backend._env Backend.envVar
  cases b.useEnviron <;> rfl

/-! ### `open_input` / `open_output` -/

/-- the name a port is opened under: the explicit one, else the environment variable (when `use_environ` is on) -/
def effName (b : Backend) (name : Option String) (v : Option String) : Option String :=
  match name with | some x => some x | none => b.envVar v

/-- **`open_input`** of the source (the process environment and the module's `Input` class parameters): the class is called
    exactly once, with the explicit name — or, when none was given, `MIDO_DEFAULT_INPUT` if `use_environ` is on, else None —
    and with a keyword dict whose `api` is the model's `addApi`; what the class returns or raises is what the call returns or
    raises -/
theorem src_open_input {P : Type} (b : Backend) (name : Option String) (callApi : Option (Option String))
    (environ_get : String → Option String) (ctor : Option String → KwArgs → Except Err P) :
    ∃ kw, Src.Backend.open_input b.api b.useEnviron name (kwOfCall callApi) environ_get ctor =
        ctor (effName b name (environ_get "MIDO_DEFAULT_INPUT")) kw ∧ kwApi kw = b.addApi callApi := by
  obtain ⟨kw, hkw, hapi⟩ := src_add_api b callApi
  refine ⟨kw, ?_, hapi⟩
  unfold Src.Backend.open_input
  cases name with
  | some x =>
    simp only [Option.isNone, Bool.false_eq_true, if_false, bind, Except.bind, pure, Except.pure, hkw, effName]
  | none =>
    simp only [Option.isNone, if_true, bind, Except.bind, pure, Except.pure, src_env, hkw, effName]

theorem src_open_output {P : Type} (b : Backend) (name : Option String) (callApi : Option (Option String))
    (environ_get : String → Option String) (ctor : Option String → KwArgs → Except Err P) :
    ∃ kw, Src.Backend.open_output b.api b.useEnviron name (kwOfCall callApi) environ_get ctor =
        ctor (effName b name (environ_get "MIDO_DEFAULT_OUTPUT")) kw ∧ kwApi kw = b.addApi callApi := by
  obtain ⟨kw, hkw, hapi⟩ := src_add_api b callApi
  refine ⟨kw, ?_, hapi⟩
  unfold Src.Backend.open_output
  cases name with
  | some x =>
    simp only [Option.isNone, Bool.false_eq_true, if_false, bind, Except.bind, pure, Except.pure, hkw, effName]
  | none =>
    simp only [Option.isNone, if_true, bind, Except.bind, pure, Except.pure, src_env, hkw, effName]

/-- with the model's recording module as the class: the record the model's `openInput` appends -/
example : Src.Backend.open_input (some "ALSA") true none [] (fun v => if v == "MIDO_DEFAULT_INPUT" then some "in1" else none)
    (fun n kw => Except.ok (n, kwApi kw)) = .ok (some "in1", some "ALSA") := by decide +kernel
example : Src.Backend.open_input (some "ALSA") true (some "p") [("api", none)] (fun _ => some "in1")
    (fun n kw => Except.ok (n, kwApi kw)) = .ok (some "p", none) := by decide +kernel

/-! ### `open_ioport` -/

/-- what `open_ioport` does with the classes of the module, given the keyword dict it passes on -/
def ioportRun {P : Type} (b : Backend) (name : Option String) (environ_get : String → Option String) (hasIO : Bool)
    (io inp out : Option String → KwArgs → Except Err P) (wrap : P → P → P) (kw : KwArgs) : Except Err P :=
  let eff := match name with | some x => some x | none => optStrOrNone (b.envVar (environ_get "MIDO_DEFAULT_IOPORT"))
  if hasIO then io eff kw
  else
    let i := if optStrTruthy eff then eff else b.envVar (environ_get "MIDO_DEFAULT_INPUT")
    let o := if optStrTruthy eff then eff else b.envVar (environ_get "MIDO_DEFAULT_OUTPUT")
    match inp i kw with
    | .error e => .error e
    | .ok a => match out o kw with
      | .error e => .error e
      | .ok c => .ok (wrap a c)

/-- **`open_ioport`** of the source: the module's native `IOPort` when it has one — under the explicit name, else
    `MIDO_DEFAULT_IOPORT` ('' counting as unset) — otherwise `Input` then `Output` (in this order; the second is not built
    when the first fails) under that name, or under `MIDO_DEFAULT_INPUT` / `MIDO_DEFAULT_OUTPUT` when there is none, wrapped
    by `ports.IOPort`; every class gets a keyword dict whose `api` is the model's `addApi` -/
theorem src_open_ioport {P : Type} (b : Backend) (name : Option String) (callApi : Option (Option String))
    (environ_get : String → Option String) (hasIO : Bool) (io inp out : Option String → KwArgs → Except Err P) (wrap : P → P → P) :
    ∃ kw, kwApi kw = b.addApi callApi ∧
      Src.Backend.open_ioport b.api b.useEnviron name (kwOfCall callApi) environ_get hasIO io inp out wrap =
        ioportRun b name environ_get hasIO io inp out wrap kw := by
  obtain ⟨kw, hkw, hapi⟩ := src_add_api b callApi
  refine ⟨kw, hapi, ?_⟩
  unfold Src.Backend.open_ioport ioportRun
  cases name with
  | some x =>
    cases hasIO with
    | true =>
      simp only [Option.isNone, Bool.false_eq_true, if_false, if_true, bind, Except.bind, pure, Except.pure, hkw]
    | false =>
      by_cases ht : optStrTruthy (some x) = true
      · simp only [Option.isNone, Bool.false_eq_true, if_false, ht, if_true, bind, Except.bind, pure, Except.pure, hkw]
        cases inp (some x) kw with
        | error e => rfl
        | ok a => cases out (some x) kw <;> rfl
      · simp only [Option.isNone, Bool.false_eq_true, if_false, ht, bind, Except.bind, pure, Except.pure, hkw, src_env]
        cases inp (b.envVar (environ_get "MIDO_DEFAULT_INPUT")) kw with
        | error e => rfl
        | ok a => cases out (b.envVar (environ_get "MIDO_DEFAULT_OUTPUT")) kw <;> rfl
  | none =>
    cases hasIO with
    | true =>
      simp only [Option.isNone, if_true, bind, Except.bind, pure, Except.pure, hkw, src_env]
    | false =>
      by_cases ht : optStrTruthy (optStrOrNone (b.envVar (environ_get "MIDO_DEFAULT_IOPORT"))) = true
      · simp only [Option.isNone, Bool.false_eq_true, if_false, ht, if_true, bind, Except.bind, pure, Except.pure, hkw, src_env]
        cases inp (optStrOrNone (b.envVar (environ_get "MIDO_DEFAULT_IOPORT"))) kw with
        | error e => rfl
        | ok a => cases out (optStrOrNone (b.envVar (environ_get "MIDO_DEFAULT_IOPORT"))) kw <;> rfl
      · simp only [Option.isNone, Bool.false_eq_true, if_false, ht, if_true, bind, Except.bind, pure, Except.pure, hkw, src_env]
        cases inp (b.envVar (environ_get "MIDO_DEFAULT_INPUT")) kw with
        | error e => rfl
        | ok a => cases out (b.envVar (environ_get "MIDO_DEFAULT_OUTPUT")) kw <;> rfl

theorem optStrOrNone_truthy (s : Option String) : optStrOrNone s = truthy s := rfl

example : Src.Backend.open_ioport (some "ALSA") true none [] (fun v => if v == "MIDO_DEFAULT_IOPORT" then some "" else some (v ++ "!"))
    false (fun n kw => Except.ok [("io", n, kwApi kw)]) (fun n kw => Except.ok [("in", n, kwApi kw)]) (fun n kw => Except.ok [("out", n, kwApi kw)])
    (· ++ ·) = .ok [("in", some "MIDO_DEFAULT_INPUT!", some "ALSA"), ("out", some "MIDO_DEFAULT_OUTPUT!", some "ALSA")] := by decide +kernel

/-! ### `_get_devices` and the three name listings -/

/-- `_add_api` applied to its own result changes nothing (the listings apply it, and `_get_devices` applies it again) -/
theorem src_add_api_twice (b : Backend) (callApi : Option (Option String)) :
    ∃ kw, Src.Backend._add_api b.api (kwOfCall callApi) = .ok kw ∧ Src.Backend._add_api b.api kw = .ok kw ∧
      kwApi kw = b.addApi callApi := by
  cases callApi with
  | some a => exact ⟨[("api", a)], by simp [Src.Backend._add_api, kwOfCall, kwHas, pure, Except.pure],
      by simp [Src.Backend._add_api, kwHas, pure, Except.pure], by simp [kwApi, Backend.addApi]⟩
  | none =>
    cases hb : b.api with
    | none => exact ⟨[], by simp [Src.Backend._add_api, kwOfCall, kwHas, optStrTruthy, pure, Except.pure],
        by simp [Src.Backend._add_api, kwHas, optStrTruthy, pure, Except.pure], by simp [kwApi, Backend.addApi, truthy, hb]⟩
    | some x =>
      by_cases hx : x.isEmpty = true
      · exact ⟨[], by simp [Src.Backend._add_api, kwOfCall, kwHas, optStrTruthy, hx, pure, Except.pure],
          by simp [Src.Backend._add_api, kwHas, optStrTruthy, hx, pure, Except.pure], by simp [kwApi, Backend.addApi, truthy, hb, hx]⟩
      · exact ⟨[("api", some x)], by simp [Src.Backend._add_api, kwOfCall, kwHas, kwSet, optStrTruthy, hx, pure, Except.pure],
          by simp [Src.Backend._add_api, kwHas, pure, Except.pure], by simp [kwApi, Backend.addApi, truthy, hb, hx]⟩

/-- **`_get_devices`** of the source: the module's `get_devices` is asked once, with a keyword dict whose `api` is the model's
    `addApi`; a module without `get_devices` has no devices -/
theorem src_get_devices (b : Backend) (callApi : Option (Option String)) (has : Bool) (gd : KwArgs → Except Err (List Device)) :
    ∃ kw, kwApi kw = b.addApi callApi ∧ Src.Backend._add_api b.api (kwOfCall callApi) = .ok kw ∧
      Src.Backend._get_devices b.api kw has gd = if has then gd kw else .ok [] := by
  obtain ⟨kw, h1, h2, hapi⟩ := src_add_api_twice b callApi
  refine ⟨kw, hapi, h1, ?_⟩
  unfold Src.Backend._get_devices
  cases has
  · rfl
  · simp only [if_true, bind, Except.bind, pure, Except.pure, h2]

/-- **the three name listings** of the source are the model's `namesSpec` of the module's device list: input names and
    output names in device order, I/O names = the input names that are also output names, in input order (duplicates
    kept) — `C20_names` states the same about the hand model; the device query carries the API (`src_get_devices`) -/
theorem src_names (b : Backend) (env : BEnv) (callApi : Option (Option String)) :
    Src.Backend.get_input_names b.api (kwOfCall callApi) true (fun _ => .ok (devOf env.devices)) = .ok (namesSpec env .inputs) ∧
    Src.Backend.get_output_names b.api (kwOfCall callApi) true (fun _ => .ok (devOf env.devices)) = .ok (namesSpec env .outputs) ∧
    Src.Backend.get_ioport_names b.api (kwOfCall callApi) true (fun _ => .ok (devOf env.devices)) = .ok (namesSpec env .ioports) := by
  obtain ⟨kw, _, h1, hg⟩ := src_get_devices b callApi true (fun _ => .ok (devOf env.devices))
  refine ⟨?_, ?_, ?_⟩
  · simp only [Src.Backend.get_input_names, bind, Except.bind, pure, Except.pure, h1, hg, if_true, devOf_filter_in, namesSpec]
  · simp only [Src.Backend.get_output_names, bind, Except.bind, pure, Except.pure, h1, hg, if_true, devOf_filter_out, namesSpec]
  · simp only [Src.Backend.get_ioport_names, bind, Except.bind, pure, Except.pure, h1, hg, if_true, devOf_filter_in, devOf_filter_out,
      namesSpec, List.map_id']

/-- the query the listings make: exactly the one of `_get_devices` — it carries the API, and its failure is the listing's -/
theorem src_names_query (b : Backend) (callApi : Option (Option String)) (has : Bool) (gd : KwArgs → Except Err (List Device)) :
    ∃ kw, kwApi kw = b.addApi callApi ∧
      Src.Backend.get_input_names b.api (kwOfCall callApi) has gd =
        (if has then gd kw else .ok []).map (fun ds => List.map (fun (d : Device) => d.name) (List.filter (fun d => d.is_input) ds)) := by
  obtain ⟨kw, hapi, h1, hg⟩ := src_get_devices b callApi has gd
  refine ⟨kw, hapi, ?_⟩
  simp only [Src.Backend.get_input_names, bind, Except.bind, pure, Except.pure, h1, hg]
  cases has
  · rfl
  · simp only [if_true]; cases gd kw <;> rfl

example : Src.Backend.get_ioport_names (some "ALSA") [] true
    (fun kw => if kwApi kw == some "ALSA" then .ok (devOf [("a", true, false), ("b", true, true), ("c", false, true), ("b", true, true)]) else .ok []) =
    .ok ["b", "b"] := by decide +kernel

end Mido
