import MidoModel.Vlq
import MidoModel.Generated.SrcFileIO
import MidoProofs.SrcTie.Basic
import MidoProofs.SrcTie.Codec
import MidoProofs.SrcTie.Vlq
set_option linter.unusedSimpArgs false
/-!
  Source tie, variable-length quantities on the reader side: `read_variable_int` as translated from
  `mido/midifiles/midifiles.py` is the model's `readVlq` on every byte list (with the file position).
-/
namespace Mido
open Mido.Py

/-! ### `read_variable_int` of midifiles.py (the reader side) -/

/-- the bytes `bs` not yet read, with the file position `p` -/
def mkFile (bs : List Nat) (p : Int) : PyFile := { rest := natsToInts bs, pos := p }

set_option maxRecDepth 4000 in
theorem src_read_vlq_loop : ∀ (bs : List Nat) (fuel acc : Nat) (p : Int), bs.length < fuel →
    Src.read_variable_int.loop1 fuel (mkFile bs p) (acc : Int) =
      match readVlqAcc acc bs with
      | .ok (v, r) => .ok (Sum.inl ((v : Int), mkFile r (p + bs.length - r.length)))
      | .error e => .error e
  | [], fuel, acc, p, h => by
    match fuel with
    | 0 => omega
    | f + 1 => simp [Src.read_variable_int.loop1, readVlqAcc, mkFile, natsToInts, readByte, bind, Except.bind]
  | b :: rest, fuel, acc, p, h => by
    match fuel with
    | 0 => simp at h
    | f + 1 =>
      have ih := src_read_vlq_loop rest f (acc * 128 + b % 128) (p + 1) (by simp at h; omega)
      rw [Src.read_variable_int.loop1, readVlqAcc]
      simp only [mkFile, natsToInts, List.map_cons, readByte]
      simp only [bind, Except.bind, pure, Except.pure, if_true, Int.ofNat_eq_natCast, vlq_step]
      by_cases hb : b < 128
      · have hb' : ((b : Int) < 128) := by omega
        simp [hb, hb']
        omega
      · have hb' : ¬ ((b : Int) < 128) := by omega
        simp only [hb, hb', decide_false, Bool.false_eq_true, if_false]
        simp only [mkFile, natsToInts] at ih
        rw [ih]
        cases readVlqAcc (acc * 128 + b % 128) rest with
        | error e => rfl
        | ok pr =>
          obtain ⟨v, r⟩ := pr
          have hp : p + 1 + (rest.length : Int) - (r.length : Int)
              = p + ((b :: rest).length : Int) - (r.length : Int) := by
            simp only [List.length_cons]; push_cast; omega
          simp only [mkFile, hp]

/-- `read_variable_int`, as translated from the source, is the model's `readVlq` on every byte list: value, the
    unread rest and the new file position, or `EOFError` when the input ends inside the quantity -/
theorem src_read_variable_int (bs : List Nat) (p : Int) :
    Src.read_variable_int (mkFile bs p) =
      match readVlq bs with
      | .ok (v, r) => .ok ((v : Int), mkFile r (p + bs.length - r.length))
      | .error e => .error e := by
  have h := src_read_vlq_loop bs (bs.length + 1) 0 p (by omega)
  have hl : (mkFile bs p).rest.length = bs.length := by simp [mkFile, natsToInts]
  simp only [Src.read_variable_int, hl, bind, Except.bind, pure, Except.pure]
  have h0 : ((0 : Nat) : Int) = 0 := rfl
  rw [h0] at h
  rw [h, readVlq]
  cases readVlqAcc 0 bs with
  | error e => rfl
  | ok pr => rfl

end Mido
