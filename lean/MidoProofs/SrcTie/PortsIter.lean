/-
  Source tie for `BaseInput.__iter__` of mido/ports.py (`for msg in port`): the generator with `try: yield self.receive()
  except (OSError, ValueError): if self.closed: return else: raise`, translated, against the model's `iterAll`.
-/
import MidoProofs.SrcTie.Ports
set_option linter.unusedSimpArgs false
set_option linter.unusedVariables false
namespace Mido
open Mido.Py

/-- `receive(block)` with a given number of polling rounds before a silent open port is declared hanging -/
def Port.receiveF (F : Nat) (p : Port) (block : Bool) : Port × ROut :=
  match p.queue with
  | m :: q => ({ p with queue := q }, .msg m)
  | [] =>
    if p.closed then (p, if block then .raised .ValueError else .none)
    else Port.recvLoop block F p

theorem receiveF_fuel (p : Port) (block : Bool) : p.receiveF p.fuel block = p.receive block := rfl

theorem src_port_receiveF (F : Nat) (p : Port) (block : Bool) :
    Src.BaseInput.receive modelPortExt F block p.toSrc = (routSrc (p.receiveF F block).2, (p.receiveF F block).1.toSrc) := by
  have hl := src_recv_loop F block F
  unfold Src.BaseInput.receive Port.receiveF
  obtain ⟨k, cl, qu, ar, sc, lg, sl, bu⟩ := p
  cases qu with
  | cons m q => simp [PM.run_ite, Port.toSrc, routSrc]
  | nil =>
    cases cl with
    | true => cases block <;> simp [PM.run_ite, Port.toSrc, routSrc]
    | false =>
      have h := hl ⟨k, false, [], ar, sc, lg, sl, bu⟩
      simp only [Port.toSrc] at h
      simp only [PM.run_bind, PM.run_get, PM.run_ite, Port.toSrc, List.isEmpty_nil, Bool.not_true, Bool.false_eq_true,
        if_false, h]
      generalize Port.recvLoop block F ⟨k, false, [], ar, sc, lg, sl, bu⟩ = r
      obtain ⟨p', o⟩ := r
      cases o <;> simp [routSrc, Except.map]

/-- `for msg in port` run to its end, every `receive()` with `F` polling rounds -/
def Port.iterAllF (F : Nat) : Nat → Port → List Nat → Port × List Nat × Ending
  | 0, p, acc => (p, acc, .hang)
  | fuel + 1, p, acc =>
    match p.receiveF F true with
    | (p', .msg m) => Port.iterAllF F fuel p' (acc ++ [m])
    | (p', .raised e) =>
      if (e = .OSError ∨ e = .ValueError) ∧ p'.closed then (p', acc, .normal) else (p', acc, .raised e)
    | (p', .none) => (p', acc, .raised .Other)
    | (p', .hang) => (p', acc, .hang)

theorem recvLoop_block_not_none : ∀ (f : Nat) (p : Port), (Port.recvLoop true f p).2 ≠ .none
  | 0, p => by simp [Port.recvLoop]
  | f + 1, p => by
    simp only [Port.recvLoop]
    cases p.envStep.queue with
    | cons m q => simp
    | nil =>
      simp only [Bool.not_true, Bool.false_eq_true, if_false]
      by_cases hc : p.envStep.closed = true
      · simp [hc]
      · simp only [hc, if_false]; exact recvLoop_block_not_none f _

theorem receiveF_block_not_none (F : Nat) (p : Port) : (p.receiveF F true).2 ≠ .none := by
  unfold Port.receiveF
  cases p.queue with
  | cons m q => simp
  | nil =>
    simp only []
    by_cases hc : p.closed = true
    · simp [hc]
    · simp only [hc, if_false]; exact recvLoop_block_not_none F p

/-- the loop of `BaseInput.__iter__`: `receive()` until it raises; OSError / ValueError on a closed port end the iteration
    silently, anything else (or an open port) is raised -/
theorem src_iter_all_loop (F f2' : Nat) : ∀ (fuel2 : Nat) (p : Port) (acc : List Nat),
    Src.BaseInput.iter_all.loop1 modelPortExt F f2' fuel2 acc p.toSrc =
      ((endSrc (Port.iterAllF F fuel2 p acc).2.1 (Port.iterAllF F fuel2 p acc).2.2).map Sum.inl,
       (Port.iterAllF F fuel2 p acc).1.toSrc)
  | 0, p, acc => by simp [Src.BaseInput.iter_all.loop1, Port.iterAllF, endSrc, Except.map]
  | n + 1, p, acc => by
    have ih := src_iter_all_loop F f2' n
    have hnn := receiveF_block_not_none F p
    unfold Src.BaseInput.iter_all.loop1 Port.iterAllF
    simp only [if_true, PM.run_bind, PM.run_tryCatch, src_port_receiveF, PM.run_pure]
    generalize p.receiveF F true = r at hnn
    obtain ⟨p', o⟩ := r
    cases o with
    | msg m => simp [routSrc, ih]
    | none => simp at hnn
    | raised e =>
      by_cases hc : p'.closed = true <;> cases e <;> simp [routSrc, endSrc, Except.map, PM.run_ite, hc]
    | hang => simp [routSrc, endSrc, Except.map, PM.run_ite]

/-- `for msg in port` -/
theorem src_port_iter_all (p : Port) (F fuel2 : Nat) :
    Src.BaseInput.iter_all modelPortExt F fuel2 p.toSrc =
      (endSrc (Port.iterAllF F fuel2 p []).2.1 (Port.iterAllF F fuel2 p []).2.2, (Port.iterAllF F fuel2 p []).1.toSrc) := by
  unfold Src.BaseInput.iter_all
  simp only [PM.run_bind, src_iter_all_loop]
  generalize Port.iterAllF F fuel2 p [] = r
  obtain ⟨p', acc, e⟩ := r
  cases e <;> simp [endSrc, Except.map]

/-! ### the fixed number of polling rounds against the model's own (`script.length + 2`) -/

theorem recvLoop_mono (b : Bool) : ∀ (f : Nat) (p : Port), (Port.recvLoop b f p).2 ≠ .hang →
    ∀ f', f ≤ f' → Port.recvLoop b f' p = Port.recvLoop b f p
  | 0, p, h, _, _ => by simp [Port.recvLoop] at h
  | f + 1, p, h, f', hf => by
    obtain ⟨g, rfl⟩ : ∃ g, f' = g + 1 := ⟨f' - 1, by omega⟩
    simp only [Port.recvLoop] at h ⊢
    cases hq : p.envStep.queue with
    | cons m q => rfl
    | nil =>
      simp only [hq] at h ⊢
      cases b with
      | false => rfl
      | true =>
        simp only [Bool.not_true, Bool.false_eq_true, if_false] at h ⊢
        by_cases hc : p.envStep.closed = true
        · simp [hc]
        · simp only [hc, if_false] at h ⊢
          exact recvLoop_mono true f _ h g (by omega)

theorem resetSends_script : ∀ (l : List Nat) (p : Port), (Port.resetSends l p).script = p.script
  | [], p => rfl
  | i :: r, p => by
    simp only [Port.resetSends]; split
    · rfl
    · rw [resetSends_script r]; simp only [Port.rawSend]; cases p.kind <;> rfl

theorem close_script (p : Port) : p.close.script = p.script := by
  unfold Port.close
  by_cases hc : p.closed = true
  · simp [hc]
  · by_cases ha : p.autoreset = true <;> simp [hc, ha, resetSends_script]

theorem envStep_script_le (p : Port) : p.envStep.script.length ≤ p.script.length := by
  unfold Port.envStep
  cases p.kind with
  | echo => simp
  | dev =>
    cases hs : p.script with
    | nil => simp [hs]
    | cons x rest =>
      obtain ⟨arr, closes⟩ := x
      cases closes <;> simp [close_script]

theorem recvLoop_script_le (b : Bool) : ∀ (f : Nat) (p : Port), (Port.recvLoop b f p).1.script.length ≤ p.script.length
  | 0, p => by simp [Port.recvLoop]
  | f + 1, p => by
    have he := envStep_script_le p
    have ih := recvLoop_script_le true f
    simp only [Port.recvLoop]
    generalize p.envStep = p1 at he
    obtain ⟨k, cl, qu, ar, sc, lg, sl, bu⟩ := p1
    simp only [] at he
    cases qu with
    | cons m q => simpa using he
    | nil =>
      cases b with
      | false => simpa using he
      | true =>
        cases cl with
        | true => simpa using he
        | false =>
          have := ih ⟨k, false, [], ar, sc, lg, sl + 1, bu⟩
          simp only [] at this
          simp only [Bool.not_true, Bool.false_eq_true, if_false]
          omega

theorem receive_fuel_le (p : Port) (b : Bool) : (p.receive b).1.fuel ≤ p.fuel := by
  unfold Port.receive Port.fuel
  cases hq : p.queue with
  | cons m q => simp
  | nil =>
    simp only []
    by_cases hc : p.closed = true
    · simp [hc]
    · simp only [hc]
      have := recvLoop_script_le b (p.script.length + 2) p
      simp only [Bool.false_eq_true, if_false]
      omega

theorem receiveF_eq (F : Nat) (p : Port) (b : Bool) (hF : p.fuel ≤ F) (hh : (p.receive b).2 ≠ .hang) :
    p.receiveF F b = p.receive b := by
  unfold Port.receiveF Port.receive at *
  cases hq : p.queue with
  | cons m q => rfl
  | nil =>
    simp only [hq] at hh ⊢
    by_cases hc : p.closed = true
    · simp [hc]
    · simp only [hc, if_false] at hh ⊢
      exact recvLoop_mono b p.fuel p hh F hF

/-- as long as the model's iteration does not end in a hang, giving every `receive()` more polling rounds than the model's
    own bound changes nothing -/
theorem iterAllF_eq (F : Nat) : ∀ (n : Nat) (p : Port) (acc : List Nat), p.fuel ≤ F →
    (Port.iterAll n p acc).2.2 ≠ .hang → Port.iterAllF F n p acc = Port.iterAll n p acc
  | 0, p, acc, _, h => by simp [Port.iterAll] at h
  | n + 1, p, acc, hF, h => by
    simp only [Port.iterAll, Port.iterAllF] at h ⊢
    have hfl := receive_fuel_le p true
    cases hr : p.receive true with
    | mk p' o =>
      rw [hr] at h hfl
      simp only [] at hfl
      cases o with
      | hang => simp at h
      | msg m =>
        have := receiveF_eq F p true hF (by rw [hr]; simp)
        rw [this, hr]
        simp only [] at h ⊢
        exact iterAllF_eq F n p' _ (by omega) h
      | none =>
        have := receiveF_eq F p true hF (by rw [hr]; simp)
        rw [this, hr]
      | raised e =>
        have := receiveF_eq F p true hF (by rw [hr]; simp)
        rw [this, hr]

/-- **`for msg in port`** of the source: the messages the model's iteration hands out, the same ending (silently on a port
    that closed, with the exception otherwise), the same port state — for every run of the model that does not hang -/
theorem src_port_iter (p : Port) (F fuel2 : Nat) (hF : p.fuel ≤ F) (hh : (Port.iterAll fuel2 p []).2.2 ≠ .hang) :
    Src.BaseInput.iter_all modelPortExt F fuel2 p.toSrc =
      (endSrc (Port.iterAll fuel2 p []).2.1 (Port.iterAll fuel2 p []).2.2, (Port.iterAll fuel2 p []).1.toSrc) := by
  rw [src_port_iter_all, iterAllF_eq F fuel2 p [] hF hh]

example : (Src.BaseInput.iter_all modelPortExt 9 9 ({ queue := [5], script := [([6, 7], false), ([8], true)] } : Port).toSrc).1 = .ok [5, 6, 7, 8] := by
  decide +kernel

end Mido
