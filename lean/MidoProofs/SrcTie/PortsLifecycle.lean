/-
  The ports tie and the C11 lifecycle theorems composed.
-/
import MidoProofs.SrcTie.Ports
import MidoProofs.Props.C11
set_option linter.unusedSimpArgs false
namespace Mido
open Mido.Py

/-- **C11 at the level of the source text**: `close()` of the translated port code is idempotent — a second call changes
    nothing and releases nothing — and after it `send` is refused with ValueError, for every port state, device script
    and fault budget -/
theorem src_close_idem (p : Port) :
    Src.BasePort.close modelPortExt (Src.BasePort.close modelPortExt p.toSrc).2 = (.ok (), (Src.BasePort.close modelPortExt p.toSrc).2) ∧
    (p.kind = .dev → p.closed = false →
      closeCount (portOfSrc (Src.BasePort.close modelPortExt (Src.BasePort.close modelPortExt p.toSrc).2).2) = closeCount p + 1) ∧
    ∀ id, (Src.BaseOutput.send modelPortExt id (Src.BasePort.close modelPortExt p.toSrc).2).1 = .error .ValueError := by
  have h1 := src_port_close p
  have h2 := src_port_close p.close
  rw [C11_close_idem] at h2
  refine ⟨by rw [h1]; exact h2, ?_, ?_⟩
  · intro hk ho
    rw [h1]; simp only []
    rw [h2]; simp only [portOfSrc_toSrc]
    exact (C11_release_once p hk ho).1
  · intro id
    rw [h1]; simp only []
    rw [src_port_send]
    have hc : p.close.closed = true := by
      unfold Port.close; by_cases h : p.closed = true <;> simp [h]
    simp [C11_send_after_close p.close hc id]
end Mido
