/-
  Source tie for the framing of meta messages in mido/midifiles/meta.py: `MetaMessage.from_bytes` (the scan for the end of
  the variable-length length field, the length check, the call of `build_meta_message`), `MetaMessage.bytes` and
  `UnknownMetaMessage.bytes`, translated from the source text.
-/
import MidoModel.Generated.SrcMetaNum
import MidoProofs.SrcTie.Vlq
import MidoModel.Meta
set_option linter.unusedSimpArgs false
namespace Mido
open Mido.Py

/-- number of leading continuation bytes -/
def hiCount : List Nat → Nat
  | [] => 0
  | b :: r => if 128 ≤ b then hiCount r + 1 else 0

theorem hibit_table : ∀ b < 256, decide ((b &&& 128 : Nat) = 0) = decide (b < 128) := by decide +kernel

theorem idx_at (pre : List Nat) (b : Nat) (r : List Nat) :
    idx (natsToInts (pre ++ b :: r)) (pre.length : Int) = .ok (b : Int) := by
  have : ¬ ((pre.length : Int) < 0) := by omega
  simp [idx, natsToInts, this]

theorem src_scan_loop {M : Type} [Inhabited M] (ext : ReaderExt M) :
    ∀ (tail pre : List Nat) (fuel : Nat), tail.length < fuel → (∀ b ∈ tail, b < 256) →
      Src.MetaMessage.from_bytes.loop1 ext (natsToInts (pre ++ tail)) fuel (pre.length : Int)
        = .ok ((pre.length + hiCount tail : Nat) : Int)
  | [], pre, fuel, hf, _ => by
    cases fuel with
    | zero => simp at hf
    | succ f =>
      simp [Src.MetaMessage.from_bytes.loop1, len, natsToInts, hiCount, bind, Except.bind, pure, Except.pure]
  | b :: r, pre, fuel, hf, hb => by
    cases fuel with
    | zero => simp at hf
    | succ f =>
      have hlt : (pre.length : Int) < ((pre ++ b :: r).length : Int) := by simp; omega
      have hb256 : b < 256 := hb b (by simp)
      have ht := hibit_table b hb256
      unfold Src.MetaMessage.from_bytes.loop1
      simp only [len, natsToInts, List.length_map] at *
      simp only [bind, Except.bind, pure, Except.pure, hlt, decide_true, if_true]
      have hi := idx_at pre b r
      simp only [natsToInts] at hi
      rw [hi]
      simp only [land_lit_right]
      by_cases h128 : 128 ≤ b
      · have : ¬ ((b &&& 128 : Nat) = 0) := by
          intro h; simp [h] at ht; omega
        have this' : (((b &&& 128 : Nat) : Int) != 0) = true := by simp; omega
        simp only [this', if_true]
        have ih := src_scan_loop ext r (pre ++ [b]) f (by simp at hf; omega) (fun x hx => hb x (by simp [hx]))
        simp only [List.length_append, List.length_singleton, List.append_assoc, List.singleton_append, natsToInts] at ih
        have e : ((pre.length : Int) + 1) = ((pre.length + 1 : Nat) : Int) := by omega
        rw [e, ih]
        simp [hiCount, h128]; omega
      · have : ((b &&& 128 : Nat) = 0) := by
          have : decide (b < 128) = true := by simp; omega
          rw [this] at ht; simpa using ht
        simp [this, hiCount, h128]
theorem forIn_total {σ : Type} (F : Int → σ → Except Err (ForInStep σ)) (g : Int → σ → σ)
    (hF : ∀ i s, F i s = .ok (.yield (g i s))) : ∀ (l : List Int) (init : σ), ∃ r, forIn l init F = .ok r
  | [], init => ⟨init, by simp [pure, Except.pure]⟩
  | x :: r, init => by
    obtain ⟨v, hv⟩ := forIn_total F g hF r (g x init)
    exact ⟨v, by simp [List.forIn_cons, hF, bind, Except.bind, hv]⟩

/-- `decode_variable_int` never raises on a list of (non-negative) ints -/
theorem decode_variable_int_total (xs : List Nat) : ∃ v, Src.decode_variable_int (natsToInts xs) = .ok v := by
  unfold Src.decode_variable_int
  simp only [bind, Except.bind, pure, Except.pure]
  have hr : rangeInt (len (natsToInts xs) - 1) = (List.range' 0 (xs.length - 1)).map Int.ofNat := by
    simp only [rangeInt, len, natsToInts, List.length_map, List.range_eq_range']
    congr 2
    omega
  have hlo := fun F hF => src_vlq_lo_loop F hF xs []
  simp only [List.length_nil, List.nil_append] at hlo
  rw [hr]
  simp only [natsToInts]
  rw [hlo]
  case hF => intro i s; rfl
  simp only []
  obtain ⟨v, hv⟩ := forIn_total (fun i (s : Int) => (Except.ok (ForInStep.yield (lor (shlN s 7) i)) : Except Err _))
      (fun i s => lor (shlN s 7) i) (fun i s => rfl) (List.map Int.ofNat (loAllButLast xs)) 0
  exact ⟨v, by rw [hv]⟩

theorem readVlqAcc_allhi : ∀ (tail : List Nat) (acc : Nat), hiCount tail = tail.length → readVlqAcc acc tail = .error .EOFError
  | [], _, _ => rfl
  | b :: r, acc, h => by
    by_cases hb : 128 ≤ b
    · simp only [hiCount, hb, if_true, List.length_cons, Nat.add_right_cancel_iff] at h
      simp only [readVlqAcc, show ¬ b < 128 by omega, if_false]
      exact readVlqAcc_allhi r _ h
    · simp [hiCount, hb] at h

theorem hiCount_le : ∀ tail : List Nat, hiCount tail ≤ tail.length
  | [] => by simp [hiCount]
  | b :: r => by have := hiCount_le r; simp only [hiCount]; split <;> simp <;> omega

theorem split_hi : ∀ tail : List Nat, hiCount tail < tail.length →
    ∃ hi last rest, tail = hi ++ [last] ++ rest ∧ hi.length = hiCount tail ∧ (∀ b ∈ hi, 128 ≤ b) ∧ last < 128
  | [], h => by simp at h
  | b :: r, h => by
    by_cases hb : 128 ≤ b
    · have h' : hiCount r < r.length := by simp [hiCount, hb] at h; omega
      obtain ⟨hi, last, rest, e, hl, hh, hlast⟩ := split_hi r h'
      refine ⟨b :: hi, last, rest, by simp [e], by simp [hiCount, hb, hl], ?_, hlast⟩
      intro x hx; simp at hx; rcases hx with rfl | hx
      · exact hb
      · exact hh x hx
    · exact ⟨[], b, r, by simp, by simp [hiCount, hb], by simp, by omega⟩

theorem sliceBetween_nat {α} (xs : List α) (a b : Nat) :
    sliceBetween xs (a : Int) (b : Int) = (xs.take (min b xs.length)).drop (min a xs.length) := by
  simp [sliceBetween, sliceNorm, show ¬ ((a : Int) < 0) by omega, show ¬ ((b : Int) < 0) by omega]
theorem sliceBetween_two {α} (xs : List α) (b : Nat) :
    sliceBetween xs (2 : Int) (b : Int) = (xs.take (min b xs.length)).drop (min 2 xs.length) := sliceBetween_nat xs 2 b
theorem sliceFromI_nat {α} (xs : List α) (a : Nat) : sliceFromI xs (a : Int) = xs.drop (min a xs.length) := by
  simp [sliceFromI, sliceNorm, show ¬ ((a : Int) < 0) by omega]

/-- `MetaMessage.from_bytes` of the source: the scan for the end of the length field, the length check and the call of
    `build_meta_message`, on every byte list -/
theorem src_meta_from_bytes {M : Type} [Inhabited M] (ext : ReaderExt M) (bs : List Nat) (hb : ∀ b ∈ bs, b < 256) :
    Src.MetaMessage.from_bytes ext (natsToInts bs) =
      match bs with
      | [] => .error .IndexError
      | first :: rest =>
        if first ≠ 0xff then .error .ValueError else
        match rest with
        | [] => .error .ValueError
        | ty :: tail =>
          match readVlq tail with
          | .error _ => .error .ValueError
          | .ok (n, data) => if n = data.length then ext.buildMeta ty (natsToInts data) 0 else .error .ValueError := by
  match bs, hb with
  | [], _ => simp [Src.MetaMessage.from_bytes, natsToInts, bind, Except.bind]
  | [first], _ =>
    by_cases hf : first = 255
    · subst hf
      simp [Src.MetaMessage.from_bytes, Src.MetaMessage.from_bytes.loop1, natsToInts, bind, Except.bind, pure, Except.pure, len,
        sliceBetween, sliceFromI, sliceNorm, Src.decode_variable_int, rangeInt, throw, throwThe, MonadExceptOf.throw]
    · have : ¬ ((first : Int) = 255) := by omega
      simp [Src.MetaMessage.from_bytes, natsToInts, bind, Except.bind, hf, this, throw, throwThe, MonadExceptOf.throw]
  | first :: ty :: tail, hb =>
    by_cases hf : first = 255
    · subst hf
      have htl : ∀ b ∈ tail, b < 256 := fun b h => hb b (by simp [h])
      have hloop := src_scan_loop ext tail [255, ty] (tail.length + 1 + 2) (by omega) htl
      simp only [List.cons_append, List.nil_append, List.length_cons, List.length_nil] at hloop
      unfold Src.MetaMessage.from_bytes
      simp only [bind, Except.bind, pure, Except.pure]
      have hi0 : idx (natsToInts (255 :: ty :: tail)) 0 = .ok 255 := by simp [natsToInts]
      have hi1 : idx (natsToInts (255 :: ty :: tail)) 1 = .ok (ty : Int) := by simp [natsToInts]
      have hlen : (natsToInts (255 :: ty :: tail)).length + 1 = tail.length + 1 + 2 := by simp [natsToInts]
      rw [hi0, hi1, hlen]
      have e2 : ((0 + 1 + 1 : Nat) : Int) = 2 := by omega
      rw [e2] at hloop
      simp only [bne_self_eq_false, Bool.false_eq_true, if_false, hloop]
      have hk := hiCount_le tail
      by_cases hall : hiCount tail = tail.length
      · -- no terminating byte: the scan runs off the end
        have hr : readVlq tail = .error .EOFError := readVlqAcc_allhi tail 0 hall
        have e3 : (((0 + 1 + 1 + hiCount tail : Nat) : Int) + 1) = ((tail.length + 3 : Nat) : Int) := by omega
        rw [e3, sliceBetween_two, sliceFromI_nat]
        have : List.drop (min 2 (natsToInts (255 :: ty :: tail)).length)
            (List.take (min (tail.length + 3) (natsToInts (255 :: ty :: tail)).length) (natsToInts (255 :: ty :: tail)))
              = natsToInts tail := by
          simp [natsToInts]
          exact List.take_of_length_le (by simp)
        rw [this]
        obtain ⟨v, hv⟩ := decode_variable_int_total tail
        rw [hv]
        have hlt : (tail.length : Int) + 1 + 1 < (tail.length : Int) + 3 := by omega
        simp [hr, len, natsToInts, hlt, throw, throwThe, MonadExceptOf.throw]
      · obtain ⟨hi, last, rest, e, hl, hh, hlast⟩ := split_hi tail (by omega)
        have hh' : ∀ b ∈ hi, 128 ≤ b ∧ b < 256 := fun b h => ⟨hh b h, htl b (by simp [e, h])⟩
        obtain ⟨v, hv1, hv2⟩ := src_decode_variable_int hi last hh' hlast
        have hr : readVlq tail = .ok (v, rest) := by
          have := readVlqAcc_shape hi last 0 rest hh hlast
          have h0 := readVlqAcc_shape hi last 0 [] hh hlast
          simp only [readVlq, List.append_nil] at hv1 h0 ⊢
          rw [h0] at hv1
          rw [e, this]; simp at hv1; rw [hv1]
        have e3 : (((0 + 1 + 1 + hiCount tail : Nat) : Int) + 1) = ((hi.length + 3 : Nat) : Int) := by omega
        rw [e3, sliceBetween_two, sliceFromI_nat]
        have s1 : List.drop (min 2 (natsToInts (255 :: ty :: tail)).length)
            (List.take (min (hi.length + 3) (natsToInts (255 :: ty :: tail)).length) (natsToInts (255 :: ty :: tail)))
              = natsToInts (hi ++ [last]) := by
          subst e; simp [natsToInts, List.take_append]
          exact List.take_of_length_le (by simp)
        have s2 : List.drop (min (hi.length + 3) (natsToInts (255 :: ty :: tail)).length) (natsToInts (255 :: ty :: tail))
              = natsToInts rest := by
          subst e; simp [natsToInts]
          have : hi.length + 1 = (List.map Int.ofNat hi ++ [(last : Int)]).length := by simp
          rw [show List.map Int.ofNat hi ++ (last : Int) :: List.map Int.ofNat rest
                = (List.map Int.ofNat hi ++ [(last : Int)]) ++ List.map Int.ofNat rest by simp, this, List.drop_left]
        rw [s1, s2, hv2]
        simp only [hr, len]
        have hgt : ¬ (((hi.length + 3 : Nat) : Int) > ((natsToInts (255 :: ty :: tail)).length : Int)) := by
          subst e; simp [natsToInts]; omega
        have hgt2 : ¬ ((tail.length : Int) + 1 + 1 < (hi.length : Int) + 3) := by
          subst e; simp; omega
        simp [hgt, hgt2, natsToInts]
        by_cases hn : v = rest.length
        · simp [hn]
          cases ext.buildMeta (↑ty) (List.map Int.ofNat rest) 0 <;> rfl
        · have : ¬ ((v : Int) = (rest.length : Int)) := by omega
          simp [hn, this, throw, throwThe, MonadExceptOf.throw]
    · have : ¬ ((first : Int) = 255) := by omega
      simp [Src.MetaMessage.from_bytes, natsToInts, bind, Except.bind, hf, this, throw, throwThe, MonadExceptOf.throw]

/-- `MetaMessage.bytes()`: status 0xFF, the type byte, the payload length as a variable-length quantity, the payload
    (what `spec.encode(self)` returns, or raises, is a parameter) -/
theorem src_meta_bytes (tb : Int) (payload : List Nat) :
    Src.MetaMessage.bytes tb (.ok (natsToInts payload)) =
      .ok ([255, tb] ++ natsToInts (encVlq payload.length) ++ natsToInts payload) := by
  have h := src_encode_variable_int payload.length
  simp only [Src.MetaMessage.bytes, bind, Except.bind, pure, Except.pure, len, natsToInts, List.length_map] at h ⊢
  rw [h]

theorem src_meta_bytes_err (tb : Int) (e : Err) : Src.MetaMessage.bytes tb (.error e) = .error e := rfl

theorem src_unknown_meta_bytes (tb : Int) (data : List Nat) :
    Src.UnknownMetaMessage.bytes tb (natsToInts data) =
      .ok ([255, tb] ++ natsToInts (encVlq data.length) ++ natsToInts data) := by
  have h := src_encode_variable_int data.length
  simp only [Src.UnknownMetaMessage.bytes, bind, Except.bind, pure, Except.pure, len, natsToInts, List.length_map] at h ⊢
  rw [h]

/-- with `build_meta_message` instantiated by the model's `buildMeta`, the source's `from_bytes` is the model's
    `metaFromBytes` -/
theorem src_meta_from_bytes_model (cs : Charset) (bs : List Nat) (hb : ∀ b ∈ bs, b < 256) :
    Src.MetaMessage.from_bytes
        ({ buildMeta := fun ty data _ => buildMeta cs ty.toNat (data.map Int.toNat),
           mkSysex := fun _ _ => .error .Other, fromBytes := fun _ _ => .error .Other } : ReaderExt MetaEvent)
        (natsToInts bs) = metaFromBytes cs bs := by
  rw [src_meta_from_bytes _ bs hb]
  unfold metaFromBytes
  cases bs with
  | nil => rfl
  | cons first rest =>
    cases rest with
    | nil => rfl
    | cons ty tail =>
      simp only []
      by_cases hf : first ≠ 255
      · simp [hf]
      · simp only [hf, if_false]
        cases hr : readVlq tail with
        | error e => rfl
        | ok p =>
          obtain ⟨n, data⟩ := p
          have : (natsToInts data).map Int.toNat = data := by
            simp only [natsToInts, List.map_map]
            have : (Int.toNat ∘ Int.ofNat) = id := by funext x; simp
            rw [this, List.map_id]
          simp only [Int.toNat_natCast, this]

example : Src.MetaMessage.bytes 0x51 (.ok [7, 161, 32]) = .ok [255, 0x51, 3, 7, 161, 32] := by decide +kernel
example : (metaFromBytes .latin1 [255, 0x51, 3, 7, 161, 32]).toOption.isSome = true := by decide +kernel

end Mido
