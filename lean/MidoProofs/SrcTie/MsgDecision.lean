/-
  The decode_message / encode_message tie and the C02 decision theorem composed.
-/
import MidoProofs.SrcTie.Msg
import MidoProofs.Props.C02
set_option linter.unusedSimpArgs false
namespace Mido
open Mido.Py

/-- **C02 at the level of the source text**: the translated `decode_message` accepts exactly the well-formed encodings of
    one message — on every list of ints it either returns the dict of a valid message whose encoding is the input, or
    raises ValueError; which of the two is decided by the independent grammar `wellFormed` -/
theorem src_decode_decision (xs : List Int) (t : Int) :
    (wellFormed xs = true ∧ ∃ m : Msg, Src.decode_message xs t = .ok (m.decDict t) ∧ m.Valid ∧
        Src.encode_message (m.decDict t) = .ok xs) ∨
    (wellFormed xs = false ∧ Src.decode_message xs t = .error .ValueError) := by
  rw [src_decode_message]
  rcases C02_decision xs with ⟨hw, m, hm, hv, he⟩ | ⟨hw, hr⟩
  · left
    refine ⟨hw, m, by rw [hm]; rfl, hv, ?_⟩
    have henc : m.encodable := by
      cases m <;> simp [Msg.encodable]
      simp [Msg.Valid, Msg.valid] at hv; omega
    rw [src_encode_message m t henc, natsToInts, he]
  · right; exact ⟨hw, by rw [hr]; rfl⟩

end Mido
