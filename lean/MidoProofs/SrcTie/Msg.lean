/-
  Source tie for the message-dict level of mido/messages: `decode_message` and `encode_message`, translated from the
  source text (Generated/SrcMsg.lean, dicts as insertion-ordered association lists), against the model's
  `decode` / `encode`.
-/
import MidoModel.Generated.SrcMsg
import MidoProofs.SrcTie.Codec
import MidoProofs.Lemmas.DecodeInts
import MidoProofs.Props.C01
set_option linter.unusedSimpArgs false
namespace Mido
open Mido.Py

def c3n1 : C3 → String | .note_off | .note_on | .polytouch => "note" | .control_change => "control"
def c3n2 : C3 → String | .note_off | .note_on => "velocity" | .polytouch | .control_change => "value"
def c2n1 : C2 → String | .program_change => "program" | .aftertouch => "value"

def rowOf (n : Nat) : Except Err SpecRow :=
  if n < 0x80 then .error .KeyError
  else if n < 0x90 then .ok ⟨"note_off", 3, 0x80, ["channel", "note", "velocity"]⟩
  else if n < 0xa0 then .ok ⟨"note_on", 3, 0x90, ["channel", "note", "velocity"]⟩
  else if n < 0xb0 then .ok ⟨"polytouch", 3, 0xa0, ["channel", "note", "value"]⟩
  else if n < 0xc0 then .ok ⟨"control_change", 3, 0xb0, ["channel", "control", "value"]⟩
  else if n < 0xd0 then .ok ⟨"program_change", 2, 0xc0, ["channel", "program"]⟩
  else if n < 0xe0 then .ok ⟨"aftertouch", 2, 0xd0, ["channel", "value"]⟩
  else if n < 0xf0 then .ok ⟨"pitchwheel", 3, 0xe0, ["channel", "pitch"]⟩
  else if n = 0xf0 then .ok ⟨"sysex", 0, 0xf0, ["data"]⟩
  else if n = 0xf1 then .ok ⟨"quarter_frame", 2, 0xf1, ["frame_type", "frame_value"]⟩
  else if n = 0xf2 then .ok ⟨"songpos", 3, 0xf2, ["pos"]⟩
  else if n = 0xf3 then .ok ⟨"song_select", 2, 0xf3, ["song"]⟩
  else match s1OfStatus n with
    | some k => .ok ⟨k.name, 1, n, []⟩
    | none => .error .KeyError

theorem spec_rows : ∀ n < 256, dictGet Src.SPEC_BY_STATUS (Int.ofNat n) = rowOf n := by decide +kernel
theorem special_has : ∀ n < 256, dictHas Src.decode_SPECIAL_CASES (Int.ofNat n) = decide (0xe0 ≤ n ∧ n ≤ 0xf2) := by
  decide +kernel
theorem chan_has : ∀ n < 256, List.elem (Int.ofNat n) Src.CHANNEL_MESSAGES = decide (0x80 ≤ n ∧ n < 0xf0) := by
  decide +kernel

def Msg.decDict (t : Int) : Msg → PyDict
  | .chan3 k ch d1 d2 => [("type", .str k.name), ("time", .int t), (c3n1 k, .int d1), (c3n2 k, .int d2), ("channel", .int ch)]
  | .chan2 k ch d1 => [("type", .str k.name), ("time", .int t), (c2n1 k, .int d1), ("channel", .int ch)]
  | .pitchwheel ch p => [("type", .str "pitchwheel"), ("time", .int t), ("channel", .int ch), ("pitch", .int p)]
  | .sysex d => [("type", .str "sysex"), ("time", .int t), ("data", .ints (natsToInts d))]
  | .quarter_frame ft fv => [("type", .str "quarter_frame"), ("time", .int t), ("frame_type", .int ft), ("frame_value", .int fv)]
  | .songpos p => [("type", .str "songpos"), ("time", .int t), ("pos", .int p)]
  | .song_select s => [("type", .str "song_select"), ("time", .int t), ("song", .int s)]
  | .sys1 k => [("type", .str k.name), ("time", .int t)]

theorem checkDataItems_ints (ds : List Int) :
    checkDataItems (ds.map .int) = if ds.all inByteRange then .ok () else .error .ValueError := by
  induction ds with
  | nil => rfl
  | cons d rest ih =>
    simp only [List.map_cons, checkDataItems, checkDataItem, List.all_cons, ih, bind, Except.bind]
    by_cases h : 0 ≤ d ∧ d ≤ 127
    · have : inByteRange d = true := by simp [inByteRange, h]
      simp [h, this]
    · have : inByteRange d = false := by
        simp only [inByteRange, Bool.and_eq_false_iff, decide_eq_false_iff_not]; omega
      simp [h, this]

theorem model_rows : ∀ n < 256, definedStatus n = (match rowOf n with | .ok _ => true | .error _ => false) ∧
    (n ≠ 0xF0 → specLen n = (match rowOf n with | .ok r => some r.length.toNat | .error _ => none)) := by
  decide +kernel

theorem inByte_nat (a : Int) (h : inByteRange a = true) : ((a.toNat : Nat) : Int) = a := by
  simp [inByteRange] at h; omega

theorem msg0_eq (a b : DV) : dfromPairs [("type", a), ("time", b)] = [("type", a), ("time", b)] := by
  simp [dfromPairs, dupdate, dset]

/-- the model's `decode` on ints, for a status byte below 256 that is not sysex, in terms of the closed-form row -/
theorem model_plain (n : Nat) (hn : n < 256) (h240 : n ≠ 240) (ty : String) (L : Nat) (sb : Int) (names : List String)
    (hrow : rowOf n = .ok ⟨ty, (L + 1 : Nat), sb, names⟩) (data : List Int) :
    decodeInts ((n : Int) :: data) =
      if data.all inByteRange then
        if data.length = L then buildMsg n true (data.map Int.toNat) else .error .ValueError
      else .error .ValueError := by
  have ⟨hd, hl⟩ := model_rows n hn
  rw [hrow] at hd hl
  have hl := hl h240
  simp only [Int.toNat_natCast] at hd hl
  rw [decodeInts_cons]
  simp only [checkData_ints, show ¬ (n : Int) < 0 by omega, if_false, Int.toNat_natCast, hd, h240, hl, Bool.true_eq_false]
  by_cases hall : data.all inByteRange = true
  · simp only [hall, if_true, Except.bind, List.length_map]
    by_cases hlen : data.length = L
    · simp [hlen]
    · simp [hlen]
  · simp only [hall, Except.bind]; rfl

/-- the source's `decode_message` for a status byte that goes through `_decode_data_bytes` -/
theorem src_plain (n : Nat) (hn : n < 256) (ty : String) (L : Nat) (sb : Int) (names : List String)
    (hrow : rowOf n = .ok ⟨ty, (L + 1 : Nat), sb, names⟩) (hsp : ¬ (224 ≤ n ∧ n ≤ 242)) (data : List Int) (t : Int) :
    Src.decode_message ((n : Int) :: data) t =
      if data.all inByteRange then
        if data.length = L then
          .ok (dupdate [("type", .str ty), ("time", .int t)]
            (let args := dfromPairs ((List.zip (names.filter (fun x => x != "channel")) data).map (fun p => (p.1, DV.int p.2)))
             if 128 ≤ n ∧ n < 240 then dset args "channel" (.int ((n &&& 15 : Nat) : Int)) else args))
        else .error .ValueError
      else .error .ValueError := by
  have hr := spec_rows n hn
  have hs := special_has n hn
  have hc := chan_has n hn
  simp only [Int.ofNat_eq_natCast] at hr hs hc
  rw [hrow] at hr
  have h240 : n ≠ 240 := by omega
  simp only [Src.decode_message, src_check_data, checkDataItems_ints]
  simp [len, idx, sliceFrom, hr, hs, hsp, mapErr, bind, Except.bind, pure, Except.pure,
    show ¬ (n:Int) = 240 by omega, show ¬ ((data.length : Int) + 1 = 0) by omega]
  by_cases hall : ∀ x ∈ data, inByteRange x = true
  · rw [if_pos hall, if_pos hall]
    simp only [Src._decode_data_bytes, len, hc, bind, Except.bind, pure, Except.pure]
    by_cases hlen : data.length = L
    · simp [hlen]
      by_cases hch : 128 ≤ n ∧ n < 240
      · simp [hch, msg0_eq]
      · simp [hch, msg0_eq]
    · have : ¬ ((data.length : Int) = (L : Int)) := by omega
      simp [hlen, this]
      rfl
  · rw [if_neg hall, if_neg hall]

theorem dec_plain_class (n : Nat) (hn : n < 256) (ty : String) (L : Nat) (sb : Int) (names : List String)
    (hrow : rowOf n = .ok ⟨ty, (L + 1 : Nat), sb, names⟩) (hsp : ¬ (224 ≤ n ∧ n ≤ 242)) (data : List Int) (t : Int)
    (hfin : data.all inByteRange = true → data.length = L →
      (buildMsg n true (data.map Int.toNat)).map (Msg.decDict t) =
        .ok (dupdate [("type", .str ty), ("time", .int t)]
            (let args := dfromPairs ((List.zip (names.filter (fun x => x != "channel")) data).map (fun p => (p.1, DV.int p.2)))
             if 128 ≤ n ∧ n < 240 then dset args "channel" (.int ((n &&& 15 : Nat) : Int)) else args))) :
    Src.decode_message ((n : Int) :: data) t = (decodeInts ((n : Int) :: data)).map (Msg.decDict t) := by
  rw [src_plain n hn ty L sb names hrow hsp, model_plain n hn (by omega) ty L sb names hrow]
  by_cases hall : data.all inByteRange = true
  · by_cases hlen : data.length = L
    · simp only [hall, hlen, if_true]; exact (hfin hall hlen).symm
    · simp only [hall, hlen, if_true, if_false]; rfl
  · simp only [hall]; rfl

macro "ifs_omega" : tactic => `(tactic| repeat (first | rw [if_pos (by omega)] | rw [if_neg (by omega)]))

theorem dec_chan3 (k : C3) (n : Nat) (h1 : k.base ≤ n) (h2 : n < k.base + 16) (data : List Int) (t : Int) :
    Src.decode_message ((n : Int) :: data) t = (decodeInts ((n : Int) :: data)).map (Msg.decDict t) := by
  have hb : 128 ≤ n ∧ n < 192 := by cases k <;> simp [C3.base] at h1 h2 <;> omega
  apply dec_plain_class n (by omega) k.name 2 (k.base : Nat) ["channel", c3n1 k, c3n2 k]
  · cases k <;> simp only [C3.base] at h1 h2 <;> simp only [rowOf] <;> ifs_omega <;> rfl
  · omega
  · intro hall hlen
    match data, hlen with
    | [a, b], _ =>
      have ha := inByte_nat a (by simp at hall; exact hall.1)
      have hb' := inByte_nat b (by simp at hall; exact hall.2)
      have hbm : buildMsg n true [a.toNat, b.toNat] = .ok (.chan3 k (n &&& 15) a.toNat b.toNat) := by
        cases k <;> simp only [C3.base] at h1 h2 <;> simp only [buildMsg, Bool.not_true, Bool.false_eq_true, if_false] <;> ifs_omega <;> rfl
      simp only [List.map_cons, List.map_nil, hbm, Except.map, Msg.decDict, ha, hb', if_pos (show 128 ≤ n ∧ n < 240 by omega)]
      cases k <;> simp [c3n1, c3n2, dfromPairs, dupdate, dset]

theorem dec_chan2 (k : C2) (n : Nat) (h1 : k.base ≤ n) (h2 : n < k.base + 16) (data : List Int) (t : Int) :
    Src.decode_message ((n : Int) :: data) t = (decodeInts ((n : Int) :: data)).map (Msg.decDict t) := by
  have hb : 192 ≤ n ∧ n < 224 := by cases k <;> simp [C2.base] at h1 h2 <;> omega
  apply dec_plain_class n (by omega) k.name 1 (k.base : Nat) ["channel", c2n1 k]
  · cases k <;> simp only [C2.base] at h1 h2 <;> simp only [rowOf] <;> ifs_omega <;> rfl
  · omega
  · intro hall hlen
    match data, hlen with
    | [a], _ =>
      have ha := inByte_nat a (by simpa using hall)
      have hbm : buildMsg n true [a.toNat] = .ok (.chan2 k (n &&& 15) a.toNat) := by
        cases k <;> simp only [C2.base] at h1 h2 <;>
          simp only [buildMsg, Bool.not_true, Bool.false_eq_true, if_false] <;> ifs_omega <;> rfl
      simp only [List.map_cons, List.map_nil, hbm, Except.map, Msg.decDict, ha, if_pos (show 128 ≤ n ∧ n < 240 by omega)]
      cases k <;> simp [c2n1, dfromPairs, dupdate, dset]

theorem dec_song_select (data : List Int) (t : Int) :
    Src.decode_message (((243 : Nat) : Int) :: data) t = (decodeInts (((243 : Nat) : Int) :: data)).map (Msg.decDict t) := by
  apply dec_plain_class 243 (by omega) "song_select" 1 243 ["song"] (by rfl) (by omega)
  intro hall hlen
  match data, hlen with
  | [a], _ =>
    have ha := inByte_nat a (by simpa using hall)
    simp [buildMsg, Except.map, Msg.decDict, ha, dfromPairs, dupdate, dset]

theorem dec_sys1 (k : S1) (data : List Int) (t : Int) :
    Src.decode_message ((k.status : Int) :: data) t = (decodeInts ((k.status : Int) :: data)).map (Msg.decDict t) := by
  apply dec_plain_class k.status (by cases k <;> decide) k.name 0 k.status [] (by cases k <;> rfl) (by cases k <;> decide)
  intro hall hlen
  match data, hlen with
  | [], _ => cases k <;> simp [buildMsg, S1.status, s1OfStatus, Except.map, Msg.decDict, dfromPairs, dupdate, dset]

theorem special_fn : ∀ n < 256, dictGet Src.decode_SPECIAL_CASES (Int.ofNat n) =
    (if 224 ≤ n ∧ n < 240 then .ok "_decode_pitchwheel_data" else if n = 240 then .ok "_decode_sysex_data"
     else if n = 241 then .ok "_decode_quarter_frame_data" else if n = 242 then .ok "_decode_songpos_data"
     else .error .KeyError) := by decide +kernel

/-- the source's `decode_message` for a status byte with a dedicated decoder (not sysex) -/
theorem src_special (n : Nat) (hn : n < 256) (ty : String) (L : Nat) (sb : Int) (names : List String)
    (hrow : rowOf n = .ok ⟨ty, (L + 1 : Nat), sb, names⟩) (hsp : 224 ≤ n ∧ n ≤ 242) (h240 : n ≠ 240) (data : List Int) (t : Int) :
    Src.decode_message ((n : Int) :: data) t =
      if data.all inByteRange then
        if data.length = L then
          (Src.decode_SPECIAL_CASES.call (n : Int) data).map (fun v =>
            dupdate (if 128 ≤ n ∧ n < 240 then dset [("type", .str ty), ("time", .int t)] "channel" (.int ((n &&& 15 : Nat) : Int))
                     else [("type", .str ty), ("time", .int t)]) v)
        else .error .ValueError
      else .error .ValueError := by
  have hr := spec_rows n hn
  have hs := special_has n hn
  have hc := chan_has n hn
  simp only [Int.ofNat_eq_natCast] at hr hs hc
  rw [hrow] at hr
  simp only [Src.decode_message, src_check_data, checkDataItems_ints]
  have hc' : ((n : Int) ∈ Src.CHANNEL_MESSAGES) ↔ (128 ≤ n ∧ n < 240) := by
    rw [← List.elem_iff, hc]; simp
  simp [len, idx, sliceFrom, hr, hs, hsp, hc', mapErr, bind, Except.bind, pure, Except.pure, msg0_eq,
    show ¬ (n:Int) = 240 by omega, show ¬ ((data.length : Int) + 1 = 0) by omega]
  by_cases hall : ∀ x ∈ data, inByteRange x = true
  · rw [if_pos hall, if_pos hall]
    by_cases hlen : data.length = L
    · simp [hlen]
      by_cases hch : n < 240
      · simp [hch, show 128 ≤ n by omega, Except.map]
      · simp [hch, Except.map]
    · have : ¬ ((data.length : Int) = (L : Int)) := by omega
      simp [hlen, this]
      rfl
  · rw [if_neg hall, if_neg hall]

theorem dec_special_class (n : Nat) (hn : n < 256) (ty : String) (L : Nat) (sb : Int) (names : List String)
    (hrow : rowOf n = .ok ⟨ty, (L + 1 : Nat), sb, names⟩) (hsp : 224 ≤ n ∧ n ≤ 242) (h240 : n ≠ 240) (data : List Int) (t : Int)
    (hfin : data.all inByteRange = true → data.length = L →
      (buildMsg n true (data.map Int.toNat)).map (Msg.decDict t) =
        (Src.decode_SPECIAL_CASES.call (n : Int) data).map (fun v =>
            dupdate (if 128 ≤ n ∧ n < 240 then dset [("type", .str ty), ("time", .int t)] "channel" (.int ((n &&& 15 : Nat) : Int))
                     else [("type", .str ty), ("time", .int t)]) v)) :
    Src.decode_message ((n : Int) :: data) t = (decodeInts ((n : Int) :: data)).map (Msg.decDict t) := by
  rw [src_special n hn ty L sb names hrow hsp h240, model_plain n hn h240 ty L sb names hrow]
  by_cases hall : data.all inByteRange = true
  · by_cases hlen : data.length = L
    · simp only [hall, hlen, if_true]; exact (hfin hall hlen).symm
    · simp only [hall, hlen, if_true, if_false]; rfl
  · simp only [hall]; rfl

theorem dec_pitchwheel (n : Nat) (h1 : 224 ≤ n) (h2 : n < 240) (data : List Int) (t : Int) :
    Src.decode_message ((n : Int) :: data) t = (decodeInts ((n : Int) :: data)).map (Msg.decDict t) := by
  apply dec_special_class n (by omega) "pitchwheel" 2 224 ["channel", "pitch"]
  · simp only [rowOf]; ifs_omega; rfl
  · omega
  · omega
  · intro hall hlen
    match data, hlen with
    | [a, b], _ =>
      have ha := inByte_nat a (by simp at hall; exact hall.1)
      have hb' := inByte_nat b (by simp at hall; exact hall.2)
      have hf := special_fn n (by omega)
      simp only [Int.ofNat_eq_natCast] at hf
      rw [if_pos (by omega)] at hf
      have hbm : buildMsg n true [a.toNat, b.toNat] =
          .ok (.pitchwheel (n &&& 15) (pyLor (a.toNat : Int) (((b.toNat : Int) <<< 7) + (-8192)))) := by
        simp only [buildMsg, Bool.not_true, Bool.false_eq_true, if_false]; ifs_omega
      simp only [List.map_cons, List.map_nil, hbm, Except.map, Msg.decDict, ha, hb', Src.decode_SPECIAL_CASES.call, hf,
        bind, Except.bind, Src._decode_pitchwheel_data.d, idx_zero, idx_one, pure, Except.pure,
        if_pos (show 128 ≤ n ∧ n < 240 by omega)]
      simp [dfromPairs, dupdate, dset, lor, shlN, Int.shiftLeft_eq]

theorem inByte_exists (a : Int) (h : inByteRange a = true) : ∃ a' : Nat, a = (a' : Int) := by
  simp [inByteRange] at h; exact ⟨a.toNat, by omega⟩

theorem special_fn_241 : dictGet Src.decode_SPECIAL_CASES (241 : Int) = .ok "_decode_quarter_frame_data" := by decide +kernel
theorem special_fn_242 : dictGet Src.decode_SPECIAL_CASES (242 : Int) = .ok "_decode_songpos_data" := by decide +kernel
theorem special_fn_240 : dictGet Src.decode_SPECIAL_CASES (240 : Int) = .ok "_decode_sysex_data" := by decide +kernel

theorem dec_quarter_frame (data : List Int) (t : Int) :
    Src.decode_message (((241 : Nat) : Int) :: data) t = (decodeInts (((241 : Nat) : Int) :: data)).map (Msg.decDict t) := by
  apply dec_special_class 241 (by omega) "quarter_frame" 1 241 ["frame_type", "frame_value"] (by rfl) (by omega) (by omega)
  intro hall hlen
  match data, hlen with
  | [a], _ =>
    obtain ⟨a', rfl⟩ := inByte_exists a (by simpa using hall)
    simp [buildMsg, Except.map, Msg.decDict, Src.decode_SPECIAL_CASES.call, special_fn_241,
      bind, Except.bind, Src._decode_quarter_frame_data.d, pure, Except.pure, dfromPairs, dupdate, dset]

theorem dec_songpos (data : List Int) (t : Int) :
    Src.decode_message (((242 : Nat) : Int) :: data) t = (decodeInts (((242 : Nat) : Int) :: data)).map (Msg.decDict t) := by
  apply dec_special_class 242 (by omega) "songpos" 2 242 ["pos"] (by rfl) (by omega) (by omega)
  intro hall hlen
  match data, hlen with
  | [a, b], _ =>
    obtain ⟨a', rfl⟩ := inByte_exists a (by simp at hall; exact hall.1)
    obtain ⟨b', rfl⟩ := inByte_exists b (by simp at hall; exact hall.2)
    simp [buildMsg, Except.map, Msg.decDict, Src.decode_SPECIAL_CASES.call, special_fn_242,
      bind, Except.bind, Src._decode_songpos_data.d, pure, Except.pure, dfromPairs, dupdate, dset]

theorem idx_neg_one (data : List Int) :
    idx data (-1) = match data.getLast? with | some e => .ok e | none => .error .IndexError := by
  cases data with
  | nil => simp [idx]
  | cons x xs =>
    have h : ¬ ((-1 : Int) + ((xs.length + 1 : Nat) : Int) < 0) := by omega
    have h2 : ((-1 : Int) + ((xs.length + 1 : Nat) : Int)).toNat = xs.length := by omega
    simp only [idx, show ((-1 : Int) < 0) by omega, if_true, List.length_cons, h, if_false, h2,
      List.getLast?_eq_getElem?, Nat.add_sub_cancel]
    cases (x :: xs)[xs.length]? <;> rfl

theorem spec_240 : dictGet Src.SPEC_BY_STATUS (240 : Int) = .ok ⟨"sysex", 0, 240, ["data"]⟩ := by decide +kernel
theorem special_has_240 : dictHas Src.decode_SPECIAL_CASES (240 : Int) = true := by decide +kernel
theorem chan_has_240 : List.elem (240 : Int) Src.CHANNEL_MESSAGES = false := by decide +kernel

theorem natsToInts_toNat (xs : List Int) (h : ∀ x ∈ xs, inByteRange x = true) : natsToInts (xs.map Int.toNat) = xs := by
  induction xs with
  | nil => rfl
  | cons x r ih =>
    simp only [natsToInts, List.map_cons, List.map_map] at ih ⊢
    rw [ih (fun y hy => h y (by simp [hy]))]
    have := inByte_nat x (h x (by simp))
    simp only [Int.ofNat_eq_natCast, this]

theorem dec_sysex (data : List Int) (t : Int) :
    Src.decode_message ((240 : Int) :: data) t = (decodeInts ((240 : Int) :: data)).map (Msg.decDict t) := by
  rw [decodeInts_cons]
  simp only [Src.decode_message, src_check_data, checkDataItems_ints, checkData_ints]
  simp [len, idx_neg_one, sliceFrom, spec_240, special_has_240, mapErr, bind, Except.bind, pure, Except.pure, msg0_eq,
    definedStatus, show ¬ ((data.length : Int) + 1 = 0) by omega]
  have hch : ¬ ((240 : Int) ∈ Src.CHANNEL_MESSAGES) := by decide +kernel
  have hcall : ∀ d, Src.decode_SPECIAL_CASES.call 240 d = .ok [("data", .ints d)] := by
    intro d
    simp [Src.decode_SPECIAL_CASES.call, special_fn_240, bind, Except.bind, Src._decode_sysex_data.d, pure, Except.pure,
      dfromPairs, dupdate, dset]
  simp only [hch, if_false, hcall]
  cases hg : data.getLast? with
  | none =>
    have : data = [] := List.getLast?_eq_none_iff.mp hg
    subst this
    simp [throw, throwThe, MonadExceptOf.throw, Except.map]
  | some e =>
    have hne : data ≠ [] := by intro h; subst h; simp at hg
    have hpos : ¬ ((data.length : Int) < 1) := by
      have := List.length_pos_iff.mpr hne; omega
    simp only [hpos, if_false]
    by_cases he : e = 247
    · simp only [he, if_true, sliceDropLast, ← List.dropLast_eq_take]
      by_cases hall : ∀ x ∈ data.dropLast, inByteRange x = true
      · simp only [Except.map, dupdate, dset, List.foldl, List.any, Bool.or_false]
        rw [if_pos hall, if_pos hall]
        simp only [Msg.decDict, ← List.map_dropLast, natsToInts_toNat _ hall]
        simp
      · simp [hall, Except.map]
    · simp [he, throw, throwThe, MonadExceptOf.throw, Except.map]

theorem spec_keys : ∀ p ∈ Src.SPEC_BY_STATUS, 0 ≤ p.1 ∧ p.1 < 256 := by decide +kernel

theorem spec_out (s : Int) (h : s < 0 ∨ 256 ≤ s) : dictGet Src.SPEC_BY_STATUS s = .error .KeyError := by
  have : Src.SPEC_BY_STATUS.find? (fun p => p.1 == s) = none := by
    rw [List.find?_eq_none]
    intro p hp
    have := spec_keys p hp
    simp only [beq_iff_eq]; omega
  simp [dictGet, this]

theorem dec_undefined (s : Int) (data : List Int) (t : Int) (h : dictGet Src.SPEC_BY_STATUS s = .error .KeyError)
    (hm : s < 0 ∨ definedStatus s.toNat = false) :
    Src.decode_message (s :: data) t = (decodeInts (s :: data)).map (Msg.decDict t) := by
  rw [decodeInts_cons]
  simp only [Src.decode_message]
  simp [len, h, mapErr, bind, Except.bind, pure, Except.pure, show ¬ ((data.length : Int) + 1 = 0) by omega]
  rcases hm with hm | hm
  · simp [hm, Except.map]
  · by_cases h0 : s < 0
    · simp [h0, Except.map]
    · simp [h0, hm, Except.map]

theorem defined_big (n : Nat) (h : 256 ≤ n) : definedStatus n = false := by
  simp only [definedStatus, specLen]
  ifs_omega
  simp; omega

theorem s1_status (n : Nat) (k : S1) (h : s1OfStatus n = some k) : n = k.status := by
  simp only [s1OfStatus] at h
  repeat' split at h
  all_goals first | (cases h; simp [S1.status, *]) | cases h

theorem src_decode_message (xs : List Int) (t : Int) :
    Src.decode_message xs t = (decodeInts xs).map (Msg.decDict t) := by
  cases xs with
  | nil => simp [Src.decode_message, len, decodeInts, decode, Except.map, bind, Except.bind, throw, throwThe, MonadExceptOf.throw]
  | cons s data =>
    by_cases hout : s < 0 ∨ 256 ≤ s
    · apply dec_undefined s data t (spec_out s hout)
      rcases hout with h | h
      · exact .inl h
      · exact .inr (defined_big _ (by omega))
    · obtain ⟨n, rfl⟩ : ∃ n : Nat, s = n := ⟨s.toNat, by omega⟩
      have hn : n < 256 := by omega
      have hr := spec_rows n hn
      have ⟨hd, _⟩ := model_rows n hn
      simp only [Int.ofNat_eq_natCast] at hr
      by_cases c0 : n < 128
      · apply dec_undefined _ data t
        · rw [hr]; simp only [rowOf]; ifs_omega
        · right; rw [Int.toNat_natCast, hd]; simp only [rowOf]; ifs_omega
      by_cases c1 : n < 144; · exact dec_chan3 .note_off n (by simp [C3.base]; omega) (by simp [C3.base]; omega) data t
      by_cases c2 : n < 160; · exact dec_chan3 .note_on n (by simp [C3.base]; omega) (by simp [C3.base]; omega) data t
      by_cases c3 : n < 176; · exact dec_chan3 .polytouch n (by simp [C3.base]; omega) (by simp [C3.base]; omega) data t
      by_cases c4 : n < 192; · exact dec_chan3 .control_change n (by simp [C3.base]; omega) (by simp [C3.base]; omega) data t
      by_cases c5 : n < 208; · exact dec_chan2 .program_change n (by simp [C2.base]; omega) (by simp [C2.base]; omega) data t
      by_cases c6 : n < 224; · exact dec_chan2 .aftertouch n (by simp [C2.base]; omega) (by simp [C2.base]; omega) data t
      by_cases c7 : n < 240; · exact dec_pitchwheel n (by omega) c7 data t
      by_cases c8 : n = 240; · subst c8; exact dec_sysex data t
      by_cases c9 : n = 241; · subst c9; exact dec_quarter_frame data t
      by_cases c10 : n = 242; · subst c10; exact dec_songpos data t
      by_cases c11 : n = 243; · subst c11; exact dec_song_select data t
      cases hk : s1OfStatus n with
      | some k =>
        have := s1_status n k hk
        subst this
        exact dec_sys1 k data t
      | none =>
        apply dec_undefined _ data t
        · rw [hr]; simp only [rowOf]; ifs_omega; rw [hk]
        · right; rw [Int.toNat_natCast, hd]; simp only [rowOf]; ifs_omega; rw [hk]

/-! ### encode_message -/

/-- what `encode_message` needs of a message to produce bytes at all: `pitch - MIN_PITCHWHEEL` is shifted and masked,
    which the model does on naturals -/
def Msg.encodable : Msg → Prop
  | .pitchwheel _ p => -8192 ≤ p
  | _ => True

theorem spec_by_type_rows :
    dictGetS Src.SPEC_BY_TYPE "polytouch" = .ok ⟨"polytouch", 3, 0xa0, ["channel", "note", "value"]⟩ ∧
    dictGetS Src.SPEC_BY_TYPE "program_change" = .ok ⟨"program_change", 2, 0xc0, ["channel", "program"]⟩ ∧
    dictGetS Src.SPEC_BY_TYPE "aftertouch" = .ok ⟨"aftertouch", 2, 0xd0, ["channel", "value"]⟩ ∧
    dictGetS Src.SPEC_BY_TYPE "song_select" = .ok ⟨"song_select", 2, 0xf3, ["song"]⟩ ∧
    (∀ k : S1, dictGetS Src.SPEC_BY_TYPE k.name = .ok ⟨k.name, 1, k.status, []⟩) := by
  refine ⟨by decide +kernel, by decide +kernel, by decide +kernel, by decide +kernel, ?_⟩
  intro k; cases k <;> decide +kernel

theorem chan_mem : (160 : Int) ∈ Src.CHANNEL_MESSAGES ∧ (192 : Int) ∈ Src.CHANNEL_MESSAGES ∧
    (208 : Int) ∈ Src.CHANNEL_MESSAGES ∧ ¬ (243 : Int) ∈ Src.CHANNEL_MESSAGES ∧
    (∀ k : S1, ¬ ((k.status : Nat) : Int) ∈ Src.CHANNEL_MESSAGES) := by
  refine ⟨by decide +kernel, by decide +kernel, by decide +kernel, by decide +kernel, ?_⟩
  intro k; cases k <;> decide +kernel

theorem src_encode_message (m : Msg) (t : Int) (h : m.encodable) :
    Src.encode_message (m.decDict t) = .ok (natsToInts (encode m)) := by
  obtain ⟨r1, r2, r3, r4, r5⟩ := spec_by_type_rows
  obtain ⟨m1, m2, m3, m4, m5⟩ := chan_mem
  cases m with
  | chan3 k ch d1 d2 =>
    cases k
    · simp [Src.encode_message, Msg.decDict, dgetStr, C3.name, c3n1, c3n2, dictHasS, Src.encode_SPECIAL_CASES,
        Src.encode_SPECIAL_CASES.call, dictGetS, dgetInt, bind, Except.bind, pure, Except.pure, src_encode_note_off]
    · simp [Src.encode_message, Msg.decDict, dgetStr, C3.name, c3n1, c3n2, dictHasS, Src.encode_SPECIAL_CASES,
        Src.encode_SPECIAL_CASES.call, dictGetS, dgetInt, bind, Except.bind, pure, Except.pure, src_encode_note_on]
    · simp [Src.encode_message, Msg.decDict, dgetStr, C3.name, c3n1, c3n2, dictHasS, Src.encode_SPECIAL_CASES,
        r1, m1, dgetInt, bind, Except.bind, pure, Except.pure, encode, natsToInts, C3.base]
    · simp [Src.encode_message, Msg.decDict, dgetStr, C3.name, c3n1, c3n2, dictHasS, Src.encode_SPECIAL_CASES,
        Src.encode_SPECIAL_CASES.call, dictGetS, dgetInt, bind, Except.bind, pure, Except.pure, src_encode_control_change]
  | chan2 k ch d1 =>
    cases k
    · simp [Src.encode_message, Msg.decDict, dgetStr, C2.name, c2n1, dictHasS, Src.encode_SPECIAL_CASES,
        r2, m2, dgetInt, bind, Except.bind, pure, Except.pure, encode, natsToInts, C2.base]
    · simp [Src.encode_message, Msg.decDict, dgetStr, C2.name, c2n1, dictHasS, Src.encode_SPECIAL_CASES,
        r3, m3, dgetInt, bind, Except.bind, pure, Except.pure, encode, natsToInts, C2.base]
  | pitchwheel ch p =>
    simp [Src.encode_message, Msg.decDict, dgetStr, dictHasS, Src.encode_SPECIAL_CASES,
      Src.encode_SPECIAL_CASES.call, dictGetS, dgetInt, bind, Except.bind, pure, Except.pure, src_encode_pitchwheel ch p h]
  | sysex d =>
    simp [Src.encode_message, Msg.decDict, dgetStr, dictHasS, Src.encode_SPECIAL_CASES,
      Src.encode_SPECIAL_CASES.call, dictGetS, dgetInts, bind, Except.bind, pure, Except.pure, src_encode_sysex]
  | quarter_frame ft fv =>
    simp [Src.encode_message, Msg.decDict, dgetStr, dictHasS, Src.encode_SPECIAL_CASES,
      Src.encode_SPECIAL_CASES.call, dictGetS, dgetInt, bind, Except.bind, pure, Except.pure, src_encode_quarter_frame]
  | songpos p =>
    simp [Src.encode_message, Msg.decDict, dgetStr, dictHasS, Src.encode_SPECIAL_CASES,
      Src.encode_SPECIAL_CASES.call, dictGetS, dgetInt, bind, Except.bind, pure, Except.pure, src_encode_songpos]
  | song_select sg =>
    simp [Src.encode_message, Msg.decDict, dgetStr, dictHasS, Src.encode_SPECIAL_CASES,
      r4, m4, dgetInt, bind, Except.bind, pure, Except.pure, encode, natsToInts]
  | sys1 k =>
    have hk : dictHasS Src.encode_SPECIAL_CASES k.name = false := by cases k <;> decide +kernel
    simp [Src.encode_message, Msg.decDict, dgetStr, hk, r5, m5, dgetInt, bind, Except.bind, pure, Except.pure, encode, natsToInts]

/-- the round trip at the level of the source text: for every valid message, decoding (with the translated
    `decode_message`) what the translated `encode_message` produces gives back the dict it was given -/
theorem src_decode_encode (m : Msg) (t : Int) (h : m.Valid) :
    (Src.encode_message (m.decDict t)).bind (fun bs => Src.decode_message bs t) = .ok (m.decDict t) := by
  have he : m.encodable := by
    cases m <;> simp [Msg.encodable]
    simp [Msg.Valid, Msg.valid] at h; omega
  rw [src_encode_message m t he]
  simp only [Except.bind, src_decode_message]
  have := C01_decode_encode m h
  simp only [decodeNats] at this
  simp only [decodeInts, natsToInts, List.map_map]
  have e : (Item.int ∘ Int.ofNat) = (fun x => Item.int (Int.ofNat x)) := rfl
  rw [e, this]; rfl

/-! non-vacuity: concrete runs of the translated functions -/
example : Src.decode_message [0x93, 60, 100] 7 =
    .ok [("type", .str "note_on"), ("time", .int 7), ("note", .int 60), ("velocity", .int 100), ("channel", .int 3)] := by
  decide +kernel
example : Src.decode_message [0xE2, 0, 64] 0 =
    .ok [("type", .str "pitchwheel"), ("time", .int 0), ("channel", .int 2), ("pitch", .int 0)] := by decide +kernel
example : Src.decode_message [0xF0, 1, 2, 0xF7] 0 =
    .ok [("type", .str "sysex"), ("time", .int 0), ("data", .ints [1, 2])] := by decide +kernel
example : Src.decode_message [0x93, 60] 0 = .error .ValueError ∧ Src.decode_message [0xF4] 0 = .error .ValueError ∧
    Src.decode_message [0x93, 60, 128] 0 = .error .ValueError ∧ Src.decode_message [0xF0, 1] 0 = .error .ValueError := by
  decide +kernel
example : Src.encode_message ((Msg.pitchwheel 2 (-8192)).decDict 0) = .ok [0xE2, 0, 0] := by decide +kernel
example : (Msg.chan3 .note_on 3 60 100).Valid ∧ (Msg.pitchwheel 2 (-8192)).Valid := by decide

end Mido
