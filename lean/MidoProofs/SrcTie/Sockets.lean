/-
  Source tie for `parse_address` of mido/sockets.py (text as code points; `int()` is a parameter, instantiated by the model's
  reading of ASCII digits).
-/
import MidoModel.Generated.SrcSockets
import MidoModel.Socket
import MidoProofs.SrcTie.Basic
import MidoProofs.Props.C18
set_option linter.unusedSimpArgs false
namespace Mido
open Mido.Py

/-- text as the list of its code points -/
def codes (cs : List Char) : List Int := cs.map (fun c => (c.toNat : Int))

theorem codes_inv (cs : List Char) : (codes cs).map (fun c => Char.ofNat c.toNat) = cs := by
  induction cs with
  | nil => rfl
  | cons c r ih =>
    simp only [codes, List.map_cons, List.map_map] at ih ⊢
    rw [ih]
    simp [Char.ofNat_toNat]

theorem colon_code (c : Char) : ((c.toNat : Int) = 58) ↔ c = ':' := by
  constructor
  · intro h
    have h' : c.toNat = 58 := by omega
    have := Char.ofNat_toNat c
    rw [h'] at this
    exact this.symm
  · intro h; subst h; rfl

theorem src_split_aux : ∀ (s cur : List Char),
    splitCodeAux 58 (codes cur) (codes s) = (splitColonAux cur s).map codes
  | [], cur => by simp [splitCodeAux, splitColonAux, codes, List.map_reverse]
  | c :: r, cur => by
    simp only [codes, List.map_cons, splitCodeAux, splitColonAux]
    by_cases hc : c = ':'
    · subst hc
      have ih := src_split_aux r []
      simp only [codes, List.map_nil] at ih
      have h58 : ((':'.toNat : Int) = 58) := rfl
      simp only [h58, if_true, List.map_cons, List.map_reverse, ih, codes]
    · have : ¬ ((c.toNat : Int) = 58) := fun h => hc ((colon_code c).mp h)
      simp only [this, hc, if_false]
      have ih := src_split_aux r (c :: cur)
      simp only [codes, List.map_cons] at ih
      exact ih

theorem src_split (s : List Char) : splitCode 58 (codes s) = (splitColon s).map codes := by
  have := src_split_aux s []
  simpa [splitCode, splitColon, codes] using this

/-- `int(text)` as the model reads it: non-empty ASCII digits -/
def modelInt (p : List Int) : Except Err Int :=
  match parseNat (p.map (fun c => Char.ofNat c.toNat)) with
  | some n => .ok (n : Int)
  | none => .error .ValueError

/-- **`parse_address`** of the source (`split(':')`, exactly two parts, `int()`, the range test) is the model's -/
theorem src_parse_address (s : List Char) :
    Src.parse_address (codes s) modelInt = (parseAddress s).map (fun r => (codes r.1, (r.2 : Int))) := by
  unfold Src.parse_address parseAddress
  rw [src_split]
  have hpow : pow 2 16 = .ok 65536 := by decide
  cases hsp : splitColon s with
  | nil => simp [len, bind, Except.bind, Except.map, throw, throwThe, MonadExceptOf.throw]
  | cons h t =>
    cases t with
    | nil => simp [len, bind, Except.bind, Except.map, throw, throwThe, MonadExceptOf.throw]
    | cons p t2 =>
      cases t2 with
      | cons x y =>
        have : ¬ (((y.length : Int) + 1 + 1 + 1) = 2) := by omega
        simp [len, bind, Except.bind, Except.map, throw, throwThe, MonadExceptOf.throw, this]
      | nil =>
        simp only [List.map_cons, List.map_nil, len, List.length_cons, List.length_nil, bind, Except.bind, pure, Except.pure,
          idx_zero, idx_one]
        have h2 : ((((0 + 1 + 1 : Nat) : Int) != 2) = true) = False := by simp
        simp only [h2, if_false, hpow, modelInt, codes_inv]
        cases hn : parseNat p with
        | none => simp [mapErr, Except.map]
        | some n =>
          simp only [mapErr, Except.map]
          by_cases hr : 0 < n ∧ n < 65536
          · have : (!(decide ((0 : Int) < (n : Int)) && decide ((n : Int) < 65536))) = false := by
              simp; omega
            simp [this, hr]
            omega
          · have : (!(decide ((0 : Int) < (n : Int)) && decide ((n : Int) < 65536))) = true := by
              simp; omega
            simp [this, hr, throw, throwThe, MonadExceptOf.throw]
            omega

/-- **C18's address clause at the level of the source text**: the translated `parse_address` reads back every formatted
    host:port pair (host without a colon, port 1..65535) -/
theorem src_parse_format (h : List Char) (p : Nat) (hh : ∀ c ∈ h, c ≠ ':') (hp : 0 < p ∧ p < 65536) :
    Src.parse_address (codes (formatAddress h p)) modelInt = .ok (codes h, (p : Int)) := by
  rw [src_parse_address, C18_address h p hh hp]; rfl

example : Src.parse_address (codes "localhost:8080".toList) modelInt = .ok (codes "localhost".toList, 8080) := by decide +kernel
example : Src.parse_address (codes "h:65536".toList) modelInt = .error .ValueError ∧
    Src.parse_address (codes "a:b:1".toList) modelInt = .error .ValueError ∧
    Src.parse_address (codes "h:65535".toList) modelInt = .ok (codes "h".toList, 65535) := by decide +kernel
end Mido
