import MidoModel.Smf
import MidoModel.Generated.SrcFileIO
import MidoProofs.SrcTie.Basic
import MidoProofs.SrcTie.Codec
import MidoProofs.SrcTie.Vlq
set_option linter.unusedSimpArgs false
/-!
  Source tie, MIDI file writer: `write_track` and `write_chunk` as translated from the text of
  `mido/midifiles/midifiles.py` (two loops over the track, `fix_end_of_track`, the running-status
  bookkeeping, the chunk header) produce, for every track, the bytes of the model's `writeTrack`, and fail
  where it fails with the same class of exception.
-/
namespace Mido
open Mido.Py

/-! ### `fix_end_of_track` on arbitrary message records -/

def fixTAcc : Int → List TMsg → List TMsg × Int
  | acc, [] => ([], acc)
  | acc, m :: ms =>
    if m.eot then fixTAcc (acc + m.time) ms
    else
      let m' := if acc != 0 then { m with time := acc + m.time } else m
      let r := fixTAcc 0 ms
      (m' :: r.1, r.2)

/-- the end_of_track message `fix_end_of_track` creates -/
def eotT (acc : Int) : TMsg := { id := 0, eot := true, time := acc, isMeta := true, bytes := .ok [255, 47, 0] }

theorem src_fixT_loop (F : TMsg → List TMsg × Int → Except Err (ForInStep (List TMsg × Int)))
    (hF : ∀ msg s, F msg s =
      if msg.eot = true then .ok (.yield (s.1, s.2 + msg.time))
      else if (s.2 != 0) = true then .ok (.yield (s.1 ++ [{ msg with time := s.2 + msg.time }], 0))
      else .ok (.yield (s.1 ++ [msg], s.2))) :
    ∀ (ms : List TMsg) (out : List TMsg) (acc : Int),
      forIn ms (out, acc) F = .ok (out ++ (fixTAcc acc ms).1, (fixTAcc acc ms).2)
  | [], out, acc => by simp [fixTAcc, pure, Except.pure]
  | m :: ms, out, acc => by
    rw [List.forIn_cons, hF]
    by_cases he : m.eot = true
    · have h := src_fixT_loop F hF ms out (acc + m.time)
      simp only [he, if_true, bind, Except.bind, fixTAcc] at h ⊢
      exact h
    · have he' : m.eot = false := by simpa using he
      by_cases ha : (acc != 0) = true
      · have h := src_fixT_loop F hF ms (out ++ [{ m with time := acc + m.time }]) 0
        simp only [he', ha, if_true, bind, Except.bind, fixTAcc, Bool.false_eq_true, if_false, List.append_assoc,
          List.singleton_append] at h ⊢
        exact h
      · have h := src_fixT_loop F hF ms (out ++ [m]) acc
        have ha0 : acc = 0 := by simpa using ha
        subst ha0
        simp only [he', ha, bind, Except.bind, fixTAcc, Bool.false_eq_true, if_false, List.append_assoc,
          List.singleton_append] at h ⊢
        exact h

theorem src_fix_gen (ms : List TMsg) :
    Src.fix_end_of_track ms = .ok ((fixTAcc 0 ms).1 ++ [eotT (fixTAcc 0 ms).2]) := by
  simp only [Src.fix_end_of_track, bind, Except.bind, pure, Except.pure]
  have h := fun F hF => src_fixT_loop F hF ms [] 0
  rw [h]
  · simp [eotT]
  · intro msg s; rfl

/-! ### `write_chunk` -/

theorem packU32_eq (n : Nat) (h : n < 4294967296) : packU32 (n : Int) = .ok (natsToInts (u32be n)) := by
  have h1 : (0 : Int) ≤ n ∧ (n : Int) / 4294967296 = 0 := by omega
  simp only [packU32, h1, and_self, if_true, u32be, natsToInts, List.map_cons, List.map_nil]
  congr 1

theorem src_write_chunk_unfold (out name data : List Int) :
    Src.write_chunk out name data = (do let p ← packU32 (len data); pure ((), out ++ name ++ p ++ data)) := by
  unfold Src.write_chunk
  rfl

theorem src_write_chunk (out name : List Int) (data : List Nat) (h : data.length < 4294967296) :
    Src.write_chunk out name (natsToInts data)
      = .ok ((), out ++ name ++ natsToInts (u32be data.length) ++ natsToInts data) := by
  have hl : len (natsToInts data) = (data.length : Int) := by simp [len, natsToInts]
  rw [src_write_chunk_unfold, hl, packU32_eq data.length h]
  rfl

/-! ### the model's file events as the translator's message records -/

/-- `msg.bytes()` of a file event under the file's charset -/
def eventBytes (cs : Charset) : FEv → Except Err (List Nat)
  | .msg m => .ok (encode m)
  | .metaEv m => metaBytes cs m
  | .unknownMeta tb data =>
    if data.all (· < 256) && tb < 256 then .ok ([0xff, tb] ++ encVlq data.length ++ data) else .error .ValueError

def isSysexEv : FEv → Bool | .msg (.sysex _) => true | _ => false
def sysexData : FEv → List Nat | .msg (.sysex d) => d | _ => []

def TEvent.toW (cs : Charset) (e : TEvent) : TMsg :=
  { id := 0, eot := e.ev.isEot,
    time := match e.time with | .int n => n | _ => 0,
    timeIsInt := match e.time with | .int _ => true | _ => false,
    isRealtime := e.ev.isRealtime, isMeta := e.ev.isMeta, isSysex := isSysexEv e.ev,
    bytes := (eventBytes cs e.ev).map natsToInts, data := natsToInts (sysexData e.ev) }

/-! ### the first loop: every time is a non-negative integer -/

theorem src_wt_check (cs : Charset) (F : TMsg → PUnit → Except Err (ForInStep PUnit))
    (hF : ∀ msg s, F msg s =
      if (!msg.timeIsInt) = true then .error .ValueError
      else if decide (msg.time < 0) = true then .error .ValueError else .ok (.yield PUnit.unit)) :
    ∀ tr : List TEvent,
      forIn (tr.map (TEvent.toW cs)) PUnit.unit F = if tr.all timeOk = true then .ok PUnit.unit else .error .ValueError
  | [] => by simp [pure, Except.pure]
  | e :: tr => by
    have ih := src_wt_check cs F hF tr
    rw [List.map_cons, List.forIn_cons, hF]
    cases ht : e.time with
    | int n =>
      by_cases hn : n < 0
      · have : ¬ (0 ≤ n) := by omega
        simp [TEvent.toW, ht, hn, timeOk, this, bind, Except.bind]
      · have h0 : 0 ≤ n := by omega
        simp only [TEvent.toW, ht, hn, timeOk, h0, bind, Except.bind, List.all_cons, decide_true, Bool.true_and,
          Bool.not_true, Bool.false_eq_true, if_false, decide_false]
        exact ih
    | flt _ | str _ | none | list _ | tuple _ | bytes _ =>
      simp [TEvent.toW, ht, timeOk, bind, Except.bind]

/-! ### the second loop: delta time, event bytes, running status -/

/-- one round of the second loop of `write_track`, written out (the shape the translated body reduces to) -/
def wtStep (msg : TMsg) (s : List Int × Option Int) : Except Err (ForInStep (List Int × Option Int)) :=
  if msg.isRealtime = true then .error .ValueError else
  match Src.encode_variable_int msg.time with
  | .error err => .error err
  | .ok v =>
    if msg.isMeta = true then
      match msg.bytes with
      | .error err => .error err
      | .ok b => .ok (.yield (s.1 ++ v ++ b, none))
    else if msg.isSysex = true then
      match Src.encode_variable_int (len msg.data + 1) with
      | .error err => .error err
      | .ok v1 => .ok (.yield (s.1 ++ v ++ [240] ++ v1 ++ msg.data ++ [247], none))
    else
      match msg.bytes with
      | .error err => .error err
      | .ok b =>
        match idx b 0 with
        | .error err => .error err
        | .ok st =>
          if (some st == s.2) = true then
            if decide (st < 240) = true then .ok (.yield (s.1 ++ v ++ sliceFrom b 1, some st))
            else .ok (.yield (s.1 ++ v ++ sliceFrom b 1, none))
          else
            if decide (st < 240) = true then .ok (.yield (s.1 ++ v ++ b, some st))
            else .ok (.yield (s.1 ++ v ++ b, none))

theorem encode_cons (m : Msg) : ∃ s d, encode m = s :: d := by
  cases m <;> simp [encode]


theorem optInt_beq (s : Nat) (r : Option Nat) : (some (s : Int) == optInt r) = decide (some s = r) := by
  cases r with
  | none => simp [optInt]
  | some x =>
    by_cases h : s = x
    · subst h; simp [optInt]
    · have : ¬ ((s : Int) = (x : Int)) := by omega
      simp [optInt, h, this]

theorem natsToInts_append (a b : List Nat) : natsToInts (a ++ b) = natsToInts a ++ natsToInts b := by
  simp [natsToInts]

/-- the second loop over events whose times are natural numbers: the bytes of the model's `writeEvents`, or its
    exception -/
theorem src_wt_loop (cs : Charset) (F : TMsg → List Int × Option Int → Except Err (ForInStep (List Int × Option Int)))
    (hF : ∀ msg s, F msg s = wtStep msg s) :
    ∀ (es : List TEvent) (data : List Int) (running : Option Nat),
      (∀ e ∈ es, ∃ n : Nat, e.time = .int n) →
      match writeEvents cs running es with
      | .ok body => ∃ r', forIn (es.map (TEvent.toW cs)) (data, optInt running) F = .ok (data ++ natsToInts body, r')
      | .error err => forIn (es.map (TEvent.toW cs)) (data, optInt running) F = .error err
  | [], data, running, _ => by
    simp [writeEvents, natsToInts, pure, Except.pure]
  | e :: es, data, running, hall => by
    obtain ⟨n, hn⟩ := hall e (by simp)
    have hall' : ∀ e ∈ es, ∃ n : Nat, e.time = .int n := fun x hx => hall x (by simp [hx])
    have hneg : ¬ ((n : Int) < 0) := by omega
    have hv := src_encode_variable_int n
    rw [List.map_cons, List.forIn_cons, hF]
    simp only [writeEvents, hn, hneg, if_false]
    by_cases hrt : e.ev.isRealtime = true
    · simp [wtStep, TEvent.toW, hrt, bind, Except.bind]
    · have hrt' : e.ev.isRealtime = false := by simpa using hrt
      simp only [hrt', Bool.false_eq_true, if_false]
      -- the event's own bytes
      cases hev : e.ev with
      | metaEv m =>
        cases hb : metaBytes cs m with
        | error err =>
          simp [wtStep, TEvent.toW, hev, hn, hv, hb, FEv.isRealtime, FEv.isMeta, eventBytes, writeEvent, Except.map,
            bind, Except.bind]
        | ok b =>
          have ih := src_wt_loop cs F hF es (data ++ natsToInts (encVlq n) ++ natsToInts b) none hall'
          simp only [writeEvent, hb, bind, Except.bind, pure, Except.pure]
          cases hw : writeEvents cs none es with
          | error err =>
            simp only [hw] at ih
            simp [wtStep, TEvent.toW, hev, hn, hv, hb, FEv.isRealtime, FEv.isMeta, eventBytes, Except.map, bind,
              Except.bind, optInt] at ih ⊢
            exact ih
          | ok rest =>
            simp only [hw] at ih
            obtain ⟨r', hr⟩ := ih
            refine ⟨r', ?_⟩
            simp [wtStep, TEvent.toW, hev, hn, hv, hb, FEv.isRealtime, FEv.isMeta, eventBytes, Except.map, bind,
              Except.bind, optInt, natsToInts_append] at hr ⊢
            exact hr
      | unknownMeta tb d =>
        by_cases hc : (d.all (· < 256) && decide (tb < 256)) = true
        · have ih := src_wt_loop cs F hF es
            (data ++ natsToInts (encVlq n) ++ natsToInts ([0xff, tb] ++ encVlq d.length ++ d)) none hall'
          simp only [writeEvent, hc, if_true, bind, Except.bind, pure, Except.pure]
          cases hw : writeEvents cs none es with
          | error err =>
            simp only [hw] at ih
            simp [wtStep, TEvent.toW, hev, hn, hv, hc, FEv.isRealtime, FEv.isMeta, eventBytes, Except.map, bind,
              Except.bind, optInt, natsToInts, List.map_append, List.map_cons, List.append_assoc] at ih ⊢
            exact ih
          | ok rest =>
            simp only [hw] at ih
            obtain ⟨r', hr⟩ := ih
            refine ⟨r', ?_⟩
            simp [wtStep, TEvent.toW, hev, hn, hv, hc, FEv.isRealtime, FEv.isMeta, eventBytes, Except.map, bind,
              Except.bind, optInt, natsToInts, List.map_append, List.map_cons, List.append_assoc] at hr ⊢
            exact hr
        · simp [wtStep, TEvent.toW, hev, hn, hv, hc, FEv.isRealtime, FEv.isMeta, eventBytes, writeEvent, Except.map,
            bind, Except.bind]
      | msg m =>
        by_cases hsx : ∃ d, m = .sysex d
        · obtain ⟨d, rfl⟩ := hsx
          have hlen : len (List.map Int.ofNat d) + 1 = ((d.length + 1 : Nat) : Int) := by simp [len]
          have hv1 : Src.encode_variable_int (len (List.map Int.ofNat d) + 1)
              = .ok (List.map Int.ofNat (encVlq (d.length + 1))) := by
            rw [hlen]; exact src_encode_variable_int (d.length + 1)
          have ih := src_wt_loop cs F hF es
            (data ++ natsToInts (encVlq n) ++ natsToInts ([0xf0] ++ encVlq (d.length + 1) ++ d ++ [0xf7])) none hall'
          simp only [writeEvent, bind, Except.bind, pure, Except.pure]
          cases hw : writeEvents cs none es with
          | error err =>
            simp only [hw] at ih
            simp [wtStep, TEvent.toW, hev, hn, hv, hv1, FEv.isRealtime, FEv.isMeta, isSysexEv, sysexData,
              eventBytes, Except.map, bind, Except.bind, optInt, natsToInts, List.map_append, List.map_cons,
              List.append_assoc] at ih ⊢
            exact ih
          | ok rest =>
            simp only [hw] at ih
            obtain ⟨r', hr⟩ := ih
            refine ⟨r', ?_⟩
            simp [wtStep, TEvent.toW, hev, hn, hv, hv1, FEv.isRealtime, FEv.isMeta, isSysexEv, sysexData,
              eventBytes, Except.map, bind, Except.bind, optInt, natsToInts, List.map_append, List.map_cons,
              List.append_assoc] at hr ⊢
            exact hr
        · have hns : isSysexEv (.msg m) = false := by
            cases m <;> simp [isSysexEv] at hsx ⊢
          obtain ⟨s0, ds, henc⟩ := encode_cons m
          have hwe : writeEvent cs running (.msg m) =
              .ok (if some s0 = running then ds else s0 :: ds, if s0 < 0xf0 then some s0 else none) := by
            cases m <;> simp_all [writeEvent, List.headD, List.tail]
          have hidx : idx (natsToInts (s0 :: ds)) 0 = .ok (s0 : Int) := by simp [natsToInts]
          have hlt : decide ((s0 : Int) < 240) = decide (s0 < 0xf0) := by
            by_cases h : s0 < 0xf0
            · have : (s0 : Int) < 240 := by omega
              simp [h, this]
            · have : ¬ ((s0 : Int) < 240) := by omega
              simp [h, this]
          have hbeq := optInt_beq s0 running
          simp only [hwe, bind, Except.bind, pure, Except.pure]
          have ih := src_wt_loop cs F hF es
            (data ++ natsToInts (encVlq n) ++ natsToInts (if some s0 = running then ds else s0 :: ds))
            (if s0 < 0xf0 then some s0 else none) hall'
          have hstep : wtStep (TEvent.toW cs e) (data, optInt running) =
              .ok (.yield (data ++ natsToInts (encVlq n) ++ natsToInts (if some s0 = running then ds else s0 :: ds),
                optInt (if s0 < 0xf0 then some s0 else none))) := by
            have hrtm : (FEv.msg m).isRealtime = false := by rw [← hev]; exact hrt'
            simp only [wtStep, TEvent.toW, hev, hn, hv, hns, hrtm, FEv.isMeta, eventBytes, Except.map, henc, hidx,
              hbeq, hlt, Bool.false_eq_true, if_false]
            by_cases h1 : some s0 = running <;> by_cases h2 : s0 < 0xf0
            · subst h1; simp [h2, optInt, sliceFrom, natsToInts]
            · subst h1; simp [h2, optInt, sliceFrom, natsToInts]
            · simp [h1, h2, optInt, sliceFrom, natsToInts]
            · simp [h1, h2, optInt, sliceFrom, natsToInts]
          rw [hstep]
          cases hw : writeEvents cs (if s0 < 0xf0 then some s0 else none) es with
          | error err =>
            simp only [hw] at ih
            simpa [bind, Except.bind] using ih
          | ok rest =>
            simp only [hw] at ih
            obtain ⟨r', hr⟩ := ih
            refine ⟨r', ?_⟩
            simp only [bind, Except.bind, natsToInts_append, List.append_assoc] at hr ⊢
            exact hr

/-! ### `fix_end_of_track` of the model (Python values as times) and of the translated code -/

theorem toW_eot (cs : Charset) (acc : Nat) : TEvent.toW cs (eotEvent (.int acc)) = eotT acc := by
  simp [TEvent.toW, eotEvent, eotT, FEv.isEot, FEv.isRealtime, FEv.isMeta, isSysexEv, sysexData, eventBytes,
    metaBytes, metaPayload, MetaType.typeByte, encVlq, encVlqAux, natsToInts, Except.map, bind, Except.bind,
    pure, Except.pure]

set_option maxRecDepth 8000 in
theorem fixEot_toW (cs : Charset) : ∀ (tr : List TEvent) (acc : Nat), tr.all timeOk = true →
    ∃ fixed, fixEotEvents (.int acc) tr = .ok fixed ∧
      fixed.map (TEvent.toW cs) =
        (fixTAcc acc (tr.map (TEvent.toW cs))).1 ++ [eotT (fixTAcc acc (tr.map (TEvent.toW cs))).2] ∧
      ∀ e ∈ fixed, ∃ n : Nat, e.time = .int n
  | [], acc, _ => ⟨[eotEvent (.int acc)], by simp [fixEotEvents], by simp [fixTAcc, toW_eot],
      by intro e he; simp at he; subst he; exact ⟨acc, rfl⟩⟩
  | e :: tr, acc, h => by
    have h' := List.all_cons.symm ▸ h
    simp only [List.all_cons, Bool.and_eq_true] at h
    obtain ⟨he, htr⟩ := h
    have : ∃ k : Nat, e.time = .int k := by
      cases ht : e.time with
      | int n =>
        have : 0 ≤ n := by simpa [timeOk, ht] using he
        exact ⟨n.toNat, by rw [Int.toNat_of_nonneg this]⟩
      | flt _ | str _ | none | list _ | tuple _ | bytes _ => simp [timeOk, ht] at he
    obtain ⟨k, hk⟩ := this
    by_cases hEot : e.ev.isEot = true
    · obtain ⟨fixed, h1, h2, h3⟩ := fixEot_toW cs tr (acc + k) htr
      refine ⟨fixed, ?_, ?_, h3⟩
      · rw [Int.natCast_add] at h1
        simp [fixEotEvents, hEot, hk, pyAdd, bind, Except.bind, h1]
      · have : ((acc : Int) + (k : Int)) = ((acc + k : Nat) : Int) := by omega
        simp only [List.map_cons, fixTAcc, TEvent.toW, hEot, hk, if_true, this] at h2 ⊢
        exact h2
    · have hEot' : e.ev.isEot = false := by simpa using hEot
      obtain ⟨fixed, h1, h2, h3⟩ := fixEot_toW cs tr 0 htr
      have z : ((0 : Nat) : Int) = 0 := rfl
      rw [z] at h1 h2
      by_cases ha : acc = 0
      · subst ha
        refine ⟨e :: fixed, ?_, ?_, ?_⟩
        · simp [fixEotEvents, hEot', pyTruthy, h1, bind, Except.bind, pure, Except.pure]
        · simp only [List.map_cons, fixTAcc, TEvent.toW, hEot', hk, Bool.false_eq_true, if_false, z, bne_self_eq_false,
            List.cons_append] at h2 ⊢
          rw [h2]
        · intro x hx
          simp only [List.mem_cons] at hx
          rcases hx with rfl | hx
          · exact ⟨k, hk⟩
          · exact h3 x hx
      · have hne : ((acc : Int) != 0) = true := by simp; omega
        refine ⟨⟨e.ev, .int (acc + k : Nat)⟩ :: fixed, ?_, ?_, ?_⟩
        · simp [fixEotEvents, hEot', pyTruthy, hne, hk, pyAdd, h1, bind, Except.bind, pure, Except.pure]
        · have : ((acc : Int) + (k : Int)) = ((acc + k : Nat) : Int) := by omega
          simp only [List.map_cons, fixTAcc, TEvent.toW, hEot', hk, hne, Bool.false_eq_true, if_false, if_true,
            List.cons_append, this] at h2 ⊢
          rw [h2]
        · intro x hx
          simp only [List.mem_cons] at hx
          rcases hx with rfl | hx
          · exact ⟨acc + k, rfl⟩
          · exact h3 x hx

/-! ### `write_track` -/

/-- one round of the first loop -/
def chkStep (msg : TMsg) (_ : PUnit) : Except Err (ForInStep PUnit) :=
  if (!msg.timeIsInt) = true then .error .ValueError
  else if decide (msg.time < 0) = true then .error .ValueError else .ok (.yield PUnit.unit)

theorem forIn_chk (l : List TMsg) (F : TMsg → PUnit → Except Err (ForInStep PUnit))
    (hF : ∀ msg s, F msg s = chkStep msg s) : forIn l PUnit.unit F = forIn l PUnit.unit chkStep := by
  have : F = chkStep := funext fun m => funext fun s => hF m s
  rw [this]

theorem forIn_wt (l : List TMsg) (init : List Int × Option Int)
    (F : TMsg → List Int × Option Int → Except Err (ForInStep (List Int × Option Int)))
    (hF : ∀ msg s, F msg s = wtStep msg s) : forIn l init F = forIn l init wtStep := by
  have : F = wtStep := funext fun m => funext fun s => hF m s
  rw [this]

/-- `write_track`, as translated from the source, writes for EVERY track (any events, any Python values as times)
    exactly the chunk of the model's `writeTrack` behind what the output file already holds, and raises where the
    model raises, with the same class.  The only hypothesis is that a chunk body fits the 32-bit length field
    (`struct.pack('>L', …)` raises otherwise; the model's `u32be` does not). -/
theorem src_write_track (cs : Charset) (out : List Int) (tr : List TEvent)
    (hsize : ∀ fixed body, fixEotEvents (.int 0) tr = .ok fixed → writeEvents cs none fixed = .ok body →
      body.length < 4294967296) :
    Src.write_track out (tr.map (TEvent.toW cs)) =
      match writeTrack cs tr with
      | .ok b => .ok ((), out ++ natsToInts b)
      | .error e => .error e := by
  unfold Src.write_track
  simp only [bind, Except.bind, pure, Except.pure]
  rw [forIn_chk]
  case hF => intro msg s; rfl
  rw [src_wt_check cs chkStep (fun _ _ => rfl) tr]
  by_cases hok : tr.all timeOk = true
  · obtain ⟨fixed, hfix, hmap, hnat⟩ := fixEot_toW cs tr 0 hok
    have z : ((0 : Nat) : Int) = 0 := rfl
    rw [z] at hfix hmap
    simp only [hok, if_true, src_fix_gen, ← hmap]
    rw [forIn_wt]
    case hF =>
      intro msg s
      simp only [wtStep, throw, throwThe, MonadExceptOf.throw]
      -- the two sides differ only in which auxiliary `match` function the elaborator generated: decide each
      -- discriminant so that both reduce
      by_cases h1 : msg.isRealtime = true
      · simp only [h1, if_true]
      · simp only [h1, if_false]
        cases Src.encode_variable_int msg.time with
        | error e => rfl
        | ok v =>
          by_cases h2 : msg.isMeta = true
          · simp only [h2, if_true]
            cases msg.bytes <;> rfl
          · simp only [h2, if_false]
            by_cases h3 : msg.isSysex = true
            · simp only [h3, if_true]
              cases Src.encode_variable_int (len msg.data + 1) <;> rfl
            · simp only [h3, if_false]
              cases msg.bytes with
              | error e => rfl
              | ok b =>
                simp only [Bool.false_eq_true, if_false]
                cases idx b 0 <;> rfl
    have hloop := src_wt_loop cs wtStep (fun _ _ => rfl) fixed [] none hnat
    simp only [writeTrack, hok, Bool.not_true, Bool.false_eq_true, if_false, hfix, bind, Except.bind, pure, Except.pure]
    cases hw : writeEvents cs none fixed with
    | error err =>
      simp only [hw] at hloop
      simp only [optInt, Option.map_none] at hloop
      rw [hloop]
    | ok body =>
      simp only [hw] at hloop
      obtain ⟨r', hr⟩ := hloop
      simp only [optInt, Option.map_none, List.nil_append] at hr
      rw [hr]
      simp only []
      rw [src_write_chunk out _ body (hsize fixed body hfix hw)]
      simp [mtrk, natsToInts, List.append_assoc]
  · have hok' : tr.all timeOk = false := by simpa using hok
    simp [writeTrack, hok', throw, throwThe, MonadExceptOf.throw, bind, Except.bind]

/-! ### `MidiFile.save` / `_save` -/

theorem packI16_eq (v : Int) : packI16 v = (i16be v).map natsToInts := by
  unfold packI16 i16be
  by_cases h : -32768 ≤ v ∧ v ≤ 32767
  · simp only [h, and_self, if_true, Except.map, natsToInts, List.map_cons, List.map_nil]
    by_cases hv : v < 0
    · simp only [hv, if_true]
      congr 1
      have : 0 ≤ v + 65536 := by omega
      obtain ⟨k, hk⟩ := Int.eq_ofNat_of_zero_le this
      simp only [hk, Int.toNat_natCast, Int.ofNat_eq_natCast]
      simp
    · simp only [hv, if_false]
      congr 1
      have : 0 ≤ v := by omega
      obtain ⟨k, hk⟩ := Int.eq_ofNat_of_zero_le this
      simp only [hk, Int.toNat_natCast, Int.ofNat_eq_natCast]
      simp
  · simp [h, Except.map]

/-- the hypothesis of `src_write_track` for every track of a file -/
def tracksFit (cs : Charset) (trs : List (List TEvent)) : Prop :=
  ∀ tr ∈ trs, ∀ fixed body, fixEotEvents (.int 0) tr = .ok fixed → writeEvents cs none fixed = .ok body →
    body.length < 4294967296

theorem src_save_loop (cs : Charset) (F : List TMsg → List Int → Except Err (ForInStep (List Int)))
    (hF : ∀ track s, F track s = (match Src.write_track s track with
      | .error err => .error err | .ok v => .ok (.yield v.2))) :
    ∀ (trs : List (List TEvent)) (out : List Int), tracksFit cs trs →
      forIn (trs.map (·.map (TEvent.toW cs))) out F =
        match writeTracks cs trs with
        | .ok b => .ok (out ++ natsToInts b)
        | .error e => .error e
  | [], out, _ => by simp [writeTracks, natsToInts, pure, Except.pure]
  | tr :: trs, out, hfit => by
    have h1 := src_write_track cs out tr (hfit tr (by simp))
    have hfit' : tracksFit cs trs := fun t ht => hfit t (by simp [ht])
    rw [List.map_cons, List.forIn_cons, hF, h1]
    simp only [writeTracks, bind, Except.bind, pure, Except.pure]
    cases hw : writeTrack cs tr with
    | error e => simp
    | ok a =>
      have ih := src_save_loop cs F hF trs (out ++ natsToInts a) hfit'
      simp only []
      rw [ih]
      cases writeTracks cs trs with
      | error e => rfl
      | ok b => simp [natsToInts_append, List.append_assoc]

theorem forIn_save (l : List (List TMsg)) (init : List Int) (F : List TMsg → List Int → Except Err (ForInStep (List Int)))
    (hF : ∀ track s, F track s = (match Src.write_track s track with
      | .error err => .error err | .ok v => .ok (.yield v.2))) :
    forIn l init F = forIn l init (fun track s => match Src.write_track s track with
      | .error err => .error err | .ok v => .ok (.yield v.2)) := by
  have : F = _ := funext fun t => funext fun s => hF t s
  rw [this]

/-- `MidiFile.save(file=…)`, as translated from the source (type-0 rule, `struct.pack('>hhh', …)`, header chunk, one
    `write_track` per track), writes for EVERY file the bytes of the model's `writeFile`, and raises where it raises -/
theorem src_save (cs : Charset) (out : List Int) (f : MFile) (hfit : tracksFit cs f.tracks) :
    Src.MidiFile.save f.type (f.tracks.map (·.map (TEvent.toW cs))) f.tpb out =
      match writeFile cs f with
      | .ok b => .ok ((), out ++ natsToInts b)
      | .error e => .error e := by
  unfold Src.MidiFile.save Src.MidiFile._save
  have hl : len (f.tracks.map (·.map (TEvent.toW cs))) = (f.tracks.length : Int) := by simp [len]
  simp only [bind, Except.bind, pure, Except.pure, hl]
  unfold writeFile
  by_cases h0 : f.type = 0 ∧ f.tracks.length ≠ 1
  · have : (f.type == 0 && ((f.tracks.length : Int) != 1)) = true := by
      obtain ⟨a, b⟩ := h0
      have : ¬ ((f.tracks.length : Int) = 1) := by omega
      simp [a, this]
    rw [if_pos this, if_pos h0]
    rfl
  · have : (f.type == 0 && ((f.tracks.length : Int) != 1)) = false := by
      by_cases a : f.type = 0
      · have b : f.tracks.length = 1 := by
          by_cases b : f.tracks.length = 1
          · exact b
          · exact absurd ⟨a, b⟩ h0
        simp [a, b]
      · simp [a]
    simp only [h0, this, if_false, Bool.false_eq_true, packI16x3, packI16_eq, bind, Except.bind, pure, Except.pure]
    cases ha : i16be f.type with
    | error e => simp [Except.map]
    | ok a =>
      cases hb : i16be (f.tracks.length : Int) with
      | error e => simp [Except.map]
      | ok b =>
        cases hc : i16be f.tpb with
        | error e => simp [Except.map]
        | ok c =>
          have la : a.length = 2 := by
            unfold i16be at ha; split at ha <;> simp at ha; subst ha; rfl
          have lb : b.length = 2 := by
            unfold i16be at hb; split at hb <;> simp at hb; subst hb; rfl
          have lc : c.length = 2 := by
            unfold i16be at hc; split at hc <;> simp at hc; subst hc; rfl
          have h6 : (a ++ b ++ c).length = 6 := by simp [la, lb, lc]
          have hch := src_write_chunk out [77, 84, 104, 100] (a ++ b ++ c) (by omega)
          simp only [Except.map, natsToInts_append] at hch ⊢
          rw [hch]
          simp only []
          rw [forIn_save]
          case hF => intro track s; cases Src.write_track s track <;> rfl
          rw [src_save_loop cs _ (fun _ _ => rfl) f.tracks _ hfit]
          cases writeTracks cs f.tracks with
          | error e => rfl
          | ok body =>
            simp [mthd, la, lb, lc, u32be, natsToInts, List.append_assoc]

end Mido
