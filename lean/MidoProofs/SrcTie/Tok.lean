import MidoModel.Tokenizer
import MidoModel.Generated.SrcTok
import MidoProofs.SrcTie.Basic
set_option linter.unusedSimpArgs false
/-!
  Source tie, tokenizer: the state machine that `harness/py2lean.py` generated from the text of
  `mido/tokenizer.py` (`_feed_status_byte`, `_feed_data_byte`, `feed_byte`, `feed`) steps exactly
  like the hand-written model `Tok` on which C04, C05, C06, C18 and C19 are proved.
-/
namespace Mido
open Mido.Py

/-- the model state as the generated structure (Python ints are `Int`) -/
def Tok.toSrc (t : Tok) : Src.Tokenizer :=
  { _status := t.status, _bytes := t.bytes.map Int.ofNat,
    _messages := t.out.map (·.map Int.ofNat), _len := t.len }

/-- the generated `SPEC_BY_STATUS` table (extracted from the working tree) against the model's
    `definedStatus` / `specLen`, for every byte value -/
theorem src_spec_table : ∀ s, s < 256 →
    dictHas Src.SPEC_BY_STATUS (Int.ofNat s) = definedStatus s ∧
    (definedStatus s = true →
      (dictGet Src.SPEC_BY_STATUS (Int.ofNat s)).map (·.length) = .ok (Int.ofNat ((specLen s).getD 0))) := by
  decide +kernel

theorem src_feed_data (t : Tok) (b : Nat) :
    Src.Tokenizer._feed_data_byte t.toSrc b = .ok (t.feedData b).toSrc := by
  simp only [Src.Tokenizer._feed_data_byte, Tok.feedData, Tok.toSrc]
  by_cases h : t.status = 0
  · simp [h, pure, Except.pure, bind, Except.bind]
  · have : ¬ ((t.status : Int) = 0) := by omega
    simp [h, this, pure, Except.pure, bind, Except.bind, Py.len]
    by_cases h2 : t.bytes.length + 1 = t.len
    · have : ((t.bytes.length : Int) + 1 = t.len) := by omega
      simp [h2, this]
    · have : ¬ ((t.bytes.length : Int) + 1 = t.len) := by omega
      simp [h2, this]

theorem src_spec_get (s : Nat) (h : s < 256) (hd : definedStatus s = true) :
    ∃ row, dictGet Src.SPEC_BY_STATUS (s : Int) = .ok row ∧
      row.length = (((specLen s).getD 0 : Nat) : Int) := by
  have := (src_spec_table s h).2 hd
  simp only [Int.ofNat_eq_natCast] at this
  cases hg : dictGet Src.SPEC_BY_STATUS (s : Int) with
  | error e => simp [hg, Except.map] at this
  | ok row => exact ⟨row, rfl, by simpa [hg, Except.map] using this⟩

theorem src_feed_status (t : Tok) (s : Nat) (h1 : 128 ≤ s) (h2 : s < 256) :
    Src.Tokenizer._feed_status_byte t.toSrc s = .ok (t.feedStatus s).toSrc := by
  have hhas := (src_spec_table s h2).1
  simp only [Int.ofNat_eq_natCast] at hhas
  by_cases h247 : s = 247
  · subst h247
    by_cases hs : t.status = 240
    · simp [Src.Tokenizer._feed_status_byte, Tok.feedStatus, Tok.toSrc, hs, pure, Except.pure, bind, Except.bind]
    · have : ¬ ((t.status : Int) = 240) := by omega
      simp [Src.Tokenizer._feed_status_byte, Tok.feedStatus, Tok.toSrc, hs, this, pure, Except.pure, bind, Except.bind]
  · have h247' : ¬ ((s : Int) = 247) := by omega
    by_cases hrt : 248 ≤ s
    · have hrt' : (248 : Int) ≤ s ∧ (s : Int) ≤ 255 := by omega
      by_cases hs : t.status = 240 <;> by_cases hd : definedStatus s = true
      all_goals
        first
        | (have hs' : ((t.status : Int) = 240) := by omega)
        | (have hs' : ¬ ((t.status : Int) = 240) := by omega)
      all_goals
        simp [Src.Tokenizer._feed_status_byte, Tok.feedStatus, Tok.toSrc, h247, h247', hrt, hrt', hs, hs', hd, hhas,
          pure, Except.pure, bind, Except.bind]
    · have hrt' : ¬ ((248 : Int) ≤ s ∧ (s : Int) ≤ 255) := by omega
      by_cases hd : definedStatus s = true
      · obtain ⟨row, hget, hlen⟩ := src_spec_get s h2 hd
        by_cases h240 : s = 240
        · subst h240
          have : row.length = 0 := by simpa [specLen] using hlen
          have e240 : ((240 : Nat) : Int) = 240 := rfl
          rw [e240] at hget hhas
          simp [Src.Tokenizer._feed_status_byte, Tok.feedStatus, Tok.toSrc, hd, hhas, hget, this,
            pure, Except.pure, bind, Except.bind]
        · have hsome : (specLen s).isSome = true := by
            simpa [definedStatus, h240] using hd
          obtain ⟨n, hn⟩ := Option.isSome_iff_exists.mp hsome
          have hlen' : row.length = (n : Int) := by simpa [hn] using hlen
          by_cases hn1 : n = 1
          · subst hn1
            simp [Src.Tokenizer._feed_status_byte, Tok.feedStatus, Tok.toSrc, h247, h247', hrt, hrt', h240, hd, hhas,
              hget, hlen', hn, pure, Except.pure, bind, Except.bind]
          · have : ¬ ((n : Int) = 1) := by omega
            simp [Src.Tokenizer._feed_status_byte, Tok.feedStatus, Tok.toSrc, h247, h247', hrt, hrt', h240, hd, hhas,
              hget, hlen', hn, hn1, this, pure, Except.pure, bind, Except.bind]
      · have hd' : definedStatus s = false := by simpa using hd
        have h240 : ¬ s = 240 := by intro h; subst h; simp [definedStatus] at hd
        have hnone : specLen s = none := by
          simpa [definedStatus, h240] using hd'
        simp [Src.Tokenizer._feed_status_byte, Tok.feedStatus, Tok.toSrc, h247, h247', hrt, hrt', h240, hd', hhas,
          hnone, pure, Except.pure, bind, Except.bind]

/-- `feed_byte`: range check, then the data or the status arm -/
theorem src_feed_byte (t : Tok) (b : Int) :
    Src.Tokenizer.feed_byte t.toSrc b = (t.feedByteChecked b).map Tok.toSrc := by
  by_cases hr : 0 ≤ b ∧ b ≤ 255
  · obtain ⟨n, rfl⟩ := Int.eq_ofNat_of_zero_le hr.1
    have hn : n ≤ 255 := by omega
    by_cases hd : n < 128
    · have hd' : (n : Int) ≤ 127 := by omega
      have := src_feed_data t n
      simp [Src.Tokenizer.feed_byte, Tok.feedByteChecked, Tok.feedByte, hr, hd, hd', this, Except.map,
        pure, Except.pure, bind, Except.bind]
    · have hd' : ¬ (n : Int) ≤ 127 := by omega
      have := src_feed_status t n (by omega) (by omega)
      simp [Src.Tokenizer.feed_byte, Tok.feedByteChecked, Tok.feedByte, hr, hd, hd', this, Except.map,
        pure, Except.pure, bind, Except.bind]
  · have : ¬ (0 ≤ b ∧ b ≤ 255) := hr
    simp [Src.Tokenizer.feed_byte, Tok.feedByteChecked, hr, Except.map, pure, Except.pure, bind, Except.bind,
      throw, throwThe, MonadExceptOf.throw]

/-- `feed`: the loop over the input; the first bad item decides the exception (the bytes before it
    stay consumed in the Python object: that part of the state is the hand model's `feedChecked`) -/
theorem src_feed (t : Tok) (bs : List Int) :
    Src.Tokenizer.feed t.toSrc bs =
      match feedChecked t bs with
      | (t', none) => .ok t'.toSrc
      | (_, some e) => .error e := by
  simp only [Src.Tokenizer.feed]
  induction bs generalizing t with
  | nil => simp [feedChecked, pure, Except.pure, bind, Except.bind]
  | cons b r ih =>
    simp only [List.forIn_cons, feedChecked]
    have hb := src_feed_byte t b
    cases hc : t.feedByteChecked b with
    | error e => simp [hc, Except.map] at hb; simp [hb, bind, Except.bind]
    | ok t1 =>
      simp [hc, Except.map] at hb
      have := ih t1
      simp only [hb, bind, Except.bind] at this ⊢
      exact this

end Mido
