/-
  The Parser tie and the C05 refinement composed: sessions on the translated Parser object answer what the abstract
  specification answers.
-/
import MidoProofs.SrcTie.Parser
import MidoProofs.Props.C05
set_option linter.unusedSimpArgs false
namespace Mido
open Mido.Py

/-- the operations of a parser session that call a translated method directly -/
def POp.isBasic : POp → Bool
  | .feed bs => bs.all inByte
  | .feedByte b => inByte b
  | .get | .pending => true
  | _ => false

/-- one operation performed on the translated `Parser` object -/
def srcStep (p : Src.Parser Msg) : POp → Except Err (Src.Parser Msg × POut)
  | .feed bs => (Src.Parser.feed parserExt p bs).map (fun p' => (p', .none))
  | .feedByte b => (Src.Parser.feed_byte parserExt p b).map (fun p' => (p', .none))
  | .get => (Src.Parser.get_message parserExt p).map (fun r => (r.2, match r.1 with | some m => .msg m | none => .none))
  | .pending => (Src.Parser.pending parserExt p).map (fun r => (r.2, .count r.1.toNat))
  | _ => .error .Other

/-- a whole session on the translated object -/
def srcRun (p : Src.Parser Msg) : List POp → Except Err (List POut)
  | [] => .ok []
  | op :: rest => do
    let (p1, o) ← srcStep p op
    let os ← srcRun p1 rest
    pure (o :: os)

theorem isBasic_isParserOp (op : POp) (h : op.isBasic = true) : op.isParserOp = true := by
  cases op <;> simp_all [POp.isBasic, POp.isParserOp]

/-- on a reachable state (`Sim`), a basic operation on the translated object is the model's operation: it does not raise,
    gives the same answer and leaves the corresponding state -/
theorem srcStep_sim {p : PState} {a : ASt} (hs : Sim p a) (op : POp) (h : op.isBasic = true) :
    srcStep p.toSrc op = .ok ((pstep p op).1.toSrc, (pstep p op).2) := by
  have hnr := (hs.step op (isBasic_isParserOp op h)).1
  cases op with
  | feed bs =>
    have := src_parser_feed p bs
    simp only [srcStep, this]
    have ho : (pstep p (.feed bs)).2 = .none := (hs.feed bs (by simpa [POp.isBasic] using h)).1
    simp only [pstep] at ho ⊢
    cases hx : p.feedOp bs with
    | mk p' o => rw [hx] at ho; simp only at ho; subst ho; rfl
  | feedByte b =>
    have := src_parser_feed_byte p b
    simp only [srcStep, this]
    have ho : (pstep p (.feedByte b)).2 = .none := by
      have := hs.feed [b] (by simpa [POp.isBasic] using h)
      simpa [pstep] using this.1
    simp only [pstep] at ho ⊢
    cases hx : p.feedOp [b] with
    | mk p' o => rw [hx] at ho; simp only at ho; subst ho; rfl
  | get =>
    have := src_parser_get p
    simp only [srcStep, this]
    cases hq : p.queue <;> simp [pstep, hq, Except.map]
  | pending =>
    simp [srcStep, src_parser_pending, Except.map, pstep]
  | _ => simp [POp.isBasic] at h

/-- **C05 at the level of the source text**: any session of feed / feed_byte / get_message / pending calls on the
    translated `Parser` (valid bytes, any chunking, any interleaving) never raises and answers exactly what the abstract
    specification answers (the messages of the bytes fed so far, first in first out; pending = what is left) -/
theorem src_parser_session (ops : List POp) (h : ∀ op ∈ ops, op.isBasic = true) :
    srcRun ({} : PState).toSrc ops = .ok (arun {} ops).2 := by
  suffices ∀ p a, Sim p a → srcRun p.toSrc ops = .ok (arun a ops).2 from this _ _ Sim.init
  induction ops with
  | nil => intros; rfl
  | cons op rest ih =>
    intro p a hs
    have hb := h op (by simp)
    obtain ⟨ho, hs'⟩ := hs.step op (isBasic_isParserOp op hb)
    have := srcStep_sim hs op hb
    simp only [srcRun, this, bind, Except.bind, arun]
    rw [ih (fun o ho' => h o (by simp [ho'])) _ _ hs', ho]
    rfl
example : srcRun ({} : PState).toSrc [.feed [0x90, 60], .pending, .get, .feedByte 100, .feed [0xF8], .pending, .get, .get, .get] =
    .ok [.none, .count 0, .none, .none, .none, .count 2, .msg (.chan3 .note_on 0 60 100), .msg (.sys1 .clock), .none] := by
  rfl

end Mido
