/-
  Source tie for the property `MidiFile.merged_track` (mido/midifiles/midifiles.py), translated from the source text:
  the type-2 refusal, then `merge_tracks` of the current tracks — the model's `observeMerged`.
-/
import MidoModel.Generated.SrcFileIO
import MidoModel.MidiFileState
import MidoProofs.SrcTie.TracksMerge
set_option linter.unusedSimpArgs false
namespace Mido
open Mido.Py

/-- **`MidiFile.merged_track`** of the source: TypeError for a type-2 file, otherwise the translated `merge_tracks` of the
    tracks the file holds at the moment of the access (nothing is remembered between accesses: the translation is a pure
    function of the two fields it reads) -/
theorem src_merged_track (ty : Int) (tracks : List (List TMsg)) :
    Src.MidiFile.merged_track ty tracks = if ty = 2 then .error .TypeError else Src.merge_tracks tracks := by
  unfold Src.MidiFile.merged_track
  by_cases h : ty = 2
  · subst h; rfl
  · simp only [beq_iff_eq, h, if_false, bind, Except.bind, pure, Except.pure]

/-- about model tracks: the merge of C12 (all of `src_merge_property` applies to it), or the refusal -/
theorem src_merged_track_model (ty : Nat) (ts : List (List TEv)) :
    Src.MidiFile.merged_track (ty : Int) (ts.map (·.map TEv.toSrc)) =
      if ty = 2 then .error .TypeError else .ok ((mergeTracks ts).map TEv.toSrc) := by
  rw [src_merged_track, src_merge_tracks]
  by_cases h : ty = 2
  · subst h; rfl
  · have : ¬ ((ty : Int) = 2) := by omega
    simp [h, this]

example : Src.MidiFile.merged_track 2 [] = .error .TypeError := by decide +kernel

end Mido
