import MidoModel.Tables
import MidoModel.Meta
import MidoModel.Smf
import MidoModel.MsgObj
import MidoModel.Tempo
import MidoModel.CharsetScope
/-!
  Table tie: the tables extracted from the working tree on this run equal the model's.
  If the source tables change, one of these stops checking.
-/
namespace Mido

theorem tie_specs : Generated.specs = specTable := by decide
theorem tie_lengths : lenAgrees Generated.specs = true := by decide +kernel
theorem tie_rows : rowsAgree = true := by decide
theorem tie_defined :
    Generated.definedStatusBytes = (List.range 256).filter definedStatus := by decide +kernel
theorem tie_limits : Generated.limits =
    [("MIN_PITCHWHEEL", -8192), ("MAX_PITCHWHEEL", 8191), ("MIN_SONGPOS", 0),
     ("MAX_SONGPOS", 16383), ("SYSEX_START", 240), ("SYSEX_END", 247)] := by decide
theorem tie_channel_range : Generated.channelRange = (0x80, 0xef) := by decide

end Mido

namespace Mido
/-! meta tables -/
theorem tie_meta_specs : Generated.metaSpecs =
    MetaType.all.map (fun t => (t.typeByte, t.name, t.attrs)) := by decide
theorem tie_keys : Generated.keySignatures = keyTable := by decide
theorem tie_frame_rates : Generated.frameRates = frameRates := by decide
end Mido

namespace Mido
theorem tie_realtime : Generated.realtimeTypes = realtimeTypeNames := by decide
theorem tie_realtime_model : [S1.clock, .start, .continue_, .stop, .active_sensing, .reset].map S1.name
    = ["clock", "start", "continue", "stop", "active_sensing", "reset"] ∧
    ∀ k : S1, (FEv.msg (.sys1 k)).isRealtime = (k.name ∈ realtimeTypeNames) := by
  refine ⟨by decide, ?_⟩
  intro k; cases k <;> decide
theorem tie_max_len : Generated.maxMessageLength = maxMessageLength := by decide
end Mido

namespace Mido
/-! defaults -/
def intsOf (vs : List PyVal) : List Int := vs.filterMap (fun v => match v with | .int n => some n | _ => none)

/-- `DEFAULT_VALUES` of the message specs: the model's `defaultOf` on every integer attribute -/
theorem tie_int_defaults :
    Generated.intDefaults.all (fun p => p.1 == "time" || defaultOf p.1 == .int p.2) = true := by decide +kernel
/-- the integer defaults of every meta message type -/
theorem tie_meta_defaults : Generated.metaIntDefaults =
    MetaType.all.map (fun t => (t.typeByte, intsOf t.defaults)) := by decide +kernel
theorem tie_default_tempo : Generated.defaultTempo = defaultTempo := by decide
theorem tie_default_charset : Generated.defaultCharset = "latin1" ∧ ({} : GState).charset = Charset.latin1 := by decide
end Mido
