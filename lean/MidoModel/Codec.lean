import MidoModel.Basic
/-
  Model of mido/messages/specs.py, encode.py, decode.py and Message.from_bytes/bytes/__len__.
-/
namespace Mido

/-- three-byte channel messages with two plain data bytes -/
inductive C3 | note_off | note_on | polytouch | control_change
  deriving DecidableEq, Repr, Inhabited
/-- two-byte channel messages -/
inductive C2 | program_change | aftertouch
  deriving DecidableEq, Repr, Inhabited
/-- one-byte system messages -/
inductive S1 | tune_request | clock | start | continue_ | stop | active_sensing | reset
  deriving DecidableEq, Repr, Inhabited

def C3.base : C3 → Nat
  | .note_off => 0x80 | .note_on => 0x90 | .polytouch => 0xa0 | .control_change => 0xb0
def C2.base : C2 → Nat
  | .program_change => 0xc0 | .aftertouch => 0xd0
def S1.status : S1 → Nat
  | .tune_request => 0xf6 | .clock => 0xf8 | .start => 0xfa | .continue_ => 0xfb
  | .stop => 0xfc | .active_sensing => 0xfe | .reset => 0xff

def C3.name : C3 → String
  | .note_off => "note_off" | .note_on => "note_on" | .polytouch => "polytouch"
  | .control_change => "control_change"
def C2.name : C2 → String
  | .program_change => "program_change" | .aftertouch => "aftertouch"
def S1.name : S1 → String
  | .tune_request => "tune_request" | .clock => "clock" | .start => "start"
  | .continue_ => "continue" | .stop => "stop" | .active_sensing => "active_sensing"
  | .reset => "reset"

/-- A MIDI message (the 18 types of `SPECS`, grouped by shape). -/
inductive Msg
  | chan3 (k : C3) (ch d1 d2 : Nat)
  | chan2 (k : C2) (ch d1 : Nat)
  | pitchwheel (ch : Nat) (pitch : Int)
  | sysex (data : List Nat)
  | quarter_frame (ft fv : Nat)
  | songpos (pos : Nat)
  | song_select (song : Nat)
  | sys1 (k : S1)
  deriving DecidableEq, Repr, Inhabited

def Msg.typeName : Msg → String
  | .chan3 k .. => k.name | .chan2 k .. => k.name | .pitchwheel .. => "pitchwheel"
  | .sysex _ => "sysex" | .quarter_frame .. => "quarter_frame" | .songpos _ => "songpos"
  | .song_select _ => "song_select" | .sys1 k => k.name

/-- The ranges of checks.py. -/
def Msg.valid : Msg → Bool
  | .chan3 _ ch d1 d2 => ch ≤ 15 && d1 ≤ 127 && d2 ≤ 127
  | .chan2 _ ch d1 => ch ≤ 15 && d1 ≤ 127
  | .pitchwheel ch p => ch ≤ 15 && -8192 ≤ p && p ≤ 8191
  | .sysex d => d.all (· ≤ 127)
  | .quarter_frame ft fv => ft ≤ 7 && fv ≤ 15
  | .songpos p => p ≤ 16383
  | .song_select s => s ≤ 127
  | .sys1 _ => true

abbrev Msg.Valid (m : Msg) : Prop := m.valid = true

/-- status byte of a message (`spec.status_byte | channel`) -/
def Msg.status : Msg → Nat
  | .chan3 k ch .. => k.base ||| ch
  | .chan2 k ch _ => k.base ||| ch
  | .pitchwheel ch _ => 0xe0 ||| ch
  | .sysex _ => 0xf0 | .quarter_frame .. => 0xf1 | .songpos _ => 0xf2
  | .song_select _ => 0xf3 | .sys1 k => k.status

/-- `encode_message` (mirrors encode.py; bit operators kept). -/
def encode : Msg → List Nat
  | .chan3 k ch d1 d2 => [k.base ||| ch, d1, d2]
  | .chan2 k ch d1 => [k.base ||| ch, d1]
  | .pitchwheel ch p =>
      let q := (p - (-8192)).toNat
      [0xe0 ||| ch, q &&& 0x7f, q >>> 7]
  | .sysex d => [0xf0] ++ d ++ [0xf7]
  | .quarter_frame ft fv => [0xf1, ft <<< 4 ||| fv]
  | .songpos p => [0xf2, p &&& 0x7f, p >>> 7]
  | .song_select s => [0xf3, s]
  | .sys1 k => [k.status]

/-- `Message.__len__` -/
def Msg.len : Msg → Nat
  | .chan3 .. => 3 | .chan2 .. => 2 | .pitchwheel .. => 3
  | .sysex d => 2 + d.length
  | .quarter_frame .. => 2 | .songpos _ => 3 | .song_select _ => 2 | .sys1 _ => 1

/-- `SPEC_BY_STATUS[s]['length']` for non-sysex status bytes; `none` = undefined or sysex. -/
def specLen (s : Nat) : Option Nat :=
  if 0x80 ≤ s ∧ s < 0xC0 then some 3
  else if 0xC0 ≤ s ∧ s < 0xE0 then some 2
  else if 0xE0 ≤ s ∧ s < 0xF0 then some 3
  else if s = 0xF1 ∨ s = 0xF3 then some 2
  else if s = 0xF2 then some 3
  else if s = 0xF6 ∨ s = 0xF8 ∨ s = 0xFA ∨ s = 0xFB ∨ s = 0xFC ∨ s = 0xFE ∨ s = 0xFF then some 1
  else none

/-- `s in SPEC_BY_STATUS` -/
def definedStatus (s : Nat) : Bool := s == 0xF0 || (specLen s).isSome

/-- `check_data`: the error of the first offending item, in iteration order. -/
def checkData : List Item → Except Err (List Nat)
  | [] => .ok []
  | .int n :: rest =>
      if 0 ≤ n ∧ n ≤ 127 then (checkData rest).map (n.toNat :: ·) else .error .ValueError
  | _ :: _ => .error .TypeError

def s1OfStatus (s : Nat) : Option S1 :=
  if s = 0xf6 then some .tune_request else if s = 0xf8 then some .clock
  else if s = 0xfa then some .start else if s = 0xfb then some .continue_
  else if s = 0xfc then some .stop else if s = 0xfe then some .active_sensing
  else if s = 0xff then some .reset else none

/-- Build the message from a defined non-sysex status byte and checked data of the right length.
    `isInt = false` means the status item was a float: `status_byte & 0x0f` raises TypeError. -/
def buildMsg (s : Nat) (isInt : Bool) (d : List Nat) : Except Err Msg :=
  if s < 0xF0 then
    if !isInt then .error .TypeError else
    let ch := s &&& 0x0f
    match d with
    | [d1, d2] =>
      if s < 0x90 then .ok (.chan3 .note_off ch d1 d2)
      else if s < 0xa0 then .ok (.chan3 .note_on ch d1 d2)
      else if s < 0xb0 then .ok (.chan3 .polytouch ch d1 d2)
      else if s < 0xc0 then .ok (.chan3 .control_change ch d1 d2)
      else .ok (.pitchwheel ch (pyLor (d1 : Int) (((d2 : Int) <<< 7) + (-8192))))
    | [d1] =>
      if s < 0xd0 then .ok (.chan2 .program_change ch d1) else .ok (.chan2 .aftertouch ch d1)
    | _ => .error .Other
  else
    match d with
    | [d1, d2] => .ok (.songpos (d1 ||| (d2 <<< 7)))
    | [d1] => if s = 0xf1 then .ok (.quarter_frame (d1 >>> 4) (d1 &&& 15)) else .ok (.song_select d1)
    | [] => match s1OfStatus s with
            | some k => .ok (.sys1 k)
            | none => .error .Other
    | _ => .error .Other

/-- `decode_message` + `Message.from_bytes` on a Python sequence. -/
def decode : List Item → Except Err Msg
  | [] => .error .ValueError
  | st :: data =>
    match st with
    | .uobj => .error .TypeError          -- unhashable key in SPEC_BY_STATUS[...]
    | .hobj => .error .ValueError         -- KeyError → ValueError
    | .int n | .flt n =>
      let isInt := match st with | .int _ => true | _ => false
      if n < 0 then .error .ValueError else
      let s := n.toNat
      if !definedStatus s then .error .ValueError else
      if s = 0xF0 then
        match data.getLast? with
        | none => .error .ValueError
        | some e =>
          if e = .int 0xF7 ∨ e = .flt 0xF7 then
            (checkData data.dropLast).map .sysex
          else .error .ValueError
      else do
        let d ← checkData data
        if some (d.length + 1) ≠ specLen s then .error .ValueError
        else buildMsg s isInt d

def decodeInts (xs : List Int) : Except Err Msg := decode (xs.map .int)
def decodeNats (xs : List Nat) : Except Err Msg := decode (xs.map (fun x => Item.int (Int.ofNat x)))

def inByteRange (d : Int) : Bool := decide (0 ≤ d) && decide (d ≤ 127)

/-- Independent grammar of one complete MIDI 1.0 message over integers. -/
def wellFormed : List Int → Bool
  | [] => false
  | s :: ds =>
    if s < 0 then false else
    if s = 0xF0 then
      match ds.getLast? with
      | some 0xF7 => ds.dropLast.all inByteRange
      | _ => false
    else match specLen s.toNat with
      | some n => ds.length + 1 == n && ds.all inByteRange
      | none => false

/-! ### hex -/
def hexDigit (n : Nat) : Char := if n < 10 then Char.ofNat (48 + n) else Char.ofNat (55 + n)
def hexByte (b : Nat) : List Char := [hexDigit (b / 16), hexDigit (b % 16)]
/-- `' '.join('%02X' % b)` -/
def toHex : List Nat → List Char
  | [] => []
  | [b] => hexByte b
  | b :: rest => hexByte b ++ ' ' :: toHex rest

def hexVal (c : Char) : Option Nat :=
  if '0' ≤ c ∧ c ≤ '9' then some (c.toNat - 48)
  else if 'A' ≤ c ∧ c ≤ 'F' then some (c.toNat - 55)
  else if 'a' ≤ c ∧ c ≤ 'f' then some (c.toNat - 87)
  else none

/-- `bytearray.fromhex` (after whitespace → ' '): spaces allowed between pairs only. -/
def fromHex : List Char → Except Err (List Nat)
  | [] => .ok []
  | ' ' :: rest => fromHex rest
  | a :: b :: rest =>
    match hexVal a, hexVal b with
    | some x, some y => (fromHex rest).map ((16 * x + y) :: ·)
    | _, _ => .error .ValueError
  | [_] => .error .ValueError

end Mido
