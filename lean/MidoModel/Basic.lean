/-
  Basic vocabulary shared by all models: exception classes, Python value kinds,
  Python's `|` on (possibly negative) ints.
-/
namespace Mido

/-- Exception classes, as far as any check distinguishes them. -/
inductive Err
  | ValueError | TypeError | AttributeError | LookupError | IndexError | KeyError
  | OSError | EOFError | UnicodeError | KeySignatureError | StructError | Hang | Other
  deriving DecidableEq, Repr, Inhabited

def Err.name : Err → String
  | .ValueError => "ValueError" | .TypeError => "TypeError" | .AttributeError => "AttributeError"
  | .LookupError => "LookupError" | .IndexError => "IndexError" | .KeyError => "KeyError"
  | .OSError => "OSError" | .EOFError => "EOFError" | .UnicodeError => "UnicodeError"
  | .KeySignatureError => "KeySignatureError" | .StructError => "StructError"
  | .Hang => "Hang" | .Other => "Other"

deriving instance DecidableEq for Except

/-- An element of a sequence handed to `from_bytes` / `feed`.
    `int n`   : an `Integral` (int, bool) of value `n`
    `flt n`   : a float whose value is the integer `n` (hash-equal to `n`, *not* `Integral`)
    `hobj`    : any other hashable object (str, None, 1.5): never equal to an int
    `uobj`    : an unhashable object (a list) -/
inductive Item
  | int (n : Int) | flt (n : Int) | hobj | uobj
  deriving DecidableEq, Repr, Inhabited

/-- A Python value as far as attribute checks distinguish them.
    `int`  : Integral (int, bool);  `flt h` : the float h/100 (so 29.97 = `flt 2997`);
    `str`  : text as code points;   `list`/`tuple` : sequences of items; `bytes`: bytes/bytearray -/
inductive PyVal
  | int (n : Int) | flt (h : Int) | str (s : List Nat) | none
  | list (xs : List Item) | tuple (xs : List Item) | bytes (xs : List Nat)
  deriving DecidableEq, Repr, Inhabited

/-- `and-not` on naturals, used for two's complement `|`. -/
def ldiff (n m : Nat) : Nat := Nat.bitwise (fun a b => a && !b) n m

/-- Python's `|` on unbounded ints (two's complement semantics). -/
def pyLor : Int → Int → Int
  | .ofNat m, .ofNat n => .ofNat (m ||| n)
  | .ofNat m, .negSucc n => .negSucc (ldiff n m)
  | .negSucc m, .ofNat n => .negSucc (ldiff m n)
  | .negSucc m, .negSucc n => .negSucc (m &&& n)

def showList (xs : List Nat) : String := " ".intercalate (xs.map toString)
def showIntList (xs : List Int) : String := " ".intercalate (xs.map toString)

end Mido
