import MidoModel.Basic
/- Decimal numerals on character lists: `str(n)` for naturals and the ASCII-digit fragment of `int(s)`. -/
namespace Mido

def digitChar (k : Nat) : Char := Char.ofNat (48 + k)

def digitsAux : Nat → List Char → List Char
  | 0, acc => acc
  | (n+1), acc => digitsAux ((n+1) / 10) (digitChar ((n+1) % 10) :: acc)
decreasing_by omega

/-- `str(n)` -/
def showNat (n : Nat) : List Char := if n = 0 then ['0'] else digitsAux n []

def isDigit (c : Char) : Bool := '0' ≤ c && c ≤ '9'

def parseNatAcc : Nat → List Char → Option Nat
  | acc, [] => some acc
  | acc, c :: r => if isDigit c then parseNatAcc (acc * 10 + (c.toNat - 48)) r else none

/-- `int(s)` restricted to non-empty strings of ASCII digits -/
def parseNat (cs : List Char) : Option Nat := if cs.isEmpty then none else parseNatAcc 0 cs

/-- `str(i)` for ints -/
def showInt (i : Int) : List Char :=
  match i with
  | .ofNat n => showNat n
  | .negSucc n => '-' :: showNat (n + 1)

/-- `int(s)` on an optional minus sign followed by ASCII digits -/
def parseInt (cs : List Char) : Option Int :=
  match cs with
  | '-' :: r => (parseNat r).map (fun n => - (n : Int))
  | _ => (parseNat cs).map (fun n => (n : Int))

end Mido
