import MidoModel.Basic
/- Variable-length quantities: `encode_variable_int`, `read_variable_int`. -/
namespace Mido

def encVlqAux : Nat → List Nat → List Nat
  | 0, tail => tail
  | (n+1), tail => encVlqAux ((n+1) / 128) (((n+1) % 128 + 128) :: tail)
decreasing_by omega

/-- `encode_variable_int` on a non-negative integer -/
def encVlq (v : Nat) : List Nat := encVlqAux (v / 128) [v % 128]

/-- `read_variable_int` on the remaining stream: value and rest; `EOFError` at end of input -/
def readVlqAcc : Nat → List Nat → Except Err (Nat × List Nat)
  | _, [] => .error .EOFError
  | acc, b :: rest =>
    let acc' := acc * 128 + b % 128
    if b < 128 then .ok (acc', rest) else readVlqAcc acc' rest

def readVlq (bs : List Nat) : Except Err (Nat × List Nat) := readVlqAcc 0 bs

end Mido
