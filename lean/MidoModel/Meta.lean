import MidoModel.Vlq
import MidoModel.Codec
/-
  Model of mido/midifiles/meta.py: meta specs, checks, payload codecs, MetaMessage.bytes,
  MetaMessage.from_bytes, build_meta_message.
-/
namespace Mido

inductive MetaType
  | sequence_number | text | copyright | track_name | instrument_name | lyrics | marker
  | cue_marker | device_name | channel_prefix | midi_port | end_of_track | set_tempo
  | smpte_offset | time_signature | key_signature | sequencer_specific
  deriving DecidableEq, Repr, Inhabited

def MetaType.all : List MetaType :=
  [.sequence_number, .text, .copyright, .track_name, .instrument_name, .lyrics, .marker,
   .cue_marker, .device_name, .channel_prefix, .midi_port, .end_of_track, .set_tempo,
   .smpte_offset, .time_signature, .key_signature, .sequencer_specific]

def MetaType.typeByte : MetaType → Nat
  | .sequence_number => 0x00 | .text => 0x01 | .copyright => 0x02 | .track_name => 0x03
  | .instrument_name => 0x04 | .lyrics => 0x05 | .marker => 0x06 | .cue_marker => 0x07
  | .device_name => 0x09 | .channel_prefix => 0x20 | .midi_port => 0x21 | .end_of_track => 0x2f
  | .set_tempo => 0x51 | .smpte_offset => 0x54 | .time_signature => 0x58
  | .key_signature => 0x59 | .sequencer_specific => 0x7f

def MetaType.name : MetaType → String
  | .sequence_number => "sequence_number" | .text => "text" | .copyright => "copyright"
  | .track_name => "track_name" | .instrument_name => "instrument_name" | .lyrics => "lyrics"
  | .marker => "marker" | .cue_marker => "cue_marker" | .device_name => "device_name"
  | .channel_prefix => "channel_prefix" | .midi_port => "midi_port"
  | .end_of_track => "end_of_track" | .set_tempo => "set_tempo" | .smpte_offset => "smpte_offset"
  | .time_signature => "time_signature" | .key_signature => "key_signature"
  | .sequencer_specific => "sequencer_specific"

def MetaType.attrs : MetaType → List String
  | .sequence_number => ["number"]
  | .text | .copyright | .lyrics | .marker | .cue_marker => ["text"]
  | .track_name | .instrument_name | .device_name => ["name"]
  | .channel_prefix => ["channel"] | .midi_port => ["port"] | .end_of_track => []
  | .set_tempo => ["tempo"]
  | .smpte_offset => ["frame_rate", "hours", "minutes", "seconds", "frames", "sub_frames"]
  | .time_signature => ["numerator", "denominator", "clocks_per_click", "notated_32nd_notes_per_beat"]
  | .key_signature => ["key"] | .sequencer_specific => ["data"]

def MetaType.isText : MetaType → Bool
  | .text | .copyright | .track_name | .instrument_name | .lyrics | .marker | .cue_marker
  | .device_name => true
  | _ => false

def MetaType.ofByte (b : Nat) : Option MetaType := MetaType.all.find? (·.typeByte == b)
def MetaType.ofName (s : String) : Option MetaType := MetaType.all.find? (·.name == s)

/-- key signature table: (sharps/flats as signed, mode) ↦ name (as code points) -/
def keyTable : List ((Int × Nat) × String) :=
  [((-7, 0), "Cb"), ((-7, 1), "Abm"), ((-6, 0), "Gb"), ((-6, 1), "Ebm"), ((-5, 0), "Db"),
   ((-5, 1), "Bbm"), ((-4, 0), "Ab"), ((-4, 1), "Fm"), ((-3, 0), "Eb"), ((-3, 1), "Cm"),
   ((-2, 0), "Bb"), ((-2, 1), "Gm"), ((-1, 0), "F"), ((-1, 1), "Dm"), ((0, 0), "C"),
   ((0, 1), "Am"), ((1, 0), "G"), ((1, 1), "Em"), ((2, 0), "D"), ((2, 1), "Bm"), ((3, 0), "A"),
   ((3, 1), "F#m"), ((4, 0), "E"), ((4, 1), "C#m"), ((5, 0), "B"), ((5, 1), "G#m"),
   ((6, 0), "F#"), ((6, 1), "D#m"), ((7, 0), "C#"), ((7, 1), "A#m")]

def strCodes (s : String) : List Nat := s.toList.map Char.toNat

def keyEncode (name : List Nat) : Option (Int × Nat) :=
  (keyTable.find? (fun e => strCodes e.2 == name)).map (·.1)
def keyDecode (k : Int) (mode : Nat) : Option (List Nat) :=
  (keyTable.find? (fun e => e.1 == (k, mode))).map (fun e => strCodes e.2)

/-- frame-rate table: code ↦ rate×100 -/
def frameRates : List (Nat × Nat) := [(0, 2400), (1, 2500), (2, 2997), (3, 3000)]

/-- the hundredths value of a number used as frame rate (`24`, `24.0`, `29.97`) -/
def rateHundredths : PyVal → Option Int
  | .int n => some (n * 100) | .flt h => some h | _ => none

def frameRateCode (v : PyVal) : Option Nat :=
  match rateHundredths v with
  | some h => (frameRates.find? (fun e => (e.2 : Int) == h)).map (·.1)
  | none => none

def log2Nat : Nat → Nat
  | 0 => 0
  | 1 => 0
  | (n+2) => 1 + log2Nat ((n+2) / 2)
decreasing_by omega

/-- exact integer predicate "power of two" -/
def isPow2 (n : Nat) : Bool := n != 0 && 2 ^ log2Nat n == n

/-- `check_int(value, low, high)` -/
def checkInt (v : PyVal) (lo hi : Int) : Except Err Unit :=
  match v with
  | .int n => if lo ≤ n ∧ n ≤ hi then .ok () else .error .ValueError
  | _ => .error .TypeError

def checkStr : PyVal → Except Err Unit
  | .str _ => .ok () | _ => .error .TypeError

/-- `value in <dict>` needs a hashable value -/
def hashable : PyVal → Bool
  | .list _ => false | .bytes _ => true | _ => true

/-- the check of one data item of a sequencer-specific payload -/
def checkByteItem : Item → Except Err Unit
  | .int n => if 0 ≤ n ∧ n ≤ 255 then .ok () else .error .ValueError
  | _ => .error .TypeError

def checkByteItems : List Item → Except Err Unit
  | [] => .ok ()
  | x :: r => do checkByteItem x; checkByteItems r

/-- `spec.check(name, value)` for attribute number `i` of type `t` -/
def metaCheckAttr (t : MetaType) (i : Nat) (v : PyVal) : Except Err Unit :=
  match t with
  | .sequence_number => checkInt v 0 0xffff
  | .text | .copyright | .track_name | .instrument_name | .lyrics | .marker | .cue_marker
  | .device_name => checkStr v
  | .channel_prefix => checkInt v 0 0xff
  | .midi_port => checkInt v 0 255
  | .end_of_track => .ok ()
  | .set_tempo => checkInt v 0 0xffffff
  | .smpte_offset =>
    if i = 0 then
      -- not in the table: the source builds its error message with `', '.join(<numbers>)`,
      -- which itself raises TypeError (as does an unhashable value)
      if (frameRateCode v).isSome then .ok () else .error .TypeError
    else if i = 1 then checkInt v 0 255
    else if i = 2 ∨ i = 3 then checkInt v 0 59
    else if i = 4 then checkInt v 0 255
    else checkInt v 0 99
  | .time_signature =>
    if i = 1 then do
      checkInt v 1 (2 ^ 255)
      match v with
      | .int n => if isPow2 n.toNat then .ok () else .error .ValueError
      | _ => .error .TypeError
    else checkInt v 0 255
  | .key_signature =>
    if !hashable v then .error .TypeError else
    match v with
    | .str s => if (keyEncode s).isSome then .ok () else .error .ValueError
    | _ => .error .ValueError
  | .sequencer_specific =>
    match v with
    | .list xs | .tuple xs => checkByteItems xs
    | .bytes _ => .ok ()
    | .str s => if s.isEmpty then .ok () else .error .TypeError
    | _ => .error .TypeError

def natItem (b : Nat) : Item := .int (Int.ofNat b)
def PyVal.nat (n : Nat) : PyVal := .int (Int.ofNat n)

/-- A meta message: type + attribute values in spec order (time is kept outside). -/
structure MetaMsg where
  ty : MetaType
  vals : List PyVal
  deriving DecidableEq, Repr, Inhabited

def checkAttrsFrom (t : MetaType) : Nat → List PyVal → Except Err Unit
  | _, [] => .ok ()
  | i, v :: r => do metaCheckAttr t i v; checkAttrsFrom t (i + 1) r

/-- all attributes pass their check and the arity is right -/
def MetaMsg.check (m : MetaMsg) : Except Err Unit :=
  if m.vals.length ≠ m.ty.attrs.length then .error .Other else checkAttrsFrom m.ty 0 m.vals

/-- normalisation done by the constructor / `_setattr` (`data` becomes a tuple) -/
def normVal (t : MetaType) (v : PyVal) : PyVal :=
  match t, v with
  | .sequencer_specific, .list xs => .tuple xs
  | .sequencer_specific, .bytes xs => .tuple (xs.map natItem)
  | .sequencer_specific, .str _ => .tuple []
  | _, v => v

def MetaType.defaults : MetaType → List PyVal
  | .sequence_number => [.int 0]
  | .text | .copyright | .track_name | .instrument_name | .lyrics | .marker | .cue_marker
  | .device_name => [.str []]
  | .channel_prefix => [.int 0] | .midi_port => [.int 0] | .end_of_track => []
  | .set_tempo => [.int 500000]
  | .smpte_offset => [.int 24, .int 0, .int 0, .int 0, .int 0, .int 0]
  | .time_signature => [.int 4, .int 4, .int 24, .int 8]
  | .key_signature => [.str (strCodes "C")]
  | .sequencer_specific => [.tuple []]

/-- `check_time`: any `Real` -/
def checkTime : PyVal → Except Err Unit
  | .int _ | .flt _ => .ok () | _ => .error .TypeError

def indexOf? (names : List String) (n : String) : Option Nat :=
  let rec go : List String → Nat → Option Nat
    | [], _ => none
    | x :: r, i => if x == n then some i else go r (i + 1)
  go names 0

/-- `MetaMessage.__init__(type, **kwargs)`: name check for all kwargs first, then defaults, then
    `_setattr` (check, then store) in keyword order.  Result: message and time. -/
def metaNew (t : MetaType) (kwargs : List (String × PyVal)) : Except Err (MetaMsg × PyVal) := do
  if kwargs.any (fun kv => kv.1 != "time" && (indexOf? t.attrs kv.1).isNone) then throw .ValueError
  let rec go : List (String × PyVal) → List PyVal → PyVal → Except Err (List PyVal × PyVal)
    | [], vals, time => .ok (vals, time)
    | (n, v) :: r, vals, time =>
      if n == "time" then do checkTime v; go r vals v
      else match indexOf? t.attrs n with
        | none => .error .ValueError
        | some i => do
          metaCheckAttr t i v
          go r (vals.set i (normVal t v)) time
  let (vals, time) ← go kwargs t.defaults (.int 0)
  pure (⟨t, vals⟩, time)

/-! ### text codecs -/
inductive Charset | latin1 | ascii | utf8
  deriving DecidableEq, Repr, Inhabited

def utf8EncodeCp (c : Nat) : Option (List Nat) :=
  if c < 0x80 then some [c]
  else if c < 0x800 then some [0xC0 + c / 64, 0x80 + c % 64]
  else if 0xD800 ≤ c ∧ c ≤ 0xDFFF then none
  else if c < 0x10000 then some [0xE0 + c / 4096, 0x80 + c / 64 % 64, 0x80 + c % 64]
  else if c < 0x110000 then some [0xF0 + c / 262144, 0x80 + c / 4096 % 64, 0x80 + c / 64 % 64, 0x80 + c % 64]
  else none

def encodeText (cs : Charset) (s : List Nat) : Except Err (List Nat) :=
  match cs with
  | .latin1 => if s.all (· < 256) then .ok s else .error .UnicodeError
  | .ascii => if s.all (· < 128) then .ok s else .error .UnicodeError
  | .utf8 => match s.mapM utf8EncodeCp with
    | some bs => .ok bs.flatten
    | none => .error .UnicodeError

def isCont (b : Nat) : Bool := 0x80 ≤ b && b < 0xC0

/-- strict UTF-8 decoding (CPython's rules: no overlongs, no surrogates, ≤ U+10FFFF) -/
def utf8Decode : List Nat → Option (List Nat)
  | [] => some []
  | b :: rest =>
    if b < 0x80 then (utf8Decode rest).map (b :: ·)
    else if b < 0xC2 then none
    else if b < 0xE0 then
      match rest with
      | c1 :: r => if isCont c1 then (utf8Decode r).map (((b - 0xC0) * 64 + (c1 - 0x80)) :: ·) else none
      | _ => none
    else if b < 0xF0 then
      match rest with
      | c1 :: c2 :: r =>
        let cp := (b - 0xE0) * 4096 + (c1 - 0x80) * 64 + (c2 - 0x80)
        if isCont c1 && isCont c2 && 0x800 ≤ cp && !(0xD800 ≤ cp && cp ≤ 0xDFFF) then
          (utf8Decode r).map (cp :: ·) else none
      | _ => none
    else if b < 0xF5 then
      match rest with
      | c1 :: c2 :: c3 :: r =>
        let cp := (b - 0xF0) * 262144 + (c1 - 0x80) * 4096 + (c2 - 0x80) * 64 + (c3 - 0x80)
        if isCont c1 && isCont c2 && isCont c3 && 0x10000 ≤ cp && cp < 0x110000 then
          (utf8Decode r).map (cp :: ·) else none
      | _ => none
    else none

def decodeText (cs : Charset) (bs : List Nat) : Except Err (List Nat) :=
  match cs with
  | .latin1 => .ok bs
  | .ascii => if bs.all (· < 128) then .ok bs else .error .UnicodeError
  | .utf8 => match utf8Decode bs with
    | some s => .ok s
    | none => .error .UnicodeError

/-! ### payload codecs (`spec.encode` / `spec.decode`) -/

def intOf : PyVal → Int | .int n => n | _ => 0
def natOf (v : PyVal) : Nat := (intOf v).toNat

def itemsOf : PyVal → List Item
  | .list xs | .tuple xs => xs
  | .bytes xs => xs.map natItem
  | _ => []

def itemNat : Item → Nat | .int n => n.toNat | _ => 0

/-- `unsigned('byte', key)` -/
def unsignedByte (k : Int) : Nat := if k < 0 then (k + 256).toNat else k.toNat
/-- `signed('byte', b)` -/
def signedByte (b : Nat) : Int := if b ≥ 128 then (b : Int) - 256 else b

/-- `spec.encode(message)`; assumes the message passed its checks -/
def metaPayload (cs : Charset) (m : MetaMsg) : Except Err (List Nat) :=
  match m.ty, m.vals with
  | .sequence_number, [n] => .ok [natOf n >>> 8, natOf n &&& 0xff]
  | .channel_prefix, [c] => .ok [natOf c]
  | .midi_port, [p] => .ok [natOf p]
  | .end_of_track, [] => .ok []
  | .set_tempo, [t] => .ok [natOf t >>> 16, natOf t >>> 8 &&& 0xff, natOf t &&& 0xff]
  | .smpte_offset, [fr, h, mi, s, f, sf] =>
    match frameRateCode fr with
    | some c => .ok [(c <<< 5) ||| natOf h, natOf mi, natOf s, natOf f, natOf sf]
    | none => .error .KeyError
  | .time_signature, [n, d, c, b] => .ok [natOf n, log2Nat (natOf d), natOf c, natOf b]
  | .key_signature, [.str k] =>
    match keyEncode k with
    | some (key, mode) => .ok [unsignedByte key, mode]
    | none => .error .KeyError
  | .sequencer_specific, [d] => .ok ((itemsOf d).map itemNat)
  | t, [.str s] => if t.isText then encodeText cs s else .error .Other
  | _, _ => .error .Other

/-- `MetaMessage.bytes()` -/
def metaBytes (cs : Charset) (m : MetaMsg) : Except Err (List Nat) := do
  let p ← metaPayload cs m
  pure ([0xff, m.ty.typeByte] ++ encVlq p.length ++ p)

/-- `spec.decode(msg, data)` -/
def metaDecodePayload (cs : Charset) (t : MetaType) (data : List Nat) : Except Err (List PyVal) :=
  match t with
  | .sequence_number =>
    match data with
    | [] => .ok [.int 0]
    | [_] => .error .IndexError
    | a :: b :: _ => .ok [.nat ((a <<< 8) ||| b)]
  | .channel_prefix => match data with | [] => .error .IndexError | a :: _ => .ok [.nat a]
  | .midi_port => match data with | [] => .ok [.int 0] | a :: _ => .ok [.nat a]
  | .end_of_track => .ok []
  | .set_tempo =>
    match data with
    | a :: b :: c :: _ => .ok [.nat ((a <<< 16) ||| (b <<< 8) ||| c)]
    | _ => .error .IndexError
  | .smpte_offset =>
    -- the decoder assigns attribute by attribute through the checked `__setattr__`:
    -- the first failing step decides the exception
    match data with
    | [] => .error .IndexError
    | a :: r1 =>
      match frameRates.find? (fun r => r.1 == a >>> 5) with
      | none => .error .KeyError
      | some fr =>
        let rate : PyVal := if fr.2 % 100 = 0 then .nat (fr.2 / 100) else .flt (Int.ofNat fr.2)
        match r1 with
        | [] => .error .IndexError
        | b :: r2 => if b > 59 then .error .ValueError else
          match r2 with
          | [] => .error .IndexError
          | c :: r3 => if c > 59 then .error .ValueError else
            match r3 with
            | [] => .error .IndexError
            | d :: r4 =>
              match r4 with
              | [] => .error .IndexError
              | e :: _ => if e > 99 then .error .ValueError else
                .ok [rate, .nat (a &&& 0x1f), .nat b, .nat c, .nat d, .nat e]
  | .time_signature =>
    match data with
    | a :: b :: c :: d :: _ => .ok [.nat a, .nat (2 ^ b), .nat c, .nat d]
    | _ => .error .IndexError
  | .key_signature =>
    match data with
    | a :: b :: _ =>
      match keyDecode (signedByte a) b with
      | some k => .ok [.str k]
      | none => .error .KeySignatureError
    | _ => .error .IndexError
  | .sequencer_specific => .ok [.tuple (data.map natItem)]
  | _ => (decodeText cs data).map (fun s => [.str s])

/-- what `build_meta_message` returns -/
inductive MetaEvent
  | known (m : MetaMsg)
  | unknown (typeByte : Nat) (data : List Nat)
  deriving DecidableEq, Repr, Inhabited

def buildMeta (cs : Charset) (typeByte : Nat) (data : List Nat) : Except Err MetaEvent :=
  match MetaType.ofByte typeByte with
  | none => .ok (.unknown typeByte data)
  | some t => (metaDecodePayload cs t data).map (fun vs => .known ⟨t, vs⟩)

/-- the bytes of a VLQ at the front of a list: up to and including the first byte < 0x80 -/
def vlqSpan : List Nat → Option (List Nat × List Nat)
  | [] => none
  | b :: rest => if b < 128 then some ([b], rest) else (vlqSpan rest).map (fun (v, r) => (b :: v, r))

/-- `MetaMessage.from_bytes` on a list of bytes -/
def metaFromBytes (cs : Charset) (bs : List Nat) : Except Err MetaEvent :=
  match bs with
  | [] => .error .IndexError
  | first :: rest =>
    if first ≠ 0xff then .error .ValueError else
    match rest with
    | [] => .error .ValueError
    | ty :: tail =>
      match readVlq tail with
      | .error _ => .error .ValueError
      | .ok (len, data) => if len = data.length then buildMeta cs ty data else .error .ValueError

end Mido
