import MidoModel.Tokenizer
import MidoModel.Generated.Tables
/-
  Hand-written tables of the model, stated in the same shape as the tables extracted
  from the source (MidoModel/Generated/Tables.lean) so that MidoProofs/TableTie.lean can
  state their equality.
-/
namespace Mido

def specTable : List (Nat × String × List String × Nat) :=
  [(0x80, "note_off", ["channel", "note", "velocity"], 3),
   (0x90, "note_on", ["channel", "note", "velocity"], 3),
   (0xa0, "polytouch", ["channel", "note", "value"], 3),
   (0xb0, "control_change", ["channel", "control", "value"], 3),
   (0xc0, "program_change", ["channel", "program"], 2),
   (0xd0, "aftertouch", ["channel", "value"], 2),
   (0xe0, "pitchwheel", ["channel", "pitch"], 3),
   (0xf0, "sysex", ["data"], 0),
   (0xf1, "quarter_frame", ["frame_type", "frame_value"], 2),
   (0xf2, "songpos", ["pos"], 3),
   (0xf3, "song_select", ["song"], 2),
   (0xf6, "tune_request", [], 1),
   (0xf8, "clock", [], 1), (0xfa, "start", [], 1), (0xfb, "continue", [], 1),
   (0xfc, "stop", [], 1), (0xfe, "active_sensing", [], 1), (0xff, "reset", [], 1)]

/-- `_make_spec_lookups`: the spec row a status byte resolves to -/
def lookupStatus (tbl : List (Nat × String × List String × Nat)) (s : Nat) :
    Option (Nat × String × List String × Nat) :=
  tbl.find? (fun r => if 0x80 ≤ r.1 ∧ r.1 ≤ 0xef then r.1 ≤ s ∧ s < r.1 + 16 else r.1 = s)

/-- the model's per-status length function agrees with a spec table on all 256 bytes -/
def lenAgrees (tbl : List (Nat × String × List String × Nat)) : Bool :=
  (List.range 256).all fun s =>
    match lookupStatus tbl s with
    | none => !definedStatus s
    | some r => definedStatus s &&
        (if r.2.2.2 = 0 then s == 0xF0 else specLen s == some r.2.2.2)

/-- every message constructor is named and laid out as its table row says -/
def rowOf (m : Msg) : Option (Nat × String × List String × Nat) :=
  specTable.find? (fun r => r.2.1 = m.typeName)

def sampleMsgs : List Msg :=
  [.chan3 .note_off 0 0 0, .chan3 .note_on 0 0 0, .chan3 .polytouch 0 0 0,
   .chan3 .control_change 0 0 0, .chan2 .program_change 0 0, .chan2 .aftertouch 0 0,
   .pitchwheel 0 0, .sysex [], .quarter_frame 0 0, .songpos 0, .song_select 0,
   .sys1 .tune_request, .sys1 .clock, .sys1 .start, .sys1 .continue_, .sys1 .stop,
   .sys1 .active_sensing, .sys1 .reset]

def rowsAgree : Bool :=
  sampleMsgs.all fun m =>
    match rowOf m with
    | none => false
    | some r => r.1 == m.status && (r.2.2.2 == 0 || r.2.2.2 == m.len)

/-- the MIDI real-time message types (status ≥ 0xF8) -/
def realtimeTypeNames : List String := ["active_sensing", "clock", "continue", "reset", "start", "stop"]

end Mido
