import MidoModel.MsgObj
import MidoModel.Meta
/-
  Model of copy / freeze_message / thaw_message / Frozen.__setattr__ / __hash__ / __eq__ on an
  explicit heap of message objects (mido/frozen.py, Message.copy, MetaMessage.copy), after the
  repair of F14.  Objects are never freed; an object id is its index.
-/
namespace Mido

inductive Body
  | msg (o : MObj)
  | metaB (m : MetaMsg) (time : PyVal)
  | unk (typeByte data time : PyVal)
  deriving DecidableEq, Repr, Inhabited

structure HObj where
  frozen : Bool
  body : Body
  deriving DecidableEq, Repr, Inhabited

abbrev Heap := List HObj

inductive HOut
  | ref (i : Nat) | none | raised (e : Err) | bool (b : Bool) | hashed (items : List (String × PyVal)) | unit
  deriving DecidableEq, Repr

/-- Python `==` on the values that occur as attributes -/
def itemEq : Item → Item → Bool
  | .int a, .int b => a == b
  | .int a, .flt b => a == b
  | .flt a, .int b => a == b
  | .flt a, .flt b => a == b
  | _, _ => false

def itemsEq : List Item → List Item → Bool
  | [], [] => true
  | a :: as, b :: bs => itemEq a b && itemsEq as bs
  | _, _ => false

def pyEq : PyVal → PyVal → Bool
  | .int a, .int b => a == b
  | .int a, .flt b => a * 100 == b
  | .flt a, .int b => a == b * 100
  | .flt a, .flt b => a == b
  | .str a, .str b => a == b
  | .none, .none => true
  | .list a, .list b => itemsEq a b
  | .tuple a, .tuple b => itemsEq a b
  | .bytes a, .bytes b => a == b
  | _, _ => false

/-- `vars(obj)` as (name, value) pairs -/
def Body.items : Body → List (String × PyVal)
  | .msg o => ("type", .str (o.type.name.toList.map Char.toNat)) :: ("time", o.time) :: o.type.valueNames.zip o.vals
  | .metaB m t => ("type", .str (m.ty.name.toList.map Char.toNat)) :: (m.ty.attrs.zip m.vals) ++ [("time", t)]
  | .unk tb d t => [("type", .str ("unknown_meta".toList.map Char.toNat)), ("type_byte", tb), ("data", d), ("time", t)]

def lookupItem (items : List (String × PyVal)) (n : String) : Option PyVal :=
  (items.find? (·.1 == n)).map (·.2)

/-- `vars(a) == vars(b)` (dict equality: same keys, equal values) -/
def bodiesEq (a b : Body) : Bool :=
  let ia := a.items; let ib := b.items
  ia.length == ib.length && ia.all (fun kv => match lookupItem ib kv.1 with | some v => pyEq kv.2 v | none => false)

def hashableVal : PyVal → Bool
  | .list _ => false
  | _ => true

def insertSorted (kv : String × PyVal) : List (String × PyVal) → List (String × PyVal)
  | [] => [kv]
  | x :: r => if kv.1 < x.1 then kv :: x :: r else x :: insertSorted kv r

def sortItems (l : List (String × PyVal)) : List (String × PyVal) := l.foldr insertSorted []

/-- `hash(obj)`: only frozen classes are hashable; the hash is a function of the sorted items -/
def hashObj (o : HObj) : HOut :=
  if !o.frozen then .raised .TypeError
  else if o.body.items.all (fun kv => hashableVal kv.2) then .hashed (sortItems o.body.items)
  else .raised .TypeError

/-- `MetaMessage._setattr` -/
def metaSetAttr (m : MetaMsg) (time : PyVal) (name : String) (v : PyVal) : Except Err (MetaMsg × PyVal) :=
  if name == "time" then do checkTime v; pure (m, v)
  else match indexOf? m.ty.attrs name with
    | some i => do
      let v' ← if name == "data" then (iterItems v).map PyVal.tuple else pure v
      metaCheckAttr m.ty i v'
      pure (⟨m.ty, m.vals.set i v'⟩, time)
    | none => .error .AttributeError

/-- `obj.copy(**overrides)` on a body; `typeOv` = value of a `type=` override -/
def copyBody (b : Body) (typeOv : Option String) (kw : List (String × PyVal)) : Except Err Body :=
  match b with
  | .msg o => (copyObj o typeOv kw).map .msg
  | .metaB m t =>
    if kw.isEmpty && typeOv.isNone then .ok b
    else if (match typeOv with | some tn => tn != m.ty.name | none => false) then .error .ValueError
    else
      -- `self.__class__(**attrs)`: the constructor with every current attribute, then the overrides
      let cur : List (String × PyVal) := (m.ty.attrs.zip m.vals) ++ [("time", t)]
      let merged := kw.foldl (fun acc (nv : String × PyVal) =>
        if acc.any (·.1 == nv.1) then acc.map (fun x => if x.1 == nv.1 then nv else x) else acc ++ [nv]) cur
      (metaNew m.ty merged).map (fun (r : MetaMsg × PyVal) => Body.metaB r.1 r.2)
  | .unk tb d t =>
    if kw.isEmpty && typeOv.isNone then .ok b
    else if (match typeOv with | some tn => tn != "unknown_meta" | none => false) then .error .ValueError
    else
      let get (n : String) (dflt : PyVal) := match kw.find? (·.1 == n) with | some x => x.2 | none => dflt
      let d' := get "data" d
      -- `UnknownMetaMessage.__init__`: data None -> (), else tuple(data)
      match d' with
      | .none => .ok (.unk (get "type_byte" tb) (.tuple []) (get "time" t))
      | _ => (iterItems d').map (fun xs => .unk (get "type_byte" tb) (.tuple xs) (get "time" t))

inductive HOp
  | newMsg (ty : String) (kw : List (String × PyVal))
  | newMeta (ty : String) (kw : List (String × PyVal))
  | newUnk (typeByte data time : PyVal)
  | copy (o : Nat) (typeOv : Option String) (kw : List (String × PyVal))
  | freeze (o : Option Nat)
  | thaw (o : Option Nat)
  | set (o : Nat) (name : String) (v : PyVal)
  | del (o : Nat) (name : String)
  | hash (o : Nat)
  | eq (a b : Nat)
  deriving Repr

def hstep (h : Heap) : HOp → Heap × HOut
  | .newMsg ty kw => match construct ty kw with
    | .ok o => (h ++ [⟨false, .msg o⟩], .ref h.length)
    | .error e => (h, .raised e)
  | .newMeta ty kw => match MetaType.ofName ty with
    | none => (h, .raised .KeyError)
    | some t => match metaNew t kw with
      | .ok (m, time) => (h ++ [⟨false, .metaB m time⟩], .ref h.length)
      | .error e => (h, .raised e)
  | .newUnk tb d t =>
    match d with
    | .none => (h ++ [⟨false, .unk tb (.tuple []) t⟩], .ref h.length)
    | _ => match iterItems d with
      | .ok xs => (h ++ [⟨false, .unk tb (.tuple xs) t⟩], .ref h.length)
      | .error e => (h, .raised e)
  | .copy i tov kw => match h[i]? with
    | none => (h, .raised .Other)
    | some o => match copyBody o.body tov kw with
      | .ok b => (h ++ [⟨o.frozen, b⟩], .ref h.length)
      | .error e => (h, .raised e)
  | .freeze none => (h, .none)
  | .freeze (some i) => match h[i]? with
    | none => (h, .raised .Other)
    | some o => if o.frozen then (h, .ref i) else (h ++ [⟨true, o.body⟩], .ref h.length)
  | .thaw none => (h, .none)
  | .thaw (some i) => match h[i]? with
    | none => (h, .raised .Other)
    | some o => (h ++ [⟨false, o.body⟩], .ref h.length)       -- unfrozen input: `msg.copy()`, also a new object
  | .set i name v => match h[i]? with
    | none => (h, .raised .Other)
    | some o =>
      if o.frozen then (h, .raised .ValueError) else
      match o.body with
      | .msg mo => match setAttr mo name v with
        | .ok mo' => (h.set i ⟨false, .msg mo'⟩, .unit)
        | .error e => (h, .raised e)
      | .metaB m t =>
        if name == "type" then (h, .raised .AttributeError) else
        match metaSetAttr m t name v with
        | .ok (m', t') => (h.set i ⟨false, .metaB m' t'⟩, .unit)
        | .error e => (h, .raised e)
      | .unk tb d t =>
        -- no checking at all
        if name == "type_byte" then (h.set i ⟨false, .unk v d t⟩, .unit)
        else if name == "data" then
          match iterItems v with
          | .ok xs => (h.set i ⟨false, .unk tb (.tuple xs) t⟩, .unit)
          | .error e => (h, .raised e)
        else if name == "time" then (h.set i ⟨false, .unk tb d v⟩, .unit)
        else (h, .raised .Other)
  | .del i _ => match h[i]? with
    | none => (h, .raised .Other)
    | some _ => (h, .raised .AttributeError)
  | .hash i => match h[i]? with
    | none => (h, .raised .Other)
    | some o => (h, hashObj o)
  | .eq a b => match h[a]?, h[b]? with
    | some x, some y => (h, .bool (bodiesEq x.body y.body))
    | _, _ => (h, .raised .Other)

end Mido
