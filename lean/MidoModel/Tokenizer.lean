import MidoModel.Codec
/-
  Model of mido/tokenizer.py (Tokenizer) and mido/parser.py (Parser, parse_all),
  and mido/backends/_parser_queue.py (ParserQueue, sequential view).
-/
namespace Mido

/-- Tokenizer state.  `len = 0` stands for the sysex "length" `float('inf')`. -/
structure Tok where
  status : Nat := 0
  bytes : List Nat := []
  len : Nat := 0
  out : List (List Nat) := []     -- `_messages`, oldest first
  deriving DecidableEq, Repr, Inhabited

/-- `_feed_status_byte` (arms in source order; an undefined non-real-time status byte
    leaves the state untouched, as in the source). -/
def Tok.feedStatus (st : Tok) (s : Nat) : Tok :=
  if s = 0xF7 then
    if st.status = 0xF0 then
      { st with out := st.out ++ [st.bytes ++ [0xF7]], bytes := st.bytes ++ [0xF7], status := 0 }
    else { st with status := 0 }
  else if 0xF8 ≤ s then
    let st1 := if st.status ≠ 0xF0 then { st with status := 0 } else st
    if definedStatus s then { st1 with out := st1.out ++ [[s]] } else st1
  else if s = 0xF0 then { st with status := s, bytes := [s], len := 0 }
  else match specLen s with
    | some 1 => { st with out := st.out ++ [[s]], status := 0 }
    | some n => { st with status := s, bytes := [s], len := n }
    | none => st

/-- `_feed_data_byte` -/
def Tok.feedData (st : Tok) (b : Nat) : Tok :=
  if st.status ≠ 0 then
    let bs := st.bytes ++ [b]
    if bs.length = st.len then { st with bytes := bs, out := st.out ++ [bs], status := 0 }
    else { st with bytes := bs }
  else st

/-- `feed_byte` on a byte already known to be in 0..255 -/
def Tok.feedByte (st : Tok) (b : Nat) : Tok :=
  if b < 128 then st.feedData b else st.feedStatus b

def Tok.feed (st : Tok) (bs : List Nat) : Tok := bs.foldl Tok.feedByte st

/-- `feed_byte` with the range check (`ValueError` outside 0..255). -/
def Tok.feedByteChecked (st : Tok) (b : Int) : Except Err Tok :=
  if 0 ≤ b ∧ b ≤ 255 then .ok (st.feedByte b.toNat) else .error .ValueError

/-- all tokens produced by a byte string from the initial state -/
def tokenize (bs : List Nat) : List (List Nat) := (Tok.feed {} bs).out

/-- decode a list of tokens (`Parser._decode`); an error would be an exception escaping
    `Parser.feed` -/
def decodeTokens : List (List Nat) → Except Err (List Msg)
  | [] => .ok []
  | t :: ts => do
    let m ← decodeNats t
    let ms ← decodeTokens ts
    pure (m :: ms)

/-- `mido.parse_all` -/
def parseAll (bs : List Nat) : Except Err (List Msg) := decodeTokens (tokenize bs)

/-! ### Parser object with its retrieval operations (C05) -/

structure PState where
  tok : Tok := {}
  queue : List Msg := []            -- `Parser.messages`
  iters : List Bool := []           -- generators created by `iter(parser)`: still alive?
  pq : List Msg := []               -- ParserQueue._queue
  deriving Repr, Inhabited

inductive POp
  | feed (bs : List Int) | feedByte (b : Int) | get | pending
  | iterNew | iterNext (i : Nat)
  | putBytes (bs : List Int) | poll | iterpoll
  deriving Repr

inductive POut
  | none | msg (m : Msg) | count (n : Nat) | stop | iterId (i : Nat)
  | msgs (ms : List Msg) | raised (e : Err)
  deriving Repr

/-- feed checked bytes one at a time; on a bad item the bytes before it stay consumed -/
def feedChecked : Tok → List Int → Tok × Option Err
  | st, [] => (st, none)
  | st, b :: rest =>
    match st.feedByteChecked b with
    | .ok st' => feedChecked st' rest
    | .error e => (st, some e)

/-- `Parser._decode`: move every token into the message queue -/
def PState.decodeAll (p : PState) : PState × Option Err :=
  match decodeTokens p.tok.out with
  | .ok ms => ({ p with tok := { p.tok with out := [] }, queue := p.queue ++ ms }, none)
  | .error e => (p, some e)

def PState.feedOp (p : PState) (bs : List Int) : PState × POut :=
  let (t, e) := feedChecked p.tok bs
  let p1 := { p with tok := t }
  match e with
  | some err => (p1, .raised err)
  | none =>
    let (p2, e2) := p1.decodeAll
    match e2 with
    | some err => (p2, .raised err)
    | none => (p2, .none)

def setAt (l : List Bool) (i : Nat) (v : Bool) : List Bool := l.set i v

def pstep (p : PState) : POp → PState × POut
  | .feed bs => p.feedOp bs
  | .feedByte b => p.feedOp [b]
  | .get => match p.queue with
    | [] => (p, .none)
    | m :: q => ({ p with queue := q }, .msg m)
  | .pending => (p, .count p.queue.length)
  | .iterNew => ({ p with iters := p.iters ++ [true] }, .iterId p.iters.length)
  | .iterNext i =>
    match p.iters[i]? with
    | some true =>
      match p.queue with
      | [] => ({ p with iters := setAt p.iters i false }, .stop)
      | m :: q => ({ p with queue := q }, .msg m)
    | _ => (p, .stop)
  | .putBytes bs =>
    let (p1, o) := p.feedOp bs
    match o with
    | .raised e => (p1, .raised e)
    | _ => ({ p1 with queue := [], pq := p1.pq ++ p1.queue }, .none)
  | .poll => match p.pq with
    | [] => (p, .none)
    | m :: q => ({ p with pq := q }, .msg m)
  | .iterpoll => ({ p with pq := [] }, .msgs p.pq)

end Mido
