import MidoModel.Tracks
/-
  Model of MidiFile.__iter__ / length / play and units.py.
  Time unit: one "micro-tick" = 1 / (10^6 * ticks_per_beat) seconds, so that every message time
  `tick * tempo` is an integer; seconds are obtained by one exact division at the end
  (the harness compares the implementation's floats with that exact rational).
-/
namespace Mido

/-- an event of the merged track as far as timing is concerned -/
structure PEv where
  delta : Nat                 -- ticks since the previous event
  tempo : Option Nat          -- `some t` for a set_tempo message
  isMeta : Bool := false
  deriving DecidableEq, Repr, Inhabited

def defaultTempo : Nat := 500000

/-- `MidiFile.__iter__`: the time (in micro-ticks) attached to each yielded message; the tempo
    switches AFTER the yield -/
def iterMicro : Nat → List PEv → List Nat
  | _, [] => []
  | tempo, e :: es =>
    (if e.delta > 0 then e.delta * tempo else 0) ::
      iterMicro (e.tempo.getD tempo) es

/-- `MidiFile.length` in micro-ticks -/
def lengthMicro (es : List PEv) : Nat := (iterMicro defaultTempo es).foldl (· + ·) 0

/-- type-2 files refuse both -/
def iterFile (ty : Nat) (es : List PEv) : Except Err (List Nat) :=
  if ty = 2 then .error .TypeError else .ok (iterMicro defaultTempo es)
def lengthFile (ty : Nat) (es : List PEv) : Except Err Nat :=
  if ty = 2 then .error .ValueError else .ok (lengthMicro es)

/-! ### independent specification: the tempo map as a function of the tick -/

/-- tempo in force on the tick interval [u, u+1): the tempo of the last set_tempo event, in list
    order, whose absolute tick is ≤ u (events come with their absolute ticks) -/
def tempoAt : Nat → List (Nat × Option Nat) → Nat → Nat
  | cur, [], _ => cur
  | cur, (t, c) :: rest, u =>
    if t ≤ u then tempoAt (c.getD cur) rest u else cur

def absTicks : Nat → List PEv → List (Nat × Option Nat)
  | _, [] => []
  | s, e :: es => (s + e.delta, e.tempo) :: absTicks (s + e.delta) es

/-- the tempo-map integral from tick `a` (inclusive) over `n` ticks, in micro-ticks -/
def integral (cur : Nat) (evs : List (Nat × Option Nat)) (a : Nat) : Nat → Nat
  | 0 => 0
  | n + 1 => integral cur evs a n + tempoAt cur evs (a + n)

/-! ### play(): the pacing state machine on an integer clock (micro-ticks) -/

structure PlayOut where
  sleepReq : Int          -- argument of time.sleep, 0 when it is not called
  yieldedAt : Int         -- clock reading when the message is handed out
  deriving Repr, DecidableEq

/-- One round of `play`: `now0` is the reading of `now()` at the top of the loop body, `extra ≥ 0`
    is how much longer than requested the sleep took.  Returns the outputs and the clock after. -/
def playRound (start inputTime now0 extra : Int) : PlayOut × Int :=
  let dur := inputTime - (now0 - start)
  if dur > 0 then (⟨dur, now0 + dur + extra⟩, now0 + dur + extra) else (⟨0, now0⟩, now0)

/-- whole playback: message times (micro-ticks), consumer delays before each round and sleep
    overshoots; returns per message the sleep request and the clock reading at the yield -/
def playAll (start : Int) : Int → Int → List Nat → List (Int × Int) → List PlayOut
  | _, _, [], _ => []
  | inputTime, clock, t :: ts, sched =>
    let (delay, extra) := sched.headD (0, 0)
    let it := inputTime + t
    let now0 := clock + delay
    let (o, clock') := playRound start it now0 extra
    o :: playAll start it clock' ts sched.tail

end Mido
