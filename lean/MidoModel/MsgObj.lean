import MidoModel.Codec
/-
  Model of the checked object API of mido.Message: __init__ / copy / __setattr__ / __delattr__ /
  from_dict / SysexData.__iadd__ with checks.py (after the repair of F22).
  An object is its type plus the values of the type's attributes in spec order plus `time`;
  values are arbitrary Python values (`PyVal`) so that "out of range" and "ill-typed" are
  expressible.
-/
namespace Mido

inductive MType
  | note_off | note_on | polytouch | control_change | program_change | aftertouch | pitchwheel
  | sysex | quarter_frame | songpos | song_select | tune_request | clock | start | continue_
  | stop | active_sensing | reset
  deriving DecidableEq, Repr, Inhabited

def MType.all : List MType :=
  [.note_off, .note_on, .polytouch, .control_change, .program_change, .aftertouch, .pitchwheel,
   .sysex, .quarter_frame, .songpos, .song_select, .tune_request, .clock, .start, .continue_,
   .stop, .active_sensing, .reset]

def MType.name : MType → String
  | .note_off => "note_off" | .note_on => "note_on" | .polytouch => "polytouch"
  | .control_change => "control_change" | .program_change => "program_change"
  | .aftertouch => "aftertouch" | .pitchwheel => "pitchwheel" | .sysex => "sysex"
  | .quarter_frame => "quarter_frame" | .songpos => "songpos" | .song_select => "song_select"
  | .tune_request => "tune_request" | .clock => "clock" | .start => "start"
  | .continue_ => "continue" | .stop => "stop" | .active_sensing => "active_sensing" | .reset => "reset"

def MType.ofName (s : String) : Option MType := MType.all.find? (·.name == s)

/-- `spec['value_names']` -/
def MType.valueNames : MType → List String
  | .note_off | .note_on => ["channel", "note", "velocity"]
  | .polytouch => ["channel", "note", "value"]
  | .control_change => ["channel", "control", "value"]
  | .program_change => ["channel", "program"]
  | .aftertouch => ["channel", "value"]
  | .pitchwheel => ["channel", "pitch"]
  | .sysex => ["data"]
  | .quarter_frame => ["frame_type", "frame_value"]
  | .songpos => ["pos"]
  | .song_select => ["song"]
  | _ => []

/-- `DEFAULT_VALUES` -/
def defaultOf (name : String) : PyVal :=
  if name == "velocity" then .int 64 else if name == "data" then .tuple [] else .int 0

def checkRange (v : PyVal) (lo hi : Int) : Except Err Unit :=
  match v with
  | .int n => if lo ≤ n ∧ n ≤ hi then .ok () else .error .ValueError
  | _ => .error .TypeError

def checkDataItem : Item → Except Err Unit
  | .int n => if 0 ≤ n ∧ n ≤ 127 then .ok () else .error .ValueError
  | _ => .error .TypeError

def checkDataItems : List Item → Except Err Unit
  | [] => .ok ()
  | x :: r => do checkDataItem x; checkDataItems r

/-- iterating a value (`for byte in value`, `tuple(value)`): its items, or TypeError -/
def iterItems : PyVal → Except Err (List Item)
  | .list xs | .tuple xs => .ok xs
  | .bytes xs => .ok (xs.map (fun b => Item.int (Int.ofNat b)))
  | .str s => .ok (s.map (fun _ => Item.hobj))
  | _ => .error .TypeError

/-- `check_value(name, value)` (`_CHECKS`) for the attribute names of messages -/
def checkAttr (name : String) (v : PyVal) : Except Err Unit :=
  if name == "channel" then checkRange v 0 15
  else if name == "pitch" then checkRange v (-8192) 8191
  else if name == "pos" then checkRange v 0 16383
  else if name == "frame_type" then checkRange v 0 7
  else if name == "frame_value" then checkRange v 0 15
  else if name == "data" then do let xs ← iterItems v; checkDataItems xs
  else if name == "time" then (match v with | .int _ | .flt _ => .ok () | _ => .error .TypeError)
  else checkRange v 0 127      -- control, note, program, song, value, velocity

structure MObj where
  type : MType
  vals : List PyVal          -- in the order of `type.valueNames`
  time : PyVal
  deriving DecidableEq, Repr, Inhabited

def indexOfName (names : List String) (n : String) : Option Nat :=
  let rec go : List String → Nat → Option Nat
    | [], _ => none
    | x :: r, i => if x == n then some i else go r (i + 1)
  go names 0

/-- apply keyword overrides onto (vals, time); unknown names are collected -/
def applyKw (t : MType) : List (String × PyVal) → List PyVal → PyVal → List String → List PyVal × PyVal × List String
  | [], vals, time, unk => (vals, time, unk)
  | (n, v) :: r, vals, time, unk =>
    if n == "time" then applyKw t r vals v unk
    else match indexOfName t.valueNames n with
      | some i => applyKw t r (vals.set i v) time unk
      | none => applyKw t r vals time (unk ++ [n])

def checkVals : List String → List PyVal → Except Err Unit
  | n :: ns, v :: vs => do checkAttr n v; checkVals ns vs
  | _, _ => .ok ()

/-- `SysexData(value)` / `tuple(value)` normalisation of the data attribute -/
def normData (t : MType) (vals : List PyVal) : Except Err (List PyVal) :=
  match t, vals with
  | .sysex, [d] => (iterItems d).map (fun xs => [.tuple xs])
  | _, vs => .ok vs

/-- `check_msgdict` in dict order: time, the type's values, then any unknown name -/
def checkAll (t : MType) (vals : List PyVal) (time : PyVal) (unk : List String) : Except Err Unit := do
  checkAttr "time" time
  checkVals t.valueNames vals
  if unk.isEmpty then pure () else throw .ValueError

/-- `Message(type, **kwargs)` / `Message.from_dict` -/
def construct (typeName : String) (kw : List (String × PyVal)) : Except Err MObj :=
  match MType.ofName typeName with
  | none => .error .LookupError
  | some t => do
    let (vals, time, unk) := applyKw t kw (t.valueNames.map defaultOf) (.int 0) []
    let vals' ← normData t vals
    checkAll t vals' time unk
    pure ⟨t, vals', time⟩

/-- `msg.copy(**overrides)`; `typeOv` is the value of a `type=` override if present -/
def copyObj (o : MObj) (typeOv : Option String) (kw : List (String × PyVal)) : Except Err MObj :=
  if kw.isEmpty && typeOv.isNone then .ok o else
  match typeOv with
  | some tn => if tn != o.type.name then .error .ValueError else copyCore o kw
  | none => copyCore o kw
where
  copyCore (o : MObj) (kw : List (String × PyVal)) : Except Err MObj := do
    -- `overrides['data'] = tuple(overrides['data'])` comes first, whatever the message type
    let kw' ← kw.mapM (fun (nv : String × PyVal) =>
      if nv.1 == "data" then (iterItems nv.2).map (fun xs => (nv.1, PyVal.tuple xs)) else pure nv)
    let (vals, time, unk) := applyKw o.type kw' o.vals o.time []
    checkAll o.type vals time unk
    let vals' ← normData o.type vals
    pure ⟨o.type, vals', time⟩

/-- `setattr(msg, name, value)` -/
def setAttr (o : MObj) (name : String) (v : PyVal) : Except Err MObj :=
  if name == "type" then .error .AttributeError
  else if name == "time" then do checkAttr "time" v; pure { o with time := v }
  else match indexOfName o.type.valueNames name with
    | none => .error .AttributeError
    | some i => do
      checkAttr name v
      let v' ← if name == "data" then (iterItems v).map PyVal.tuple else pure v
      pure { o with vals := o.vals.set i v' }

/-- `msg.data += other` -/
def dataIadd (o : MObj) (other : PyVal) : Except Err MObj :=
  match o.type, o.vals with
  | .sysex, [.tuple cur] => do
    let xs ← iterItems other
    checkDataItems xs
    setAttr o "data" (.tuple (cur ++ xs))
  | _, _ => .error .AttributeError

inductive MOp
  | construct (ty : String) (kw : List (String × PyVal))
  | copy (typeOv : Option String) (kw : List (String × PyVal))
  | set (name : String) (v : PyVal)
  | del (name : String)
  | iadd (v : PyVal)
  deriving Repr

/-- one operation on the current object (`none` before the first successful construction);
    a raising operation leaves the object as it was -/
def mstep (cur : Option MObj) (op : MOp) : Option MObj × Option Err :=
  match op, cur with
  | .construct ty kw, _ => match construct ty kw with
    | .ok o => (some o, none) | .error e => (cur, some e)
  | _, none => (none, some .Other)
  | .copy tov kw, some o => match copyObj o tov kw with
    | .ok o' => (some o', none) | .error e => (cur, some e)
  | .set n v, some o => match setAttr o n v with
    | .ok o' => (some o', none) | .error e => (cur, some e)
  | .del _, some _ => (cur, some .AttributeError)
  | .iadd v, some o => match dataIadd o v with
    | .ok o' => (some o', none) | .error e => (cur, some e)

/-- the documented validity of a message object -/
def MObj.valid (o : MObj) : Bool :=
  o.vals.length == o.type.valueNames.length &&
  (match checkAttr "time" o.time with | .ok _ => true | _ => false) &&
  (match checkVals o.type.valueNames o.vals with | .ok _ => true | _ => false) &&
  (match o.type, o.vals with | .sysex, [.tuple _] => true | .sysex, _ => false | _, _ => true)

end Mido
