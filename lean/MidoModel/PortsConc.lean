import MidoModel.Basic
/-
  Interleaving model of a lock-protected port (BaseOutput.send / BaseInput.receive(block=False)
  on an EchoPort-like port) at the granularity of shared accesses: lock acquire / release, deque
  test / popleft / append.  Any number of threads, each running a list of calls; a schedule is any
  list of thread ids; a step of a thread whose pending action is the acquisition of a held lock
  has no effect.
-/
namespace Mido.Conc

abbrev Tid := Nat

inductive Call | poll | send (m : Nat) deriving DecidableEq, Repr

/-- the pending action of a thread -/
inductive Pc
  | start                   -- the thread has not begun
  | done                    -- all calls finished
  | pAcq | pTest | pPop | pRelHit | pRelMiss            -- poll, first phase (locked peek)
  | p2Acq | p2Test | p2Pop | p2RelHit | p2RelMiss       -- poll, second phase (after `_receive`)
  | sAcq (m : Nat) | sApp (m : Nat) | sRel              -- send: acquire, append the copy, release
  deriving DecidableEq, Repr

structure Th where
  prog : List Call := []
  pc : Pc := .start
  got : List (Option Nat) := []       -- results of the poll calls, oldest first
  deriving Repr, Inhabited

structure W where
  lock : Option Tid := none
  q : List Nat := []
  sent : List Nat := []         -- ghost: every message appended, in append order
  recv : List Nat := []         -- ghost: every message popped, in pop order
  th : Tid → Th
  fault : Bool := false         -- `popleft` on an empty deque (IndexError) happened

def inCS : Pc → Bool
  | .pTest | .pPop | .pRelHit | .pRelMiss | .p2Test | .p2Pop | .p2RelHit | .p2RelMiss | .sApp _ | .sRel => true
  | _ => false

def upd (f : Tid → Th) (t : Tid) (x : Th) : Tid → Th := fun u => if u = t then x else f u

/-- begin the next call of the program (or finish) -/
def next (th : Th) : Th :=
  match th.prog with
  | [] => { th with pc := .done }
  | .poll :: r => { th with prog := r, pc := .pAcq }
  | .send m :: r => { th with prog := r, pc := .sAcq m }

def step (w : W) (t : Tid) : W :=
  let th := w.th t
  match th.pc with
  | .start => { w with th := upd w.th t (next th) }
  | .done => w
  | .pAcq => if w.lock = none then { w with lock := some t, th := upd w.th t { th with pc := .pTest } } else w
  | .pTest => if w.q ≠ [] then { w with th := upd w.th t { th with pc := .pPop } }
              else { w with th := upd w.th t { th with pc := .pRelMiss } }
  | .pPop => match w.q with
    | [] => { w with fault := true }
    | m :: r => { w with q := r, recv := w.recv ++ [m], th := upd w.th t { th with pc := .pRelHit, got := th.got ++ [some m] } }
  | .pRelHit => { w with lock := none, th := upd w.th t (next th) }
  | .pRelMiss => { w with lock := none, th := upd w.th t { th with pc := .p2Acq } }
  | .p2Acq => if w.lock = none then { w with lock := some t, th := upd w.th t { th with pc := .p2Test } } else w
  | .p2Test => if w.q ≠ [] then { w with th := upd w.th t { th with pc := .p2Pop } }
               else { w with th := upd w.th t { th with pc := .p2RelMiss } }
  | .p2Pop => match w.q with
    | [] => { w with fault := true }
    | m :: r => { w with q := r, recv := w.recv ++ [m], th := upd w.th t { th with pc := .p2RelHit, got := th.got ++ [some m] } }
  | .p2RelHit => { w with lock := none, th := upd w.th t (next th) }
  | .p2RelMiss => { w with lock := none, th := upd w.th t (next { th with got := th.got ++ [none] }) }
  | .sAcq m => if w.lock = none then { w with lock := some t, th := upd w.th t { th with pc := .sApp m } } else w
  | .sApp m => { w with q := w.q ++ [m], sent := w.sent ++ [m], th := upd w.th t { th with pc := .sRel } }
  | .sRel => { w with lock := none, th := upd w.th t (next th) }

def run (w : W) (σ : List Tid) : W := σ.foldl step w

/-- initial world for a list of thread programs -/
def init (progs : List (List Call)) (q : List Nat) : W :=
  { q := q, sent := q, th := fun i => match progs[i]? with | some p => { prog := p } | none => { pc := .done } }

end Mido.Conc
