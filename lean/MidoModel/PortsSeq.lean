import MidoModel.Basic
/-
  Sequential model of mido/ports.py: BasePort.close, BaseInput.receive/poll/iter_pending/__iter__,
  BaseOutput.send/reset, EchoPort, MultiPort (after the repairs of F8 and F9).
  Messages are opaque identities (Nat).  The device double's `_receive` consumes one element of
  an environment script per call: (messages arriving, does the device close itself).
-/
namespace Mido

inductive LogEv
  | sent (id : Nat)        -- `_send` reached the device
  | closed                 -- `_close` reached the device
  deriving DecidableEq, Repr

inductive PKind | dev | echo deriving DecidableEq, Repr

structure Port where
  kind : PKind := .dev
  closed : Bool := false
  queue : List Nat := []
  autoreset : Bool := false
  script : List (List Nat × Bool) := []
  log : List LogEv := []
  sleeps : Nat := 0                    -- calls of ports.sleep() so far
  budget : Option Nat := none          -- device fault: `_send` calls that still succeed (none: no fault)
  deriving DecidableEq, Repr, Inhabited

/-- identities of the 32 reset messages (all_notes_off, reset_all_controllers per channel) -/
def resetIds : List Nat := (List.range 32).map (· + 1000)

/-- the device is gone: its `_send` raises OSError -/
def Port.sendFails (p : Port) : Bool :=
  match p.kind, p.budget with
  | .dev, some 0 => true
  | _, _ => false

/-- a successful `_send` of the port kind -/
def Port.rawSend (p : Port) (id : Nat) : Port :=
  match p.kind with
  | .dev => { p with log := p.log ++ [.sent id], budget := p.budget.map (· - 1) }
  | .echo => { p with queue := p.queue ++ [id] }

/-- `reset()` inside `close()`: the reset messages are sent one by one; the first OSError ends the
    loop (`except OSError: pass`) -/
def Port.resetSends : List Nat → Port → Port
  | [], p => p
  | i :: r, p => if p.sendFails then p else Port.resetSends r (p.rawSend i)

/-- `close()` -/
def Port.close (p : Port) : Port :=
  if p.closed then p else
  let p1 := if p.autoreset then Port.resetSends resetIds p else p
  { p1 with log := p1.log ++ [.closed], closed := true }

/-- `reset()` called by the user: nothing on a closed port; otherwise the 32 reset messages one by one through `send`;
    the first `_send` the device refuses raises OSError (the messages before it have been sent) -/
def Port.userReset (p : Port) : Port × Except Err Unit :=
  if p.closed then (p, .ok ()) else
  let fails := p.kind == .dev && (match p.budget with | some b => decide (b < resetIds.length) | none => false)
  (Port.resetSends resetIds p, if fails then .error .OSError else .ok ())

/-- `send(msg)` -/
def Port.send (p : Port) (id : Nat) : Port × Except Err Unit :=
  if p.closed then (p, .error .ValueError)
  else if p.sendFails then (p, .error .OSError)
  else (p.rawSend id, .ok ())

/-- the device's `_receive`: one step of the environment -/
def Port.envStep (p : Port) : Port :=
  match p.kind, p.script with
  | .dev, (arr, closes) :: rest =>
    let p1 := { p with queue := p.queue ++ arr, script := rest }
    if closes then p1.close else p1
  | _, _ => p

inductive ROut
  | msg (id : Nat) | none | raised (e : Err) | hang
  deriving DecidableEq, Repr

/-- the polling loop of `receive`: `fuel` bounds the number of rounds (a round that finds nothing,
    in blocking mode on an open port, calls `sleep()` and goes round again) -/
def Port.recvLoop (block : Bool) : Nat → Port → Port × ROut
  | 0, p => (p, .hang)
  | fuel + 1, p =>
    let p1 := p.envStep
    match p1.queue with
    | m :: q => ({ p1 with queue := q }, .msg m)
    | [] =>
      if !block then (p1, .none)
      else if p1.closed then (p1, .raised .OSError)
      else Port.recvLoop block fuel { p1 with sleeps := p1.sleeps + 1 }

/-- rounds after which a blocking receive on a silent open port is declared hanging -/
def Port.fuel (p : Port) : Nat := p.script.length + 2

/-- `receive(block)` -/
def Port.receive (p : Port) (block : Bool) : Port × ROut :=
  match p.queue with
  | m :: q => ({ p with queue := q }, .msg m)
  | [] =>
    if p.closed then (p, if block then .raised .ValueError else .none)
    else Port.recvLoop block p.fuel p

def Port.poll (p : Port) : Port × ROut := p.receive false

inductive Ending | normal | raised (e : Err) | hang deriving DecidableEq, Repr

/-- `iter_pending()` run to its end -/
def Port.iterPending : Nat → Port → List Nat → Port × List Nat × Ending
  | 0, p, acc => (p, acc, .hang)
  | fuel + 1, p, acc =>
    match p.poll with
    | (p', .msg m) => Port.iterPending fuel p' (acc ++ [m])
    | (p', .none) => (p', acc, .normal)
    | (p', .raised e) => (p', acc, .raised e)
    | (p', .hang) => (p', acc, .hang)

def Port.pendingFuel (p : Port) : Nat := p.queue.length + (p.script.map (·.1.length)).sum + p.script.length + 2

/-- `for msg in port` run to its end (EchoPort iterates over the pending messages only) -/
def Port.iterAll : Nat → Port → List Nat → Port × List Nat × Ending
  | 0, p, acc => (p, acc, .hang)
  | fuel + 1, p, acc =>
    match p.receive true with
    | (p', .msg m) => Port.iterAll fuel p' (acc ++ [m])
    | (p', .raised e) =>
      -- `except (OSError, ValueError): if self.closed: return`
      if (e = .OSError ∨ e = .ValueError) ∧ p'.closed then (p', acc, .normal) else (p', acc, .raised e)
    | (p', .none) => (p', acc, .raised .Other)      -- cannot happen for block=True
    | (p', .hang) => (p', acc, .hang)

def Port.iter (p : Port) : Port × List Nat × Ending :=
  match p.kind with
  | .echo => Port.iterPending p.pendingFuel p []
  | .dev => Port.iterAll p.pendingFuel p []

/-! ### operations as a state machine (for histories) -/
inductive LOp
  | send (id : Nat) | receive | poll | iterAll | iterPending | close | withExit | reset
  deriving DecidableEq, Repr

inductive LOut
  | unit | r (o : ROut) | yielded (ms : List Nat) (e : Ending)
  deriving DecidableEq, Repr

def lstep (p : Port) : LOp → Port × LOut
  | .send id => let (p', r) := p.send id; (p', match r with | .ok _ => .unit | .error e => .r (.raised e))
  | .receive => let (p', o) := p.receive true; (p', .r o)
  | .poll => let (p', o) := p.poll; (p', .r o)
  | .iterAll => let (p', ms, e) := p.iter; (p', .yielded ms e)
  | .iterPending => let (p', ms, e) := Port.iterPending p.pendingFuel p []; (p', .yielded ms e)
  | .close | .withExit => (p.close, .unit)
  | .reset => let (p', r) := p.userReset; (p', match r with | .ok _ => .unit | .error e => .r (.raised e))

def lrun (p : Port) : List LOp → Port
  | [] => p
  | op :: rest => lrun (lstep p op).1 rest

/-! ### MultiPort over child ports -/
structure Multi where
  closed : Bool := false
  queue : List Nat := []
  children : List Port := []
  sleeps : Nat := 0
  deriving DecidableEq, Repr, Inhabited

/-- `multi_receive(ports, block=False)` with the identity shuffle: all pending messages of every
    open child, child by child -/
def pollChildren : List Port → List Port × List Nat
  | [] => ([], [])
  | c :: cs =>
    let (c', ms) := if c.closed then (c, []) else
      let (c1, got, _) := Port.iterPending c.pendingFuel c []
      (c1, got)
    let (cs', rest) := pollChildren cs
    (c' :: cs', ms ++ rest)

def Multi.envStep (m : Multi) : Multi :=
  let (cs, got) := pollChildren m.children
  { m with children := cs, queue := m.queue ++ got }

def Multi.recvLoop (block : Bool) : Nat → Multi → Multi × ROut
  | 0, m => (m, .hang)
  | fuel + 1, m =>
    let m1 := m.envStep
    match m1.queue with
    | x :: q => ({ m1 with queue := q }, .msg x)
    | [] =>
      if !block then (m1, .none)
      else if m1.closed then (m1, .raised .OSError)
      else Multi.recvLoop block fuel { m1 with sleeps := m1.sleeps + 1 }

def Multi.fuel (m : Multi) : Nat := (m.children.map (·.script.length)).sum + 2

def Multi.receive (m : Multi) (block : Bool) : Multi × ROut :=
  match m.queue with
  | x :: q => ({ m with queue := q }, .msg x)
  | [] =>
    if m.closed then (m, if block then .raised .ValueError else .none)
    else Multi.recvLoop block m.fuel m

/-- the loop of `MultiPort._send`: every open child in turn; an exception ends it -/
def sendChildren (id : Nat) : List Port → List Port × Except Err Unit
  | [] => ([], .ok ())
  | c :: cs =>
    if c.closed then let (cs', r) := sendChildren id cs; (c :: cs', r)
    else match c.send id with
      | (c', .ok _) => let (cs', r) := sendChildren id cs; (c' :: cs', r)
      | (c', .error e) => (c' :: cs, .error e)

/-- `MultiPort.send`: forwarded to every open child -/
def Multi.send (m : Multi) (id : Nat) : Multi × Except Err Unit :=
  if m.closed then (m, .error .ValueError)
  else let (cs, r) := sendChildren id m.children; ({ m with children := cs }, r)

end Mido
