import MidoModel.Tracks
/-
  Model of the MidiFile object as a container: documented edits and the merged-track
  observation (MidiFile.merged_track / add_track / tracks list).  After the repair of F15 the
  implementation keeps no memoised merge, and neither does the model.
-/
namespace Mido

structure MF where
  type : Int := 1
  tracks : List (List TEv) := []
  deriving DecidableEq, Repr, Inhabited

inductive FOp
  | addTrack                                  -- mid.add_track()
  | appendTrack (t : List TEv)                -- mid.tracks.append(t)
  | removeTrack (i : Nat)                     -- del mid.tracks[i]
  | appendMsg (i : Nat) (e : TEv)             -- mid.tracks[i].append(msg)
  | removeMsg (i j : Nat)                     -- del mid.tracks[i][j]
  | setTime (i j : Nat) (t : Nat)             -- mid.tracks[i][j].time = t
  | setType (n : Int)                         -- mid.type = n
  | swapMsgs (i j : Nat)                      -- t = mid.tracks[i]; t[j], t[j+1] = t[j+1], t[j]
  | shiftTime (i j k : Nat)                   -- a, b = t[j], t[j+1]; if b.time >= k: a.time += k; b.time -= k
  | obsMerged                                 -- mid.merged_track
  deriving Repr

inductive FOut
  | done | raised (e : Err) | track (t : List TEv)
  deriving DecidableEq, Repr

def modifyAt {α} (l : List α) (i : Nat) (f : α → α) : List α :=
  match l[i]? with
  | some x => l.set i (f x)
  | none => l

/-- the observation as a function of the current contents only -/
def observeMerged (type : Int) (tracks : List (List TEv)) : FOut :=
  if type = 2 then .raised .TypeError else .track (mergeTracks tracks)

def fstep (m : MF) : FOp → MF × FOut
  | .addTrack => ({ m with tracks := m.tracks ++ [[]] }, .done)
  | .appendTrack t => ({ m with tracks := m.tracks ++ [t] }, .done)
  | .removeTrack i => if i < m.tracks.length then ({ m with tracks := m.tracks.eraseIdx i }, .done)
                      else (m, .raised .IndexError)
  | .appendMsg i e => if i < m.tracks.length then ({ m with tracks := modifyAt m.tracks i (· ++ [e]) }, .done)
                      else (m, .raised .IndexError)
  | .removeMsg i j =>
    match m.tracks[i]? with
    | some t => if j < t.length then ({ m with tracks := m.tracks.set i (t.eraseIdx j) }, .done)
                else (m, .raised .IndexError)
    | none => (m, .raised .IndexError)
  | .setTime i j t =>
    match m.tracks[i]? with
    | some tr => if j < tr.length then
        ({ m with tracks := m.tracks.set i (modifyAt tr j (fun e => { e with time := t })) }, .done)
        else (m, .raised .IndexError)
    | none => (m, .raised .IndexError)
  | .setType n => ({ m with type := n }, .done)
  | .swapMsgs i j =>
    match m.tracks[i]? with
    | some tr =>
      match tr[j]?, tr[j + 1]? with
      | some a, some b => ({ m with tracks := m.tracks.set i ((tr.set j b).set (j + 1) a) }, .done)
      | _, _ => (m, .raised .IndexError)
    | none => (m, .raised .IndexError)
  | .shiftTime i j k =>
    match m.tracks[i]? with
    | some tr =>
      match tr[j]?, tr[j + 1]? with
      | some a, some b =>
        if b.time ≥ k then
          ({ m with tracks := m.tracks.set i ((tr.set j { a with time := a.time + k }).set (j + 1) { b with time := b.time - k }) }, .done)
        else (m, .done)
      | _, _ => (m, .raised .IndexError)
    | none => (m, .raised .IndexError)
  | .obsMerged => (m, observeMerged m.type m.tracks)

def frun (m : MF) : List FOp → MF
  | [] => m
  | op :: rest => frun (fstep m op).1 rest

end Mido
