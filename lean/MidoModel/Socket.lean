import MidoModel.Numeral
import MidoModel.Tokenizer
/-
  Model of mido/sockets.py: address formatting/parsing, CPython's socket close rule as seen by
  SocketPort._close, and the byte-level contract of SocketPort._receive (bytes fed one at a time
  to the parser; EOF closes the port).
-/
namespace Mido

/-- `str.split(':')` -/
def splitColonAux : List Char → List Char → List (List Char)
  | cur, [] => [cur.reverse]
  | cur, c :: r => if c = ':' then cur.reverse :: splitColonAux [] r else splitColonAux (c :: cur) r
def splitColon (s : List Char) : List (List Char) := splitColonAux [] s

/-- `format_address(host, portno)` (after the repair of F18) -/
def formatAddress (host : List Char) (port : Nat) : List Char := host ++ ':' :: showNat port

/-- `parse_address(address)` on the ASCII-digit fragment of `int()` -/
def parseAddress (s : List Char) : Except Err (List Char × Nat) :=
  match splitColon s with
  | [h, p] =>
    match parseNat p with
    | some n => if 0 < n ∧ n < 65536 then .ok (h, n) else .error .ValueError
    | none => .error .ValueError
  | _ => .error .ValueError

/-! CPython's socket close rule: the descriptor is really closed when `close()` was called on the
    socket object and every file object made from it has been closed. -/
structure Sock where
  closedFlag : Bool := false
  ioRefs : Nat := 0
  deriving DecidableEq, Repr

def Sock.fdOpen (s : Sock) : Bool := !(s.closedFlag && s.ioRefs == 0)
def Sock.makefile (s : Sock) : Sock := { s with ioRefs := s.ioRefs + 1 }
def Sock.fileClose (s : Sock) : Sock := { s with ioRefs := s.ioRefs - 1 }
def Sock.close (s : Sock) : Sock := { s with closedFlag := true }

/-- `SocketPort.__init__`: two `makefile` objects on the connection -/
def socketPortInit (s : Sock) : Sock := s.makefile.makefile
/-- `SocketPort._close` (after the repair of F17): both file objects and the socket -/
def socketPortClose (s : Sock) : Sock := s.fileClose.fileClose.close

/-- number of leading messages whose encodings lie completely within the first `k` bytes -/
def completeWithin : List Msg → Nat → Nat
  | [], _ => 0
  | m :: ms, k => if (encode m).length ≤ k then 1 + completeWithin ms (k - (encode m).length) else 0

end Mido
