import MidoModel.Basic
/-
  Model of mido/midifiles/tracks.py: _to_abstime, _to_reltime, fix_end_of_track, merge_tracks.
  Events carry an opaque identity `id` (the message object's content), the flag "is an
  end_of_track meta message", and a time in ticks.
-/
namespace Mido

structure TEv where
  id : Nat
  eot : Bool
  time : Nat
  deriving DecidableEq, Repr, Inhabited

/-- `_to_abstime`: running sum -/
def absFrom : Nat → List TEv → List TEv
  | _, [] => []
  | s, e :: es => { e with time := s + e.time } :: absFrom (s + e.time) es
def toAbs (es : List TEv) : List TEv := absFrom 0 es

/-- `_to_reltime`: differences to the previous message's time -/
def relFrom : Nat → List TEv → List TEv
  | _, [] => []
  | now, e :: es => { e with time := e.time - now } :: relFrom e.time es
def toRel (es : List TEv) : List TEv := relFrom 0 es

/-- body of `fix_end_of_track`: events kept (with accumulated end_of_track deltas added to the
    next event, through the code's `if accum:` branch) and the final accumulator -/
def fixAcc : Nat → List TEv → List TEv × Nat
  | acc, [] => ([], acc)
  | acc, e :: es =>
    if e.eot then fixAcc (acc + e.time) es
    else
      let e' := if acc ≠ 0 then { e with time := acc + e.time } else e
      let r := fixAcc 0 es
      (e' :: r.1, r.2)

/-- the identity of the freshly created end_of_track message -/
def eotId : Nat := 0

/-- `fix_end_of_track` -/
def fixEOT (es : List TEv) : List TEv :=
  let r := fixAcc 0 es
  r.1 ++ [⟨eotId, true, r.2⟩]

def leTime (a b : TEv) : Bool := decide (a.time ≤ b.time)

/-- `merge_tracks` (`list.sort(key=time)` is a stable sort: core `List.mergeSort`) -/
def mergeTracks (ts : List (List TEv)) : List TEv :=
  fixEOT (toRel ((ts.flatMap toAbs).mergeSort leTime))

/-- sum of the delta times of a track -/
def totalFrom (s : Nat) (es : List TEv) : Nat := es.foldl (fun a e => a + e.time) s
def total (es : List TEv) : Nat := totalFrom 0 es

end Mido
