import MidoModel.Tokenizer
import MidoModel.Meta
import MidoModel.Tracks
import MidoModel.Tempo
import MidoModel.Smf
import MidoModel.MidiFileState
import MidoModel.Backend
import MidoModel.Syx
import MidoModel.PortsSeq
import MidoModel.Socket
import MidoModel.MsgObj
import MidoModel.Heap
import MidoModel.Strings
import MidoModel.PortsConc
import MidoModel.LockDisc
/- Text protocol helpers for the driver: parsing requests, printing canonical results. -/
namespace Mido

def Msg.show : Msg → String
  | .chan3 k ch d1 d2 => s!"{k.name} {ch} {d1} {d2}"
  | .chan2 k ch d1 => s!"{k.name} {ch} {d1}"
  | .pitchwheel ch p => s!"pitchwheel {ch} {p}"
  | .sysex d => if d.isEmpty then "sysex" else "sysex " ++ showList d
  | .quarter_frame ft fv => s!"quarter_frame {ft} {fv}"
  | .songpos p => s!"songpos {p}"
  | .song_select s => s!"song_select {s}"
  | .sys1 k => k.name

def showMsgs (ms : List Msg) : String := ";".intercalate (ms.map Msg.show)

def parseNat? (s : String) : Option Nat := s.toNat?
def parseInt? (s : String) : Option Int := s.toInt?

def parseNats (ts : List String) : Option (List Nat) := ts.mapM parseNat?
def parseInts (ts : List String) : Option (List Int) := ts.mapM parseInt?

def parseItem (s : String) : Option Item :=
  if s = "h" then some .hobj else if s = "u" then some .uobj
  else if s.startsWith "f" then (parseInt? (s.drop 1).toString).map .flt
  else (parseInt? s).map .int

def parseItems (ts : List String) : Option (List Item) := ts.mapM parseItem

def parseMsg (ts : List String) : Option Msg :=
  match ts with
  | [] => none
  | ty :: args =>
    let c3 (k : C3) := match args.mapM parseNat? with
      | some [a, b, c] => some (Msg.chan3 k a b c) | _ => none
    let c2 (k : C2) := match args.mapM parseNat? with
      | some [a, b] => some (Msg.chan2 k a b) | _ => none
    let s1 (k : S1) := if args.isEmpty then some (Msg.sys1 k) else none
    match ty with
    | "note_off" => c3 .note_off | "note_on" => c3 .note_on | "polytouch" => c3 .polytouch
    | "control_change" => c3 .control_change
    | "program_change" => c2 .program_change | "aftertouch" => c2 .aftertouch
    | "pitchwheel" => match args with
      | [a, b] => do let ch ← parseNat? a; let p ← parseInt? b; pure (Msg.pitchwheel ch p)
      | _ => none
    | "sysex" => (args.mapM parseNat?).map Msg.sysex
    | "quarter_frame" => match args.mapM parseNat? with
      | some [a, b] => some (.quarter_frame a b) | _ => none
    | "songpos" => match args.mapM parseNat? with | some [a] => some (.songpos a) | _ => none
    | "song_select" => match args.mapM parseNat? with | some [a] => some (.song_select a) | _ => none
    | "tune_request" => s1 .tune_request | "clock" => s1 .clock | "start" => s1 .start
    | "continue" => s1 .continue_ | "stop" => s1 .stop | "active_sensing" => s1 .active_sensing
    | "reset" => s1 .reset
    | _ => none

def showExcept {α} (f : α → String) : Except Err α → String
  | .ok a => let s := f a; if s.isEmpty then "ok" else "ok " ++ s
  | .error e => "err " ++ e.name

def POut.show : POut → String
  | .none => "none" | .msg m => "msg " ++ m.show | .count n => s!"count {n}" | .stop => "stop"
  | .iterId i => s!"iter {i}" | .msgs ms => "msgs " ++ showMsgs ms | .raised e => "err " ++ e.name

/-! ### PyVal tokens: i<int> f<hundredths> s<cp,cp> n l<items> t<items> b<nats> -/
def Item.show : Item → String
  | .int n => toString n | .flt n => s!"f{n}" | .hobj => "h" | .uobj => "u"

def commaList (xs : List String) : String := ",".intercalate xs

def PyVal.show : PyVal → String
  | .int n => s!"i{n}" | .flt h => s!"f{h}" | .str s => "s" ++ commaList (s.map toString)
  | .none => "n" | .list xs => "l" ++ commaList (xs.map Item.show)
  | .tuple xs => "t" ++ commaList (xs.map Item.show) | .bytes xs => "b" ++ commaList (xs.map toString)

def splitComma (s : String) : List String := if s.isEmpty then [] else s.splitOn ","

def parsePyVal (s : String) : Option PyVal :=
  if s.isEmpty then none else
  let body := (s.drop 1).toString
  match s.front with
  | 'i' => (parseInt? body).map .int
  | 'f' => (parseInt? body).map .flt
  | 's' => ((splitComma body).mapM parseNat?).map .str
  | 'n' => some .none
  | 'l' => ((splitComma body).mapM parseItem).map .list
  | 't' => ((splitComma body).mapM parseItem).map .tuple
  | 'b' => ((splitComma body).mapM parseNat?).map .bytes
  | _ => none

def parseKw (s : String) : Option (String × PyVal) :=
  match s.splitOn "=" with
  | [n, v] => (parsePyVal v).map (fun pv => (n, pv))
  | _ => none

def MetaMsg.show (m : MetaMsg) : String :=
  " ".intercalate (m.ty.name :: m.vals.map PyVal.show)

def MetaEvent.show : MetaEvent → String
  | .known m => "known " ++ m.show
  | .unknown tb d => s!"unknown {tb}" ++ (if d.isEmpty then "" else " " ++ showList d)

def parseCharset (s : String) : Option Charset :=
  match s with | "latin1" => some .latin1 | "ascii" => some .ascii | "utf8" => some .utf8 | _ => none

def parseMetaMsg (ts : List String) : Option MetaMsg :=
  match ts with
  | [] => none
  | ty :: vals => do
    let t ← MetaType.ofName ty
    let vs ← vals.mapM parsePyVal
    pure ⟨t, vs⟩

/-! tracks of abstract events: `id:eot:time` tokens, tracks separated by `|` -/
def parseTEv (s : String) : Option TEv :=
  match s.splitOn ":" with
  | [a, b, c] => do
    let id ← parseNat? a; let e ← parseNat? b; let t ← parseNat? c
    pure ⟨id, e != 0, t⟩
  | _ => none

def TEv.show (e : TEv) : String := s!"{e.id}:{if e.eot then 1 else 0}:{e.time}"

def splitTracks (ts : List String) : List (List String) :=
  let rec go : List String → List String → List (List String) → List (List String)
    | [], cur, acc => (cur.reverse :: acc).reverse
    | t :: r, cur, acc => if t == "|" then go r [] (cur.reverse :: acc) else go r (t :: cur) acc
  go ts [] []

/-! timing events `delta:tempo:meta` with tempo `-` for none -/
def parsePEv (s : String) : Option PEv :=
  match s.splitOn ":" with
  | [a, b, c] => do
    let d ← parseNat? a
    let t ← if b == "-" then pure none else (parseNat? b).map some
    let m ← parseNat? c
    pure ⟨d, t, m != 0⟩
  | _ => none

def parsePair (s : String) : Option (Int × Int) :=
  match s.splitOn ":" with
  | [a, b] => do let x ← parseInt? a; let y ← parseInt? b; pure (x, y)
  | _ => none

/-! file events: `<time>;msg;<type>;<args..>` | `<time>;meta;<type>;<vals..>` | `<time>;umeta;<tb>;<b,b,..>` -/
def parseFEv (fields : List String) : Option FEv :=
  match fields with
  | "msg" :: rest => (parseMsg rest).map .msg
  | "meta" :: rest => (parseMetaMsg rest).map .metaEv
  | ["umeta", tb, data] => do
    let t ← parseNat? tb
    let d ← (splitComma data).mapM parseNat?
    pure (.unknownMeta t d)
  | ["umeta", tb] => (parseNat? tb).map (fun t => .unknownMeta t [])
  | _ => none

def parseTEvent (s : String) : Option TEvent :=
  match s.splitOn ";" with
  | t :: rest => do
    let time ← parsePyVal t
    let ev ← parseFEv rest
    pure ⟨ev, time⟩
  | _ => none

def FEv.show : FEv → String
  | .msg m => "msg;" ++ ";".intercalate (m.show.splitOn " ")
  | .metaEv m => "meta;" ++ ";".intercalate (m.show.splitOn " ")
  | .unknownMeta tb d => s!"umeta;{tb};" ++ commaList (d.map toString)

def LEvent.show (e : LEvent) : String := s!"{e.delta};" ++ e.ev.show

def LFile.show (f : LFile) : String :=
  s!"{f.type} {f.tpb}" ++ String.join (f.tracks.map (fun t => " |" ++ String.join (t.map (fun e => " " ++ e.show))))

def FOut.show : FOut → String
  | .done => "done" | .raised e => "err " ++ e.name
  | .track t => "track" ++ String.join (t.map (fun e => " " ++ e.show))

/-! backend configurations: strings with `-` = None, `@` = empty string -/
def optStr (s : String) : Option String := if s == "-" then none else if s == "@" then some "" else some s
def showOpt : Option String → String | none => "-" | some s => if s.isEmpty then "@" else s
def Cls.show : Cls → String | .Input => "Input" | .Output => "Output" | .IOPort => "IOPort"
def Rec.show : Rec → String
  | .import_ m => s!"import:{if m.isEmpty then "@" else m}"
  | .ctor c n a => s!"ctor:{c.show}:{showOpt n}:{showOpt a}"
  | .getDevices a => s!"devices:{showOpt a}"

def kvGet (kvs : List (String × String)) (k : String) : String :=
  match kvs.find? (·.1 == k) with | some p => p.2 | none => "-"

def parseKVs (ts : List String) : List (String × String) :=
  ts.filterMap fun t => match t.splitOn "=" with | [a, b] => some (a, b) | _ => none

def parseDevices (s : String) : List (String × Bool × Bool) :=
  if s == "-" then [] else (s.splitOn ",").filterMap fun d =>
    match d.splitOn ":" with | [n, i, o] => some (n, i == "1", o == "1") | _ => none

/-- one call description `fn/name/api` with api `unset` | `-` | value -/
def runBackendCall (b : Backend) (env : BEnv) (call : String) : Except Err (Backend × String) :=
  match call.splitOn "/" with
  | [fn, nm, ap] =>
    let name := optStr nm
    let ca : Option (Option String) := if ap == "unset" then none else some (optStr ap)
    let fmt (r : List Rec) (names : Option (List String)) : String :=
      " ".intercalate (r.map Rec.show) ++ (match names with | some ns => " => " ++ ",".intercalate ns | none => "")
    match fn with
    | "open_input" => (b.openInput env name ca).map (fun (b', r) => (b', fmt r none))
    | "open_output" => (b.openOutput env name ca).map (fun (b', r) => (b', fmt r none))
    | "open_ioport" => (b.openIoport env name ca).map (fun (b', r) => (b', fmt r none))
    | "get_input_names" => (b.getNames env .inputs ca).map (fun (b', r, ns) => (b', fmt r (some ns)))
    | "get_output_names" => (b.getNames env .outputs ca).map (fun (b', r, ns) => (b', fmt r (some ns)))
    | "get_ioport_names" => (b.getNames env .ioports ca).map (fun (b', r, ns) => (b', fmt r (some ns)))
    | _ => .error .Other
  | _ => .error .Other

def runBackend (ts : List String) : String :=
  let kv := parseKVs ts
  let g := kvGet kv
  let env : BEnv := {
    midoBackend := optStr (g "MB"), defInput := optStr (g "DI"), defOutput := optStr (g "DO"),
    defIoport := optStr (g "DIO"), importable := if g "imp" == "-" then [] else (g "imp").splitOn ",",
    hasIOPort := g "hasio" == "1", hasGetDevices := g "hasgd" == "1", devices := parseDevices (g "devs") }
  let b := mkBackend env (optStr (g "name")) (optStr (g "api")) (g "use" == "1")
  let calls := ts.filter (fun t => !(t.contains '=') )
  let rec go (b : Backend) : List String → List String
    | [] => []
    | c :: rest => match runBackendCall b env c with
      | .ok (b', s) => ("ok " ++ s) :: go b' rest
      | .error e => ("err " ++ e.name) :: go b rest
  s!"backend {if b.name.isEmpty then "@" else b.name} {showOpt b.api} | " ++ " | ".intercalate (go b calls)

/-! ports: `kind=dev autoreset=0 closed=0 queue=1,2 script=1,2:0;:1` -/
def parseScript (s : String) : List (List Nat × Bool) :=
  if s == "-" then [] else (s.splitOn ";").filterMap fun step =>
    match step.splitOn ":" with
    | [arr, c] => some ((splitComma arr).filterMap parseNat?, c == "1")
    | _ => none

def parsePort (ts : List String) : Port :=
  let kv := parseKVs ts
  let g := kvGet kv
  { kind := if g "kind" == "echo" then .echo else .dev, closed := g "closed" == "1",
    queue := if g "queue" == "-" then [] else (splitComma (g "queue")).filterMap parseNat?,
    autoreset := g "autoreset" == "1", script := parseScript (g "script"), budget := parseNat? (g "budget") }

def LogEv.show : LogEv → String | .sent i => s!"s{i}" | .closed => "C"
def ROut.show : ROut → String
  | .msg i => s!"msg {i}" | .none => "none" | .raised e => "err " ++ e.name | .hang => "hang"
def Ending.show : Ending → String | .normal => "normal" | .raised e => "err " ++ e.name | .hang => "hang"
def LOut.show : LOut → String
  | .unit => "ok" | .r o => o.show
  | .yielded ms e => "yield " ++ commaList (ms.map toString) ++ " " ++ e.show
def Port.showState (p : Port) : String :=
  s!"closed={if p.closed then 1 else 0} queue={commaList (p.queue.map toString)} log={commaList (p.log.map LogEv.show)} sleeps={p.sleeps}"

def MObj.show (o : MObj) : String :=
  " ".intercalate (o.type.name :: o.vals.map PyVal.show) ++ " time=" ++ o.time.show

def showObjState (cur : Option MObj) (e : Option Err) : String :=
  (match e with | none => "ok" | some x => "err " ++ x.name) ++ " ; " ++
  (match cur with | some o => o.show | none => "-")

def Body.show : Body → String
  | .msg o => "Message " ++ o.show
  | .metaB m t => "MetaMessage " ++ m.show ++ " time=" ++ t.show
  | .unk tb d t => s!"UnknownMetaMessage {tb.show} {d.show} time={t.show}"
def HObj.show (o : HObj) : String := (if o.frozen then "F:" else "U:") ++ o.body.show
def HOut.show : HOut → String
  | .ref i => s!"ref {i}" | .none => "none" | .raised e => "err " ++ e.name | .bool b => if b then "true" else "false"
  | .hashed items => "hash " ++ " ".intercalate (items.map (fun kv => kv.1 ++ "=" ++ kv.2.show)) | .unit => "ok"

def StreamOut.show : StreamOut → String
  | .msg m => "msg " ++ m.show | .error n => s!"error {n}" | .abort e => "abort " ++ e.name

/-! concurrent programs: `progs=p,s5/s6,p q=1,2 sched=0,1,1,0` -/
def parseCall (s : String) : Option Conc.Call :=
  if s == "p" then some .poll else if s.startsWith "s" then (parseNat? (s.drop 1).toString).map .send else none

def runConc (ts : List String) : String :=
  let kv := parseKVs ts
  let g := kvGet kv
  let progs := if g "progs" == "-" then [] else ((g "progs").splitOn "/").map (fun p => (splitComma p).filterMap parseCall)
  let q := if g "q" == "-" then [] else (splitComma (g "q")).filterMap parseNat?
  let sched := if g "sched" == "-" then [] else (splitComma (g "sched")).filterMap parseNat?
  let w := Conc.run (Conc.init progs q) sched
  let showGot (l : List (Option Nat)) := commaList (l.map (fun o => match o with | some m => toString m | none => "-"))
  let ths := (List.range progs.length).map (fun i => s!"{showGot (w.th i).got}:{if (w.th i).pc == Conc.Pc.done then "done" else "live"}")
  s!"fault={if w.fault then 1 else 0} q={commaList (w.q.map toString)} sent={commaList (w.sent.map toString)} recv={commaList (w.recv.map toString)} | " ++
    " | ".intercalate ths

/-! event traces of the locking discipline: `disc n=2 g=0:0,1:1 q=0:5.6/1: ev=1:a:0,1:t:0,1:p:0,1:r:0,2:w:1:7` -/
def parseDiscEv (s : String) : Option (Nat × Disc.Ev) :=
  match s.splitOn ":" with
  | [t, "a", l] => match parseNat? t, parseNat? l with | some t, some l => some (t, .acq l) | _, _ => none
  | [t, "r", l] => match parseNat? t, parseNat? l with | some t, some l => some (t, .rel l) | _, _ => none
  | [t, "t", q] => match parseNat? t, parseNat? q with | some t, some q => some (t, .test q) | _, _ => none
  | [t, "p", q] => match parseNat? t, parseNat? q with | some t, some q => some (t, .pop q) | _, _ => none
  | [t, "w", q, m] => match parseNat? t, parseNat? q, parseNat? m with
    | some t, some q, some m => some (t, .app q m) | _, _, _ => none
  | _ => none

def runDisc (ts : List String) : String :=
  let kv := parseKVs ts
  let g := kvGet kv
  let n := (parseNat? (g "n")).getD 0
  let guards : List (Nat × Nat) := (splitComma (g "g")).filterMap fun p =>
    match p.splitOn ":" with
    | [a, b] => match parseNat? a, parseNat? b with | some a, some b => some (a, b) | _, _ => none
    | _ => none
  let q0s : List (Nat × List Nat) := if g "q" == "-" then [] else ((g "q").splitOn "/").filterMap fun p =>
    match p.splitOn ":" with
    | [a, b] => (parseNat? a).map fun a => (a, if b.isEmpty then [] else (b.splitOn ".").filterMap parseNat?)
    | _ => none
  let guard : Nat → Nat := fun q => match guards.find? (·.1 == q) with | some p => p.2 | none => 1000 + q
  let q0 : Nat → List Nat := fun q => match q0s.find? (·.1 == q) with | some p => p.2 | none => []
  let evs := if g "ev" == "-" then [] else (splitComma (g "ev"))
  match evs.mapM parseDiscEv with
  | none => "bad-op"
  | some tr =>
    let s := Disc.run (Disc.init guard q0) tr
    let showL (l : List Nat) := commaList (l.map toString)
    s!"viol={if s.viol then 1 else 0} fault={if s.fault then 1 else 0}" ++
      String.join ((List.range n).map fun q => s!" | {q}: q={showL (s.q q)} sent={showL (s.sent q)} recv={showL (s.recv q)}")

/-- run-length compression `x*n` of equal neighbours, joined by `;` -/
def rle (xs : List String) : String :=
  let rec go : List String → Option (String × Nat) → List String → List String
    | [], none, acc => acc.reverse
    | [], some (p, n), acc => ((if n == 1 then p else s!"{p}*{n}") :: acc).reverse
    | x :: rest, none, acc => go rest (some (x, 1)) acc
    | x :: rest, some (p, n), acc =>
      if x == p then go rest (some (p, n + 1)) acc
      else go rest (some (x, 1)) ((if n == 1 then p else s!"{p}*{n}") :: acc)
  ";".intercalate (go xs none [])

/-- answers for `[a, b, c]`, c = 0..255 -/
def decBlock (a b : Nat) : String :=
  rle ((List.range 256).map fun c =>
    match decodeNats [a, b, c] with
    | .ok m => "M" ++ m.show
    | .error .ValueError => "V"
    | .error .TypeError => "T"
    | .error e => "?" ++ e.name)

end Mido
