import MidoModel.MsgObj
import MidoModel.Numeral
/-
  Model of mido/messages/strings.py (msg2str, str2msg, _parse_time, _parse_data),
  Message.from_str / parse_string and parse_string_stream (after the repairs F10, F11, F13, F25).
  Text is a list of characters.
-/
namespace Mido

/-- code points for which `str.isspace()` is true -/
def spaceCodes : List Nat :=
  [9, 10, 11, 12, 13, 28, 29, 30, 31, 32, 133, 160, 5760, 8192, 8193, 8194, 8195, 8196, 8197, 8198,
   8199, 8200, 8201, 8202, 8232, 8233, 8239, 8287, 12288]

def isSpaceChar (c : Char) : Bool := spaceCodes.contains c.toNat

/-- `str.split()`: maximal runs of non-whitespace -/
def splitWsAux : List Char → List Char → List (List Char)
  | cur, [] => if cur.isEmpty then [] else [cur.reverse]
  | cur, c :: r =>
    if isSpaceChar c then (if cur.isEmpty then splitWsAux [] r else cur.reverse :: splitWsAux [] r)
    else splitWsAux (c :: cur) r
def splitWs (s : List Char) : List (List Char) := splitWsAux [] s

/-- `s.split(sep)` for a single character separator -/
def splitCharAux (sep : Char) : List Char → List Char → List (List Char)
  | cur, [] => [cur.reverse]
  | cur, c :: r => if c = sep then cur.reverse :: splitCharAux sep [] r else splitCharAux sep (c :: cur) r
def splitChar (sep : Char) (s : List Char) : List (List Char) := splitCharAux sep [] s

/-- `arg.split('=', 1)` must give exactly two parts -/
def splitFirstEq : List Char → Option (List Char × List Char)
  | [] => none
  | c :: r => if c = '=' then some ([], r) else (splitFirstEq r).map (fun (a, b) => (c :: a, b))

/-- digits with single underscores between them -/
def parseDigitsUs : Nat → Bool → List Char → Option Nat     -- acc, previous was a digit
  | acc, prevDigit, [] => if prevDigit then some acc else none
  | acc, prevDigit, c :: r =>
    if isDigit c then parseDigitsUs (acc * 10 + (c.toNat - 48)) true r
    else if c = '_' ∧ prevDigit then (match r with
      | d :: _ => if isDigit d then parseDigitsUs acc false r else none
      | [] => none)
    else none

/-- `int(s)` on the ASCII fragment: optional sign, digits with single underscores -/
def parsePyInt (s : List Char) : Option Int :=
  match s with
  | '-' :: r => (parseDigitsUs 0 false r).map (fun n => - (n : Int))
  | '+' :: r => (parseDigitsUs 0 false r).map (fun n => (n : Int))
  | _ => (parseDigitsUs 0 false s).map (fun n => (n : Int))

/-- sign of a float literal and the rest -/
def signSplit : List Char → Bool × List Char
  | '-' :: r => (true, r)
  | '+' :: r => (false, r)
  | s => (false, s)

/-- digits '.' one or two digits, in hundredths -/
def floatBody (neg : Bool) (body : List Char) : Option Int :=
  match splitChar '.' body with
  | [ip, fp] =>
    match parseNat ip, fp with
    | some i, [a] => if isDigit a then some ((if neg then -1 else 1) * ((i * 100 + (a.toNat - 48) * 10 : Nat) : Int)) else none
    | some i, [a, b] => if isDigit a ∧ isDigit b then
        some ((if neg then -1 else 1) * ((i * 100 + (a.toNat - 48) * 10 + (b.toNat - 48) : Nat) : Int)) else none
    | _, _ => none
  | _ => none

/-- plain decimal floats with at most two decimals: `-12.5`, `0.25`, `3.0` (hundredths) -/
def parseFloat2 (s : List Char) : Option Int := floatBody (signSplit s).1 (signSplit s).2

/-- `_parse_time` on the supported syntaxes -/
def parseTime (s : List Char) : Option PyVal :=
  match parsePyInt s with
  | some n => some (.int n)
  | none => (parseFloat2 s).map .flt

/-- `_parse_data` -/
def parseData (s : List Char) : Option (List Item) :=
  match s with
  | '(' :: r =>
    if r.getLast? ≠ some ')' then none
    else
      let inner := r.dropLast
      if inner.isEmpty then some []
      else ((splitChar ',' inner).mapM parsePyInt).map (·.map Item.int)
  | _ => none

def strOf (s : String) : List Char := s.toList

/-- `str2msg`: the keyword arguments for the constructor, or ValueError -/
def str2kw (text : List Char) : Except Err (String × List (String × PyVal)) :=
  match splitWs text with
  | [] => .error .ValueError
  | ty :: args =>
    match MType.ofName (String.ofList ty) with
    | none => .error .ValueError
    | some t =>
      let rec go : List (List Char) → List (String × PyVal) → Except Err (List (String × PyVal))
        | [], acc => .ok acc
        | a :: r, acc =>
          match splitFirstEq a with
          | none => .error .ValueError
          | some (n, v) =>
            let name := String.ofList n
            if name == "type" || !(name == "time" || (t.valueNames.contains name)) then .error .ValueError
            else if name == "time" then
              match parseTime v with
              | some tv => go r (acc.filter (·.1 != name) ++ [(name, tv)])
              | none => .error .ValueError
            else if name == "data" then
              match parseData v with
              | some xs => go r (acc.filter (·.1 != name) ++ [(name, .list xs)])
              | none => .error .ValueError
            else match parsePyInt v with
              | some n => go r (acc.filter (·.1 != name) ++ [(name, .int n)])
              | none => .error .ValueError
      (go args []).map (fun kw => (t.name, kw))

/-- `Message.from_str` / `parse_string` -/
def fromStr (text : List Char) : Except Err MObj := do
  let (ty, kw) ← str2kw text
  construct ty kw

/-- `repr(float)` for the floats with two decimals used in the model -/
def showFlt (h : Int) : List Char :=
  let neg := h < 0
  let a := h.natAbs
  let ip := a / 100
  let fp := a % 100
  (if neg then ['-'] else []) ++ showNat ip ++ ['.'] ++
    (if fp % 10 = 0 then [digitChar (fp / 10)] else [digitChar (fp / 10), digitChar (fp % 10)])

def showTimeVal : PyVal → List Char
  | .int n => showInt n
  | .flt h => showFlt h
  | _ => []

def intercalateC (sep : Char) : List (List Char) → List Char
  | [] => []
  | [x] => x
  | x :: r => x ++ sep :: intercalateC sep r

def showItemInt : Item → List Char | .int n => showInt n | _ => []

def showValText (name : String) (v : PyVal) : List Char :=
  if name == "data" then
    match v with
    | .tuple xs => '(' :: intercalateC ',' (xs.map showItemInt) ++ [')']
    | _ => []
  else match v with | .int n => showInt n | _ => []

/-- `str(msg)` -/
def msg2str (o : MObj) : List Char :=
  intercalateC ' ' ([strOf o.type.name] ++
    (o.type.valueNames.zip o.vals).map (fun (n, v) => strOf n ++ '=' :: showValText n v) ++
    [strOf "time" ++ '=' :: showTimeVal o.time])

/-- `line.split('#')[0].strip()` is empty -/
def stripComment (line : List Char) : List Char := ((splitChar '#' line).headD [])

inductive StreamOut
  | msg (m : MObj) | error (line : Nat) | abort (e : Err)
  deriving DecidableEq, Repr

/-- `parse_string_stream`: per line (1-based) nothing / message / error with the line number;
    only ValueError is caught, any other exception ends the generator -/
def parseStream : Nat → List (List Char) → List StreamOut
  | _, [] => []
  | n, line :: rest =>
    let body := stripComment line
    if (splitWs body).isEmpty then parseStream (n + 1) rest
    else match fromStr body with
      | .ok m => .msg m :: parseStream (n + 1) rest
      | .error .ValueError => .error n :: parseStream (n + 1) rest
      | .error e => [.abort e]

end Mido
