import MidoModel.Basic
/-
  Semantics of the Python operations that occur in the functions translated from the
  source by harness/py2lean.py (MidoModel/Generated/Src.lean).  The translator is purely
  syntax directed; what a Python operator *means* is written here, once, and each of these
  definitions is compared with CPython on random and boundary operands by the
  correspondence check (`pyop` requests of the driver).

  Python `int` is `Int`; `list`/`tuple`/`deque` of ints is `List Int` (value semantics: the
  translator does not model aliasing); `float('inf')` in the `length` column of the message
  specs is represented by 0 (it is only ever compared for equality with positive lengths,
  or, after `- 1`, with `len(...)`).
-/
namespace Mido.Py

/-- Python's `&` on unbounded ints (two's complement semantics). -/
def land : Int → Int → Int
  | .ofNat m, .ofNat n => .ofNat (m &&& n)
  | .ofNat m, .negSucc n => .ofNat (ldiff m n)
  | .negSucc m, .ofNat n => .ofNat (ldiff n m)
  | .negSucc m, .negSucc n => .negSucc (m ||| n)

/-- Python's `|` -/
abbrev lor : Int → Int → Int := pyLor

/-- Python's `~` -/
def inv (a : Int) : Int := -a - 1

/-- Python's `<<` (a negative shift count raises ValueError) -/
def shl (a b : Int) : Except Err Int :=
  if b < 0 then .error .ValueError else .ok (a * 2 ^ b.toNat)

/-- Python's `>>` (arithmetic, i.e. floor division by a power of two) -/
def shr (a b : Int) : Except Err Int :=
  if b < 0 then .error .ValueError else .ok (a >>> b.toNat)

/-- `<<` / `>>` by a literal, non-negative count: no error path -/
def shlN (a : Int) (k : Nat) : Int := a * 2 ^ k
def shrN (a : Int) (k : Nat) : Int := a >>> k

/-- `2 ** n` style power with an int exponent (negative exponent gives a float in Python:
    outside the fragment, reported as TypeError) -/
def pow (a b : Int) : Except Err Int :=
  if b < 0 then .error .TypeError else .ok (a ^ b.toNat)

/-- `int.bit_length()` -/
def bitLength (a : Int) : Int :=
  let n := a.natAbs
  if n = 0 then 0 else (Nat.log2 n + 1 : Nat)

/-- `xs[i]` with Python's negative indices and IndexError -/
def idx {α} (xs : List α) (i : Int) : Except Err α :=
  let j : Int := if i < 0 then i + xs.length else i
  if j < 0 then .error .IndexError else
  match xs[j.toNat]? with
  | some v => .ok v
  | none => .error .IndexError

/-- `xs[i] = v` -/
def setIdx {α} (xs : List α) (i : Int) (v : α) : Except Err (List α) :=
  let j : Int := if i < 0 then i + xs.length else i
  if j < 0 ∨ j ≥ xs.length then .error .IndexError else .ok (xs.set j.toNat v)

/-- `range(n)` -/
def rangeInt (n : Int) : List Int := (List.range n.toNat).map Int.ofNat

/-- a binary file that is being read: the bytes not yet consumed and the position (`tell()`) -/
structure PyFile where
  rest : List Int
  pos : Int := 0
  deriving DecidableEq, Repr, Inhabited

/-- `read_byte(infile)` of midifiles.py (`infile.read(1)`, `EOFError` at the end, `ord`) -/
def readByte (f : PyFile) : Except Err (Int × PyFile) :=
  match f.rest with
  | [] => .error .EOFError
  | b :: rest => .ok (b, { rest := rest, pos := f.pos + 1 })

/-- `[read_byte(infile) for _ in range(n)]`: `n` bytes or `EOFError` (a count below 1 reads nothing) -/
def readN (f : PyFile) (n : Int) : Except Err (List Int × PyFile) :=
  if f.rest.length < n.toNat then .error .EOFError
  else .ok (f.rest.take n.toNat, { rest := f.rest.drop n.toNat, pos := f.pos + n.toNat })

/-- `infile.read(n)`: up to `n` bytes (fewer at the end of the file) -/
def readUpTo (f : PyFile) (n : Int) : List Int × PyFile :=
  let k := min n.toNat f.rest.length
  (f.rest.take k, { rest := f.rest.drop k, pos := f.pos + k })

/-- `infile.tell()` -/
def tell (f : PyFile) : Int := f.pos

/-- big-endian value of a byte list -/
def beVal : List Int → Int
  | [] => 0
  | b :: r => b * 256 ^ r.length + beVal r

/-- `struct.unpack('>4sL', header)`: needs exactly 8 bytes -/
def unpack4sL (h : List Int) : Except Err (List Int × Int) :=
  if h.length = 8 then .ok (h.take 4, beVal (h.drop 4)) else .error .StructError

def s16 (a b : Int) : Int := let u := a * 256 + b; if u ≥ 32768 then u - 65536 else u

/-- `struct.unpack('>hhh', data)`: needs exactly 6 bytes -/
def unpackHHH (d : List Int) : Except Err (Int × Int × Int) :=
  match d with
  | [a, b, c, d', e, f] => .ok (s16 a b, s16 c d', s16 e f)
  | _ => .error .StructError

/-- an entry of the device list a backend module reports (backend.py): `{'name': …, 'is_input': …, 'is_output': …}` -/
structure Device where
  name : String
  is_input : Bool
  is_output : Bool
  deriving DecidableEq, Repr, Inhabited

/-- an object as frozen.py sees it: its class (by name) and its instance dict (`vars(obj)`, of whatever kind `V`) -/
structure PyObj (V : Type) where
  cls : String
  vars : V

/-- `isinstance(obj, C)` with the table class ↦ names in its method resolution order -/
def isInstance {V : Type} (mro : List (String × List String)) (o : PyObj V) (c : String) : Bool :=
  match mro.find? (fun p => p.1 == o.cls) with
  | some p => p.2.contains c
  | none => o.cls == c

/-- None is an instance of no class -/
def optIsInstance {V : Type} (mro : List (String × List String)) (o : Option (PyObj V)) (c : String) : Bool :=
  match o with | some x => isInstance mro x c | none => false

/-- `vars(None)` / a method call on None raise -/
def optObj {V : Type} (o : Option (PyObj V)) : Except Err (PyObj V) :=
  match o with | some x => .ok x | none => .error .TypeError

/-- the keyword arguments of a call as the dict `**kwargs` binds them to: name ↦ None or a string, in insertion order -/
abbrev KwArgs := List (String × Option String)

/-- `name in kwargs` -/
def kwHas (kw : KwArgs) (k : String) : Bool := kw.any (fun p => p.1 == k)

/-- `kwargs[name] = value`: the entry is replaced where it stands, or appended -/
def kwSet (kw : KwArgs) (k : String) (v : Option String) : KwArgs :=
  if kwHas kw k then kw.map (fun p => if p.1 == k then (k, v) else p) else kw ++ [(k, v)]

/-- `x or None` for None-or-a-string -/
def optStrOrNone (s : Option String) : Option String :=
  match s with | some x => if x.isEmpty then none else some x | none => none

/-- truth value of None-or-a-string: None and '' are false -/
def optStrTruthy (s : Option String) : Bool :=
  match s with | some x => !x.isEmpty | none => false

/-- the constructors of message objects that the file reader calls; their behaviour (including what they raise) is
    a parameter of the translated reader -/
structure ReaderExt (M : Type) where
  buildMeta : Int → List Int → Int → Except Err M
  mkSysex : List Int → Int → Except Err M
  fromBytes : List Int → Int → Except Err M
  /-- `msg.type == 'sysex'` on a message object (syx.py) -/
  isSysex : M → Bool := fun _ => false
  /-- `message.bin()` / `message.hex()` of a message object (syx.py): bytes, and text as code points -/
  bin : M → Except Err (List Int) := fun _ => pure []
  hex : M → Except Err (List Int) := fun _ => pure []

/-! ### text as code points (syx.py): `bytes.decode('latin1')` is the identity on code points -/

/-- the code points below 256 that `\s` matches in a `str` pattern -/
def isReWs (c : Int) : Bool :=
  c = 9 || c = 10 || c = 11 || c = 12 || c = 13 || c = 32 || c = 28 || c = 29 || c = 30 || c = 31 || c = 0x85 || c = 0xa0

/-- `re.sub(r'\s', ' ', text)` -/
def subWs (text : List Int) : List Int := text.map (fun c => if isReWs c then 32 else c)

/-- `text.split(c)` for a one-character separator: never empty, one more part than separators -/
def splitCodeAux (sep : Int) : List Int → List Int → List (List Int)
  | cur, [] => [cur.reverse]
  | cur, c :: r => if c = sep then cur.reverse :: splitCodeAux sep [] r else splitCodeAux sep (c :: cur) r
def splitCode (sep : Int) (s : List Int) : List (List Int) := splitCodeAux sep [] s

/-- the ASCII whitespace `bytearray.fromhex` skips between pairs -/
def isAsciiWs (c : Int) : Bool := c = 32 || c = 9 || c = 10 || c = 11 || c = 12 || c = 13

def hexDigitVal (c : Int) : Option Int :=
  if 48 ≤ c ∧ c ≤ 57 then some (c - 48)
  else if 65 ≤ c ∧ c ≤ 70 then some (c - 55)
  else if 97 ≤ c ∧ c ≤ 102 then some (c - 87)
  else none

/-- `bytearray.fromhex(text)`: pairs of hex digits, ASCII whitespace allowed between (not inside) pairs; anything else is
    ValueError -/
def fromhex : List Int → Except Err (List Int)
  | [] => .ok []
  | a :: tl =>
    if isAsciiWs a then fromhex tl
    else match tl with
      | [] => .error .ValueError
      | b :: rest =>
        match hexDigitVal a, hexDigitVal b with
        | some x, some y => (fromhex rest).map ((16 * x + y) :: ·)
        | _, _ => .error .ValueError

/-- `try: x = e  except E: raise X`: the exception of `e` is mapped -/
def mapErr {α} (f : Err → Err) : Except Err α → Except Err α
  | .ok v => .ok v
  | .error e => .error (f e)

/-- a value known not to be None on this path -/
def optGet : Option Int → Except Err Int
  | some v => .ok v
  | none => .error .TypeError

/-- `struct.pack('>h', v)` as two bytes -/
def packI16 (v : Int) : Except Err (List Int) :=
  if -32768 ≤ v ∧ v ≤ 32767 then
    let u := if v < 0 then v + 65536 else v
    .ok [u / 256, u % 256]
  else .error .StructError

/-- `struct.pack('>hhh', a, b, c)` -/
def packI16x3 (a b c : Int) : Except Err (List Int) := do
  let x ← packI16 a
  let y ← packI16 b
  let z ← packI16 c
  pure (x ++ y ++ z)

/-- a message in a track as far as `tracks.py` looks at it: an opaque identity (everything `copy(time=…)` keeps),
    whether its type is `end_of_track`, and its time -/
structure TMsg where
  id : Nat
  eot : Bool
  time : Int
  /-- `isinstance(msg.time, Integral)` -/
  timeIsInt : Bool := true
  /-- `msg.is_realtime`, `msg.is_meta`, `msg.type == 'sysex'` -/
  isRealtime : Bool := false
  isMeta : Bool := false
  isSysex : Bool := false
  /-- `msg.bytes()` (may raise: a text the charset cannot encode, a payload item that is no byte) -/
  bytes : Except Err (List Int) := .ok []
  /-- `msg.data` of a sysex message -/
  data : List Int := []
  /-- `msg.type == 'set_tempo'` and its `tempo` -/
  isSetTempo : Bool := false
  tempo : Int := 0
  deriving DecidableEq, Repr, Inhabited

/-- `struct.pack('>L', n)`; the range test is written with a division (`0 ≤ n < 2^32`) because a comparison of a
    symbolic value with a ten-digit literal makes the kernel unfold the literal in unary when it has to
    reduce the test -/
def packU32 (n : Int) : Except Err (List Int) :=
  if 0 ≤ n ∧ n / 4294967296 = 0 then
    .ok [n / 16777216 % 256, n / 65536 % 256, n / 256 % 256, n % 256]
  else .error .StructError

/-- `messages.sort(key=lambda msg: msg.time)`: CPython's `list.sort` is stable -/
def sortByTime (ms : List TMsg) : List TMsg := ms.mergeSort (fun a b => decide (a.time ≤ b.time))

/-- `len(xs)` -/
def len {α} (xs : List α) : Int := xs.length

/-- `xs[a:]`, `xs[:b]` for literal bounds as they occur (`[1:]`, `[:-1]`) -/
def sliceFrom {α} (xs : List α) (a : Nat) : List α := xs.drop a
def sliceDropLast {α} (xs : List α) (k : Nat) : List α := xs.take (xs.length - k)

/-- `xs[lo:hi]` / `xs[lo:]` for int bounds (negative bounds count from the end, everything is clamped: never raises) -/
def sliceNorm (n : Nat) (i : Int) : Nat := if i < 0 then (i + n).toNat else min i.toNat n
def sliceBetween {α} (xs : List α) (lo hi : Int) : List α :=
  (xs.take (sliceNorm xs.length hi)).drop (sliceNorm xs.length lo)
def sliceFromI {α} (xs : List α) (lo : Int) : List α := xs.drop (sliceNorm xs.length lo)

/-- `d[k]` on a dict given as an association list (KeyError if absent) -/
def dictGet {α} (tbl : List (Int × α)) (k : Int) : Except Err α :=
  match tbl.find? (fun p => p.1 == k) with
  | some p => .ok p.2
  | none => .error .KeyError

/-- `k in d` -/
def dictHas {α} (tbl : List (Int × α)) (k : Int) : Bool := tbl.any (fun p => p.1 == k)

/-- a row of `SPEC_BY_STATUS` / `SPEC_BY_TYPE` as far as the translated code reads it -/
structure SpecRow where
  type : String
  length : Int
  status_byte : Int := 0
  value_names : List String := []
  deriving DecidableEq, Repr, Inhabited

/-- `d[k]` / `k in d` on a dict with string keys -/
def dictGetS {α} (tbl : List (String × α)) (k : String) : Except Err α :=
  match tbl.find? (fun p => p.1 == k) with
  | some p => .ok p.2
  | none => .error .KeyError

def dictHasS {α} (tbl : List (String × α)) (k : String) : Bool := tbl.any (fun p => p.1 == k)

/-- a value in a message dict (`decode_message` builds one, `encode_message` reads one): an int, a string
    (`'type'`), or a tuple of ints (`'data'`) -/
inductive DV
  | int (i : Int) | str (s : String) | ints (l : List Int)
  deriving DecidableEq, Repr, Inhabited

/-- a `dict` with string keys, in insertion order -/
abbrev PyDict := List (String × DV)

/-- `d[k] = v`: an existing key keeps its place, a new key goes to the end -/
def dset (d : PyDict) (k : String) (v : DV) : PyDict :=
  if d.any (fun p => p.1 == k) then d.map (fun p => if p.1 == k then (k, v) else p) else d ++ [(k, v)]

/-- `d.update(e)` and `{k: v for k, v in pairs}` -/
def dupdate (d e : PyDict) : PyDict := e.foldl (fun d p => dset d p.1 p.2) d
def dfromPairs (ps : List (String × DV)) : PyDict := dupdate [] ps

/-- `d[k]` where the code goes on to use the value as an int / a string / a sequence of ints (a value of another kind
    is outside the translated fragment and reported as TypeError) -/
def dgetInt (d : PyDict) (k : String) : Except Err Int :=
  match d.find? (fun p => p.1 == k) with
  | some (_, .int i) => .ok i
  | some _ => .error .TypeError
  | none => .error .KeyError
def dgetStr (d : PyDict) (k : String) : Except Err String :=
  match d.find? (fun p => p.1 == k) with
  | some (_, .str s) => .ok s
  | some _ => .error .TypeError
  | none => .error .KeyError
def dgetInts (d : PyDict) (k : String) : Except Err (List Int) :=
  match d.find? (fun p => p.1 == k) with
  | some (_, .ints l) => .ok l
  | some _ => .error .TypeError
  | none => .error .KeyError

/-! ### methods of objects whose state must survive an exception (ports) -/

/-- a computation on an object (`self`): it returns a value or raises, and in both cases leaves a state behind — what a
    Python method does to its object before it raises stays done -/
def PM (σ α : Type) : Type := σ → Except Err α × σ

namespace PM
variable {σ α β : Type}
def pure' (a : α) : PM σ α := fun s => (.ok a, s)
def bind' (x : PM σ α) (f : α → PM σ β) : PM σ β := fun s =>
  match x s with
  | (.ok a, s') => f a s'
  | (.error e, s') => (.error e, s')
def throw' (e : Err) : PM σ α := fun s => (.error e, s)
/-- `try: x  except: h`: the handler runs in the state the failed computation left -/
def tryCatch' (x : PM σ α) (h : Err → PM σ α) : PM σ α := fun s =>
  match x s with
  | (.ok a, s') => (.ok a, s')
  | (.error e, s') => h e s'
/-- `try: x  finally: fin`: `fin` runs in the state `x` left, whether `x` raised or not; an exception of `fin` replaces the
    outcome of `x` -/
def tryFinally' (x : PM σ α) (fin : PM σ Unit) : PM σ α := fun s =>
  match x s with
  | (r, s') =>
    match fin s' with
    | (.ok _, s'') => (r, s'')
    | (.error e, s'') => (.error e, s'')
instance : Monad (PM σ) where
  pure := pure'
  bind := bind'
instance : MonadExceptOf Err (PM σ) where
  throw := throw'
  tryCatch := tryCatch'
instance : MonadStateOf σ (PM σ) where
  get := fun s => (.ok s, s)
  set := fun s' _ => (.ok (), s')
  modifyGet := fun f s => let (a, s') := f s; (.ok a, s')
end PM

end Mido.Py
