import MidoModel.Meta
import MidoModel.Tracks
/-
  Model of mido/midifiles/midifiles.py: write_track, MidiFile._save/save, read_track,
  read_message, read_sysex, read_meta_message, read_file_header, MidiFile._load.
-/
namespace Mido

/-- a message of a MIDI file track -/
inductive FEv
  | msg (m : Msg)
  | metaEv (m : MetaMsg)
  | unknownMeta (typeByte : Nat) (data : List Nat)
  deriving DecidableEq, Repr, Inhabited

structure TEvent where
  ev : FEv
  time : PyVal
  deriving DecidableEq, Repr, Inhabited

structure MFile where
  type : Int
  tpb : Int
  tracks : List (List TEvent)
  deriving DecidableEq, Repr, Inhabited

def maxMessageLength : Nat := 1000000

def FEv.isEot : FEv → Bool
  | .metaEv ⟨.end_of_track, _⟩ => true
  | _ => false

/-- `msg.is_realtime` (REALTIME_TYPES) -/
def FEv.isRealtime : FEv → Bool
  | .msg (.sys1 k) => k != .tune_request
  | _ => false

def FEv.isMeta : FEv → Bool
  | .msg _ => false | _ => true

/-! ### Python arithmetic on times as far as `fix_end_of_track` needs it (`accum += msg.time`) -/
def pyAdd : PyVal → PyVal → Except Err PyVal
  | .int a, .int b => .ok (.int (a + b))
  | .int a, .flt b => .ok (.flt (a * 100 + b))
  | .flt a, .int b => .ok (.flt (a + b * 100))
  | .flt a, .flt b => .ok (.flt (a + b))
  | _, _ => .error .TypeError

def pyTruthy : PyVal → Bool
  | .int n => n != 0 | .flt h => h != 0 | .str s => !s.isEmpty | .none => false
  | .list xs => !xs.isEmpty | .tuple xs => !xs.isEmpty | .bytes xs => !xs.isEmpty

def eotEvent (t : PyVal) : TEvent := ⟨.metaEv ⟨.end_of_track, []⟩, t⟩

/-- `fix_end_of_track` on events with arbitrary (possibly ill-typed) times -/
def fixEotEvents : PyVal → List TEvent → Except Err (List TEvent)
  | acc, [] => .ok [eotEvent acc]
  | acc, e :: es =>
    if e.ev.isEot then do
      let acc' ← pyAdd acc e.time
      fixEotEvents acc' es
    else if pyTruthy acc then do
      let d ← pyAdd acc e.time
      let r ← fixEotEvents (.int 0) es
      pure (⟨e.ev, d⟩ :: r)
    else do
      let r ← fixEotEvents (.int 0) es
      pure (e :: r)

/-- bytes of an event after its delta time, and the new running status -/
def writeEvent (cs : Charset) (running : Option Nat) (ev : FEv) : Except Err (List Nat × Option Nat) :=
  match ev with
  | .metaEv m => do
    let b ← metaBytes cs m
    pure (b, none)
  | .unknownMeta tb data =>
    if data.all (· < 256) && tb < 256 then .ok ([0xff, tb] ++ encVlq data.length ++ data, none)
    else .error .ValueError
  | .msg (.sysex d) => .ok ([0xf0] ++ encVlq (d.length + 1) ++ d ++ [0xf7], none)
  | .msg m =>
    let bs := encode m
    let status := bs.headD 0
    let out := if some status = running then bs.tail else bs
    .ok (out, if status < 0xf0 then some status else none)

/-- the per-message part of `write_track` (after `fix_end_of_track`) -/
def writeEvents (cs : Charset) : Option Nat → List TEvent → Except Err (List Nat)
  | _, [] => .ok []
  | running, e :: es =>
    match e.time with
    | .int n =>
      if n < 0 then .error .ValueError
      else if e.ev.isRealtime then .error .ValueError
      else do
        let (b, running') ← writeEvent cs running e.ev
        let rest ← writeEvents cs running' es
        pure (encVlq n.toNat ++ b ++ rest)
    | _ => .error .ValueError

def u32be (n : Nat) : List Nat := [n / 16777216 % 256, n / 65536 % 256, n / 256 % 256, n % 256]
/-- `struct.pack('>h', v)` -/
def i16be (v : Int) : Except Err (List Nat) :=
  if -32768 ≤ v ∧ v ≤ 32767 then
    let u := (if v < 0 then v + 65536 else v).toNat
    .ok [u / 256, u % 256]
  else .error .StructError

def mtrk : List Nat := [0x4d, 0x54, 0x72, 0x6b]
def mthd : List Nat := [0x4d, 0x54, 0x68, 0x64]

/-- `write_track`: one MTrk chunk -/
def timeOk (e : TEvent) : Bool := match e.time with | .int n => decide (0 ≤ n) | _ => false

def writeTrack (cs : Charset) (tr : List TEvent) : Except Err (List Nat) := do
  -- times are checked first, on the track as given
  if !tr.all timeOk then throw .ValueError
  let fixed ← fixEotEvents (.int 0) tr
  let body ← writeEvents cs none fixed
  pure (mtrk ++ u32be body.length ++ body)

def writeTracks (cs : Charset) : List (List TEvent) → Except Err (List Nat)
  | [] => .ok []
  | t :: ts => do
    let a ← writeTrack cs t
    let b ← writeTracks cs ts
    pure (a ++ b)

/-- `MidiFile.save(file=...)` -/
def writeFile (cs : Charset) (f : MFile) : Except Err (List Nat) :=
  if f.type = 0 ∧ f.tracks.length ≠ 1 then .error .ValueError else do
    let a ← i16be f.type
    let b ← i16be f.tracks.length
    let c ← i16be f.tpb
    let body ← writeTracks cs f.tracks
    pure (mthd ++ u32be 6 ++ a ++ b ++ c ++ body)

/-! ### reading -/

/-- `read_bytes(infile, size)` -/
def readBytes (size : Nat) (bs : List Nat) : Except Err (List Nat × List Nat) :=
  if size > maxMessageLength then .error .OSError
  else if bs.length < size then .error .EOFError
  else .ok (bs.take size, bs.drop size)

def clipByte (b : Nat) : Nat := if b < 127 then b else 127

/-- a loaded event: always with a natural delta -/
structure LEvent where
  ev : FEv
  delta : Nat
  deriving DecidableEq, Repr, Inhabited

def stripF0 : List Nat → List Nat
  | 0xf0 :: t => t
  | d => d

/-- `read_sysex` -/
def readSysex (clip : Bool) (bs : List Nat) : Except Err (FEv × List Nat) := do
  let (len, r1) ← readVlq bs
  let (data, r2) ← readBytes len r1
  let d1 := stripF0 data
  let d2 := if d1.getLast? = some 0xf7 then d1.dropLast else d1
  let d3 := if clip then d2.map clipByte else d2
  if d3.all (· ≤ 127) then pure (.msg (.sysex d3), r2) else throw .ValueError

/-- `read_meta_message` -/
def readMeta (cs : Charset) (bs : List Nat) : Except Err (FEv × List Nat) :=
  match bs with
  | [] => .error .EOFError
  | ty :: r0 => do
    let (len, r1) ← readVlq r0
    let (data, r2) ← readBytes len r1
    match ← buildMeta cs ty data with
    | .known m => pure (.metaEv m, r2)
    | .unknown tb d => pure (.unknownMeta tb d, r2)

/-- `read_message` -/
def readChannelish (clip : Bool) (status : Nat) (peek : List Nat) (bs : List Nat) :
    Except Err (FEv × List Nat) :=
  if !definedStatus status then .error .OSError else
  let len := match specLen status with | some n => n | none => 0   -- 0xf0 is handled elsewhere
  let size := len - 1 - peek.length        -- truncated subtraction: `range(negative)` reads nothing
  if bs.length < size then .error .EOFError else
  let data := peek ++ bs.take size
  let rest := bs.drop size
  let data' := if clip then data.map clipByte else data
  if !clip && data.any (· > 127) then .error .OSError else
  match decodeNats (status :: data') with
  | .ok m => .ok (.msg m, rest)
  | .error e => .error e

/-- one event of `read_track`'s loop: returns the event, the remaining stream and `last_status` -/
def readEvent (cs : Charset) (clip : Bool) (last : Option Nat) (bs : List Nat) :
    Except Err (LEvent × List Nat × Option Nat) := do
  let (delta, r1) ← readVlq bs
  match r1 with
  | [] => throw .EOFError
  | sb :: r2 =>
    if sb < 0x80 then
      match last with
      | none => throw .OSError
      | some st =>
        -- running status; note that for a remembered 0xf0/0xf7/0xff the peeked byte is dropped
        if st = 0xff then do let (e, r) ← readMeta cs r2; pure (⟨e, delta⟩, r, last)
        else if st = 0xf0 ∨ st = 0xf7 then do let (e, r) ← readSysex clip r2; pure (⟨e, delta⟩, r, last)
        else do let (e, r) ← readChannelish clip st [sb] r2; pure (⟨e, delta⟩, r, last)
    else if sb = 0xff then do
      let (e, r) ← readMeta cs r2; pure (⟨e, delta⟩, r, last)
    else if sb = 0xf0 ∨ sb = 0xf7 then do
      let (e, r) ← readSysex clip r2; pure (⟨e, delta⟩, r, some sb)
    else do
      let (e, r) ← readChannelish clip sb [] r2; pure (⟨e, delta⟩, r, some sb)

/-- the loop of `read_track`: `consumed` bytes since the start of the chunk body, the loop ends
    only when exactly `size` bytes have been consumed at an event boundary.  `fuel` bounds the
    number of events (every event consumes at least two bytes). -/
def readEvents (cs : Charset) (clip : Bool) (size : Nat) :
    Nat → Nat → Option Nat → List Nat → Except Err (List LEvent × List Nat)
  | 0, _, _, _ => .error .Other
  | fuel + 1, consumed, last, bs =>
    if consumed = size then .ok ([], bs) else do
      let (e, rest, last') ← readEvent cs clip last bs
      let (es, rest') ← readEvents cs clip size fuel (consumed + (bs.length - rest.length)) last' rest
      pure (e :: es, rest')

def be32 (bs : List Nat) : Nat :=
  match bs with
  | [a, b, c, d] => ((a * 256 + b) * 256 + c) * 256 + d
  | _ => 0

/-- `read_track` -/
def readTrack (cs : Charset) (clip : Bool) (bs : List Nat) : Except Err (List LEvent × List Nat) :=
  if bs.length < 8 then .error .EOFError
  else if bs.take 4 ≠ mtrk then .error .OSError
  else
    let size := be32 ((bs.drop 4).take 4)
    let body := bs.drop 8
    readEvents cs clip size (body.length + 1) 0 none body

def readTracks (cs : Charset) (clip : Bool) : Nat → List Nat → Except Err (List (List LEvent))
  | 0, _ => .ok []
  | n + 1, bs => do
    let (t, rest) ← readTrack cs clip bs
    let ts ← readTracks cs clip n rest
    pure (t :: ts)

def s16 (a b : Nat) : Int := let u := a * 256 + b; if u ≥ 32768 then (u : Int) - 65536 else u

structure LFile where
  type : Int
  tpb : Int
  tracks : List (List LEvent)
  deriving DecidableEq, Repr, Inhabited

/-- `MidiFile(file=...)` -/
def readFile (cs : Charset) (clip : Bool) (bs : List Nat) : Except Err LFile :=
  if bs.length < 8 then .error .EOFError
  else if bs.take 4 ≠ mthd then .error .OSError
  else
    let size := be32 ((bs.drop 4).take 4)
    let data := (bs.drop 8).take size
    let rest := (bs.drop 8).drop size
    match data with
    | a :: b :: c :: d :: e :: f :: _ =>
      let ntr := s16 c d
      do
        let ts ← readTracks cs clip ntr.toNat rest
        pure ⟨s16 a b, s16 e f, ts⟩
    | _ => .error .EOFError

def LEvent.toT (e : LEvent) : TEvent := ⟨e.ev, .int e.delta⟩
def LFile.toM (f : LFile) : MFile := ⟨f.type, f.tpb, f.tracks.map (·.map LEvent.toT)⟩

end Mido
