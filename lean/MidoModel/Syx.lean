import MidoModel.Tokenizer
/- Model of mido/syx.py: read_syx_file / write_syx_file on the file contents (bytes). -/
namespace Mido

def Msg.isSysex : Msg → Bool | .sysex _ => true | _ => false

/-- binary format: the encodings of the sysex messages, concatenated -/
def writeSyxBin (ms : List Msg) : List Nat := (ms.filter Msg.isSysex).flatMap encode

/-- plain text format: one line of hex per sysex message -/
def writeSyxText (ms : List Msg) : List Char :=
  (ms.filter Msg.isSysex).flatMap (fun m => toHex (encode m) ++ ['\n'])

/-- characters below 256 that `re`'s `\s` matches in a str pattern -/
def isWsCode (c : Nat) : Bool :=
  c = 9 || c = 10 || c = 11 || c = 12 || c = 13 || c = 32 || c = 28 || c = 29 || c = 30 || c = 31
    || c = 0x85 || c = 0xa0

def syxChar (b : Nat) : Char := if isWsCode b then ' ' else Char.ofNat b

/-- `read_syx_file` on the bytes of the file -/
def readSyx (data : List Nat) : Except Err (List Msg) :=
  match data with
  | [] => .ok []
  | first :: _ =>
    if first = 240 then (parseAll data).map (·.filter Msg.isSysex)
    else do
      let bs ← fromHex (data.map syxChar)
      (parseAll bs).map (·.filter Msg.isSysex)

end Mido
