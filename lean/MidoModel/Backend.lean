import MidoModel.Basic
/-
  Model of mido/backends/backend.py (Backend) — name/API resolution, lazy import, port opening
  and name listing against a recording backend module.
-/
namespace Mido

/-- what the environment and the backend module look like -/
structure BEnv where
  midoBackend : Option String := none          -- MIDO_BACKEND
  defInput : Option String := none             -- MIDO_DEFAULT_INPUT
  defOutput : Option String := none            -- MIDO_DEFAULT_OUTPUT
  defIoport : Option String := none            -- MIDO_DEFAULT_IOPORT
  importable : List String := []               -- module names that can be imported
  hasIOPort : Bool := true
  hasGetDevices : Bool := true
  devices : List (String × Bool × Bool) := []  -- (name, is_input, is_output)
  deriving Repr

structure Backend where
  name : String
  api : Option String
  useEnviron : Bool
  loaded : Bool := false
  deriving DecidableEq, Repr

inductive Cls | Input | Output | IOPort deriving DecidableEq, Repr

/-- a call observed by the recording module / importlib -/
inductive Rec
  | import_ (module : String)
  | ctor (cls : Cls) (name : Option String) (api : Option String)
  | getDevices (api : Option String)
  deriving DecidableEq, Repr

def defaultBackend : String := "mido.backends.rtmidi"

def truthy (s : Option String) : Option String :=
  match s with | some x => if x.isEmpty then none else some x | none => none

/-- first component and rest around the first '/' -/
def splitSlash (s : String) : Option (String × String) :=
  match s.splitOn "/" with
  | [] | [_] => none
  | a :: rest => some (a, "/".intercalate rest)

/-- `Backend.__init__(name, api, load=False, use_environ)` (after the repair of F19: the name is
    always split, an explicit api wins) -/
def mkBackend (env : BEnv) (nameArg apiArg : Option String) (useEnviron : Bool) : Backend :=
  let raw := match truthy nameArg with
    | some n => n
    | none => env.midoBackend.getD defaultBackend
  let (name, nameApi) := match splitSlash raw with
    | some (a, b) => (a, some b)
    | none => (raw, none)
  let api := match truthy apiArg with
    | some a => some a
    | none => nameApi
  { name := name, api := api, useEnviron := useEnviron }

/-- `Backend.load()`: imports at most once -/
def Backend.load (b : Backend) (env : BEnv) : Except Err (Backend × List Rec) :=
  if b.loaded then .ok (b, [])
  else if b.name.isEmpty then .error .ValueError
  else if env.importable.contains b.name then .ok ({ b with loaded := true }, [.import_ b.name])
  else .error .Other

def Backend.envVar (b : Backend) (v : Option String) : Option String :=
  if b.useEnviron then v else none

/-- `_add_api(kwargs)`: the call's own `api=` keyword wins, else the backend's api if truthy -/
def Backend.addApi (b : Backend) (callApi : Option (Option String)) : Option String :=
  match callApi with
  | some a => a
  | none => truthy b.api

def Backend.openInput (b : Backend) (env : BEnv) (name : Option String) (callApi : Option (Option String)) :
    Except Err (Backend × List Rec) := do
  let n := match name with | some x => some x | none => b.envVar env.defInput
  let (b', r) ← b.load env
  pure (b', r ++ [.ctor .Input n (b.addApi callApi)])

def Backend.openOutput (b : Backend) (env : BEnv) (name : Option String) (callApi : Option (Option String)) :
    Except Err (Backend × List Rec) := do
  let n := match name with | some x => some x | none => b.envVar env.defOutput
  let (b', r) ← b.load env
  pure (b', r ++ [.ctor .Output n (b.addApi callApi)])

def Backend.openIoport (b : Backend) (env : BEnv) (name : Option String) (callApi : Option (Option String)) :
    Except Err (Backend × List Rec) := do
  let n := match name with | some x => some x | none => truthy (b.envVar env.defIoport)
  let (b', r) ← b.load env
  if env.hasIOPort then pure (b', r ++ [.ctor .IOPort n (b.addApi callApi)])
  else
    let (i, o) := match truthy n with
      | some x => (some x, some x)
      | none => (b.envVar env.defInput, b.envVar env.defOutput)
    pure (b', r ++ [.ctor .Input i (b.addApi callApi), .ctor .Output o (b.addApi callApi)])

inductive Which | inputs | outputs | ioports deriving DecidableEq, Repr

def Backend.getNames (b : Backend) (env : BEnv) (w : Which) (callApi : Option (Option String)) :
    Except Err (Backend × List Rec × List String) := do
  let (b', r) ← b.load env
  let (recs, devs) := if env.hasGetDevices then ([Rec.getDevices (b.addApi callApi)], env.devices) else ([], [])
  let ins := (devs.filter (·.2.1)).map (·.1)
  let outs := (devs.filter (·.2.2)).map (·.1)
  let names := match w with
    | .inputs => ins
    | .outputs => outs
    | .ioports => ins.filter (fun n => outs.contains n)
  pure (b', r ++ recs, names)

end Mido
