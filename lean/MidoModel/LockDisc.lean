import MidoModel.Basic
/-
  The locking discipline of mido's ports as an abstract machine over *events*: any number of
  threads, re-entrant locks and shared sequences (the message deques of ports, the parser's deque,
  the byte wire of a device).  Every shared sequence has one guarding lock.  An event is what a
  thread does at a shared access; the machine accepts an event only if it respects the discipline
  (access under the guard; `popleft` only after a successful emptiness test in the same critical
  section) and otherwise raises the `viol` flag.  The harness replays the event trace of every
  explored execution of the real ports (EchoPort, device ports, IOPort, MultiPort, ParserQueue)
  through this machine: `viol` stays false exactly when the code obeys the discipline.
-/
namespace Mido.Disc

abbrev Tid := Nat

inductive Ev
  | acq (l : Nat)              -- `with lock:` entered (RLock: re-entrant)
  | rel (l : Nat)              -- `with lock:` left
  | test (q : Nat)             -- `if deque:`
  | pop (q : Nat)              -- `deque.popleft()`
  | app (q : Nat) (m : Nat)    -- `deque.append(m)` / one byte written to the wire
  deriving DecidableEq, Repr

structure S where
  guard : Nat → Nat                       -- sequence → its lock (static)
  owner : Nat → Option (Tid × Nat) := fun _ => none     -- lock → (owner, depth ≥ 1)
  q : Nat → List Nat := fun _ => []
  armed : Tid → Nat → Bool := fun _ _ => false   -- the thread saw the sequence non-empty in this critical section
  sent : Nat → List Nat := fun _ => []    -- ghost: everything appended, in order
  recv : Nat → List Nat := fun _ => []    -- ghost: everything popped, in order
  fault : Bool := false                   -- `popleft` on an empty deque (IndexError)
  viol : Bool := false                    -- an event outside the discipline was seen

def owns (s : S) (t : Tid) (l : Nat) : Bool :=
  match s.owner l with
  | some (u, _) => u == t
  | none => false

def setF {α} (f : Nat → α) (i : Nat) (x : α) : Nat → α := fun j => if j = i then x else f j
def setA (f : Tid → Nat → Bool) (t : Tid) (q : Nat) (x : Bool) : Tid → Nat → Bool :=
  fun u p => if u = t ∧ p = q then x else f u p

def step (s : S) (t : Tid) : Ev → S
  | .acq l =>
    match s.owner l with
    | none => { s with owner := setF s.owner l (some (t, 1)) }
    | some (u, d) => if u = t then { s with owner := setF s.owner l (some (t, d + 1)) }
                     else { s with viol := true }       -- a blocked acquire never appears in a trace
  | .rel l =>
    match s.owner l with
    | some (u, d) =>
      if u = t then
        if d ≤ 1 then { s with owner := setF s.owner l none,
                               armed := fun u' p => if u' = t ∧ s.guard p = l then false else s.armed u' p }
        else { s with owner := setF s.owner l (some (t, d - 1)) }
      else { s with viol := true }
    | none => { s with viol := true }
  | .test q =>
    if owns s t (s.guard q) then { s with armed := setA s.armed t q (!(s.q q).isEmpty) }
    else { s with viol := true }
  | .pop q =>
    if owns s t (s.guard q) && s.armed t q then
      match s.q q with
      | [] => { s with fault := true }
      | m :: r => { s with q := setF s.q q r, recv := setF s.recv q (s.recv q ++ [m]), armed := setA s.armed t q false }
    else { s with viol := true }
  | .app q m =>
    if owns s t (s.guard q) then { s with q := setF s.q q (s.q q ++ [m]), sent := setF s.sent q (s.sent q ++ [m]) }
    else { s with viol := true }

def run (s : S) : List (Tid × Ev) → S
  | [] => s
  | (t, e) :: r => run (step s t e) r

/-- initial state: given guards and initial contents of the sequences -/
def init (guard : Nat → Nat) (q0 : Nat → List Nat) : S := { guard := guard, q := q0, sent := q0 }

end Mido.Disc
