import MidoModel.Smf
/-
  Model of the process-wide `meta._charset` and the context manager `meta_charset`, as used by
  MidiFile._load / _save.  After the repair of F16 the context manager restores the old value in
  a `finally`, i.e. on the normal and on the exceptional path alike.
-/
namespace Mido

structure GState where
  charset : Charset := .latin1
  deriving DecidableEq, Repr, Inhabited

/-- `with meta_charset(c): body` — the body runs with `c` in force and produces a result or an
    exception (both are values of `Except`); the old charset is restored on either path. -/
def withCharset {α} (g : GState) (c : Charset) (body : GState → Except Err α) : GState × Except Err α :=
  let old := g.charset
  let inner : GState := { g with charset := c }
  let r := body inner
  ({ inner with charset := old }, r)

inductive CCall
  | load (cs : Charset) (clip : Bool) (bytes : List Nat)      -- MidiFile(file=..., charset=cs)
  | save (cs : Charset) (f : MFile)                           -- MidiFile(..., charset=cs).save(file=...)
  | probe (text : List Nat)                                   -- MetaMessage('text', text=...).bytes() elsewhere
  deriving Repr

inductive COut
  | loaded (r : Except Err LFile) | saved (r : Except Err (List Nat)) | probed (r : Except Err (List Nat))
  deriving Repr

def cstep (g : GState) : CCall → GState × COut
  | .load cs clip bs =>
    let (g', r) := withCharset g cs (fun gi => readFile gi.charset clip bs)
    (g', .loaded r)
  | .save cs f =>
    let (g', r) := withCharset g cs (fun gi => writeFile gi.charset f)
    (g', .saved r)
  | .probe text => (g, .probed (metaBytes g.charset ⟨.text, [.str text]⟩))

def crun (g : GState) : List CCall → GState × List COut
  | [] => (g, [])
  | c :: rest => let (g1, o) := cstep g c; let (g2, os) := crun g1 rest; (g2, o :: os)

end Mido
