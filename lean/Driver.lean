import MidoModel.Proto
import MidoModel.PySem
/- Line-protocol driver: one request per line on stdin, one response line on stdout. -/
open Mido

structure DState where
  p : PState := {}
  mf : MF := {}
  port : Port := {}
  mobj : Option MObj := none
  heap : Heap := []
  multi : Multi := {}

def words (line : String) : List String :=
  (line.splitOn " ").filter (· ≠ "")

def handle (st : DState) (line : String) : DState × String :=
  match words line with
  | [] => (st, "bad-op")
  | cmd :: args =>
    match cmd with
    | "enc" => match parseMsg args with
      | some m => (st, s!"{showList (encode m)}|{m.len}|{String.ofList (toHex (encode m))}|{if m.valid then 1 else 0}")
      | none => (st, "bad-op")
    | "dec" => match parseItems args with
      | some xs => (st, showExcept Msg.show (decode xs))
      | none => (st, "bad-op")
    | "hexdec" => match parseNats args with
      | some cs => (st, showExcept Msg.show (do
          let bs ← fromHex (cs.map Char.ofNat)
          decodeNats bs))
      | none => (st, "bad-op")
    | "decblk" => match parseNats args with
      | some [a, b] => (st, decBlock a b)
      | _ => (st, "bad-op")
    | "pyop" => match args with
      -- the operator semantics used by the source translator, for comparison with CPython
      | op :: rest => match parseInts rest with
        | some xs0 =>
          if op == "unpack4sL" then
            (st, showExcept (fun (r : List Int × Int) => showIntList r.1 ++ " | " ++ toString r.2) (Py.unpack4sL xs0))
          else if op == "unpackHHH" then
            (st, showExcept (fun (r : Int × Int × Int) => s!"{r.1} {r.2.1} {r.2.2}") (Py.unpackHHH xs0))
          else if op == "readUpTo" then
            match xs0 with
            | n :: data =>
              let r := Py.readUpTo { rest := data, pos := 0 } n
              (st, showIntList r.1 ++ " | " ++ toString r.2.pos)
            | [] => (st, "bad-op")
          else if op == "idx" then
            match xs0 with
            | i :: xs => (st, showExcept toString (Py.idx xs i))
            | [] => (st, "bad-op")
          else if op == "slice" then
            match xs0 with
            | lo :: hi :: xs => (st, showIntList (Py.sliceBetween xs lo hi))
            | _ => (st, "bad-op")
          else if op == "slicefrom" then
            match xs0 with
            | lo :: xs => (st, showIntList (Py.sliceFromI xs lo))
            | _ => (st, "bad-op")
          else if op == "fromhex" then
            (st, showExcept showIntList (Py.fromhex xs0))
          else if op == "split" then
            match xs0 with
            | sep :: txt => (st, " | ".intercalate ((Py.splitCode sep txt).map showIntList))
            | [] => (st, "bad-op")
          else if op == "subws" then
            (st, showIntList (Py.subWs xs0))
          else if op == "range" then
            match xs0 with
            | [n] => (st, showIntList (Py.rangeInt n))
            | _ => (st, "bad-op")
          else match xs0 with
          | [a, b, c] =>
            if op == "pack16" then (st, showExcept showIntList (Py.packI16x3 a b c)) else (st, "bad-op")
          | [a, b] =>
            let r : Except Err Int :=
              if op == "land" then .ok (Py.land a b) else if op == "lor" then .ok (Py.lor a b)
              else if op == "shl" then Py.shl a b else if op == "shr" then Py.shr a b
              else if op == "pow" then Py.pow a b
              else if op == "shlN" then .ok (Py.shlN a b.toNat) else if op == "shrN" then .ok (Py.shrN a b.toNat)
              else .error .Other
            (st, showExcept toString r)
          | [a] =>
            if op == "pack" then (st, showExcept showIntList (Py.packU32 a))
            else if op == "inv" then (st, toString (Py.inv a))
            else if op == "bitlen" then (st, toString (Py.bitLength a))
            else (st, "bad-op")
          | _ => (st, "bad-op")
        | none => (st, "bad-op")
      | _ => (st, "bad-op")
    | "pydict" =>
      -- the dict semantics used by the source translator (insertion order, overwrite in place, update, comprehension)
      let parsePairs (kvs : String) : Option (List (String × Py.DV)) :=
        if kvs == "" then some [] else
        (kvs.splitOn ",").mapM (fun kv => match kv.splitOn "=" with
          | [k, v] => v.toInt?.map (fun i => (k, Py.DV.int i))
          | _ => none)
      let step (d : Option Py.PyDict) (tok : String) : Option Py.PyDict :=
        match d with
        | none => none
        | some d =>
          match tok.splitOn ":" with
          | ["set", k, v] => v.toInt?.map (fun i => Py.dset d k (.int i))
          | ["upd", kvs] => (parsePairs kvs).map (fun ps => Py.dupdate d ps)
          | ["from", kvs] => (parsePairs kvs).map (fun ps => Py.dfromPairs ps)
          | _ => none
      match args.foldl step (some []) with
      | some d => (st, ",".intercalate (d.map fun p => p.1 ++ "=" ++ (match p.2 with | .int i => toString i | _ => "?")))
      | none => (st, "bad-op")
    | "wf" => match parseInts args with
      | some xs => (st, if wellFormed xs then "1" else "0")
      | none => (st, "bad-op")
    | "tokenize" => match parseNats args with
      | some bs => (st, ";".intercalate ((tokenize bs).map showList))
      | none => (st, "bad-op")
    | "parseall" => match parseNats args with
      | some bs => (st, showExcept showMsgs (parseAll bs))
      | none => (st, "bad-op")
    | "mnew" => match args with
      | ty :: kws => match MetaType.ofName ty, kws.mapM parseKw with
        | some t, some kw => (st, showExcept (fun (r : MetaMsg × PyVal) => r.1.show ++ " time=" ++ r.2.show) (metaNew t kw))
        | _, _ => (st, "bad-op")
      | _ => (st, "bad-op")
    | "mbytes" => match args with
      | cs :: rest => match parseCharset cs, parseMetaMsg rest with
        | some c, some m => (st, showExcept showList (metaBytes c m))
        | _, _ => (st, "bad-op")
      | _ => (st, "bad-op")
    | "mfrombytes" => match args with
      | cs :: rest => match parseCharset cs, parseNats rest with
        | some c, some bs => (st, showExcept MetaEvent.show (metaFromBytes c bs))
        | _, _ => (st, "bad-op")
      | _ => (st, "bad-op")
    | "merge" =>
      -- "merge" alone = no tracks; tracks are separated by "|"
      let groups := if args.isEmpty then [] else splitTracks args
      match groups.mapM (fun g => g.mapM parseTEv) with
      | some ts => (st, " ".intercalate ((mergeTracks ts).map TEv.show))
      | none => (st, "bad-op")
    | "fixeot" => match args.mapM parseTEv with
      | some es => (st, " ".intercalate ((fixEOT es).map TEv.show))
      | none => (st, "bad-op")
    | "iter" => match args with
      | ty :: evs => match parseNat? ty, evs.mapM parsePEv with
        | some t, some es => (st, showExcept showList (iterFile t es))
        | _, _ => (st, "bad-op")
      | _ => (st, "bad-op")
    | "length" => match args with
      | ty :: evs => match parseNat? ty, evs.mapM parsePEv with
        | some t, some es => (st, showExcept toString (lengthFile t es))
        | _, _ => (st, "bad-op")
      | _ => (st, "bad-op")
    | "play" =>
      -- play <start> <clock0> times... | delay:extra ...
      match args with
      | s0 :: c0 :: rest =>
        let groups := splitTracks rest
        match parseInt? s0, parseInt? c0, groups with
        | some start, some clock, [ts, sched] =>
          match ts.mapM parseNat?, sched.mapM parsePair with
          | some tl, some sl =>
            (st, " ".intercalate ((playAll start 0 clock tl sl).map (fun o => s!"{o.sleepReq}:{o.yieldedAt}")))
          | _, _ => (st, "bad-op")
        | _, _, _ => (st, "bad-op")
      | _ => (st, "bad-op")
    | "smfwrite" => match args with
      | cs :: ty :: tpb :: rest =>
        let groups := if rest.isEmpty then [] else (splitTracks rest).drop 1
        match parseCharset cs, parseInt? ty, parseInt? tpb, groups.mapM (fun g => g.mapM parseTEvent) with
        | some c, some t, some b, some trs => (st, showExcept showList (writeFile c ⟨t, b, trs⟩))
        | _, _, _, _ => (st, "bad-op")
      | _ => (st, "bad-op")
    | "smfread" => match args with
      | cs :: clip :: rest => match parseCharset cs, parseNats rest with
        | some c, some bs => (st, showExcept LFile.show (readFile c (clip == "1") bs))
        | _, _ => (st, "bad-op")
      | _ => (st, "bad-op")
    | "freset" => ({ st with mf := {} }, "ok")
    | "fop" =>
      let run (op : FOp) : DState × String := let (m, o) := fstep st.mf op; ({ st with mf := m }, o.show)
      match args with
      | ["addtrack"] => run .addTrack
      | "appendtrack" :: evs => match evs.mapM parseTEv with
        | some t => run (.appendTrack t) | none => (st, "bad-op")
      | ["removetrack", i] => match parseNat? i with | some i => run (.removeTrack i) | none => (st, "bad-op")
      | ["appendmsg", i, e] => match parseNat? i, parseTEv e with
        | some i, some e => run (.appendMsg i e) | _, _ => (st, "bad-op")
      | ["removemsg", i, j] => match parseNat? i, parseNat? j with
        | some i, some j => run (.removeMsg i j) | _, _ => (st, "bad-op")
      | ["settime", i, j, t] => match parseNat? i, parseNat? j, parseNat? t with
        | some i, some j, some t => run (.setTime i j t) | _, _, _ => (st, "bad-op")
      | ["settype", n] => match parseInt? n with | some n => run (.setType n) | none => (st, "bad-op")
      | ["swapmsgs", i, j] => match parseNat? i, parseNat? j with
        | some i, some j => run (.swapMsgs i j) | _, _ => (st, "bad-op")
      | ["shifttime", i, j, k] => match parseNat? i, parseNat? j, parseNat? k with
        | some i, some j, some k => run (.shiftTime i j k) | _, _, _ => (st, "bad-op")
      | ["merged"] => run .obsMerged
      | _ => (st, "bad-op")
    | "backend" => (st, runBackend args)
    | "syxread" => match parseNats args with
      | some bs => (st, showExcept showMsgs (readSyx bs))
      | none => (st, "bad-op")
    | "syxwrite" => match args with
      | fmt :: rest =>
        let groups := if rest.isEmpty then [] else (splitTracks rest).filter (fun g => !g.isEmpty)
        match groups.mapM parseMsg with
        | some ms => if fmt == "text" then (st, showList ((writeSyxText ms).map Char.toNat))
                     else (st, showList (writeSyxBin ms))
        | none => (st, "bad-op")
      | _ => (st, "bad-op")
    | "lreset" => ({ st with port := parsePort args }, "ok")
    | "lstate" => (st, st.port.showState)
    | "lop" =>
      let run (op : LOp) : DState × String := let (p, o) := lstep st.port op; ({ st with port := p }, o.show)
      match args with
      | ["send", i] => match parseNat? i with | some i => run (.send i) | none => (st, "bad-op")
      | ["receive"] => run .receive
      | ["poll"] => run .poll
      | ["iter"] => run .iterAll
      | ["iterpending"] => run .iterPending
      | ["close"] => run .close
      | ["exit"] => run .withExit
      | ["reset"] => run .reset
      | _ => (st, "bad-op")
    | "mreset" =>
      -- children separated by "|"
      let groups := if args.isEmpty then [] else (splitTracks args).filter (fun g => !g.isEmpty)
      ({ st with multi := { children := groups.map parsePort } }, "ok")
    | "mstate" => (st, s!"closed={if st.multi.closed then 1 else 0} queue={commaList (st.multi.queue.map toString)} sleeps={st.multi.sleeps} | " ++
        " | ".intercalate (st.multi.children.map Port.showState))
    | "mop" => match args with
      | ["receive", b] => let (m, o) := st.multi.receive (b == "1"); ({ st with multi := m }, o.show)
      | ["send", i] => match parseNat? i with
        | some i => let (m, r) := st.multi.send i; ({ st with multi := m }, match r with | .ok _ => "ok" | .error e => "err " ++ e.name)
        | none => (st, "bad-op")
      | _ => (st, "bad-op")
    | "addr" => match args with
      | "fmt" :: port :: host => match parseNat? port, parseNats host with
        | some p, some h => (st, showList ((formatAddress (h.map Char.ofNat) p).map Char.toNat))
        | _, _ => (st, "bad-op")
      | "parse" :: cps => match parseNats cps with
        | some cs => (st, showExcept (fun (r : List Char × Nat) => s!"{r.2} " ++ showList (r.1.map Char.toNat))
            (parseAddress (cs.map Char.ofNat)))
        | none => (st, "bad-op")
      | _ => (st, "bad-op")
    | "cut" => match args with
      | k :: rest =>
        let groups := if rest.isEmpty then [] else (splitTracks rest).filter (fun g => !g.isEmpty)
        match parseNat? k, groups.mapM parseMsg with
        | some k, some ms => (st, s!"{completeWithin ms k} " ++ showExcept showMsgs (parseAll ((ms.flatMap encode).take k)))
        | _, _ => (st, "bad-op")
      | _ => (st, "bad-op")
    | "mo" =>
      let run (op : MOp) : DState × String := let (c, e) := mstep st.mobj op; ({ st with mobj := c }, showObjState c e)
      match args with
      | ["reset"] => ({ st with mobj := none }, "ok")
      | "new" :: ty :: kws => match kws.mapM parseKw with
        | some kw => run (.construct ty kw) | none => (st, "bad-op")
      | "copy" :: kws =>
        let tov := (kws.find? (·.startsWith "type=")).map (fun s => (s.drop 5).toString)
        match (kws.filter (fun s => !s.startsWith "type=")).mapM parseKw with
        | some kw => run (.copy tov kw) | none => (st, "bad-op")
      | ["set", n, v] => match parsePyVal v with | some pv => run (.set n pv) | none => (st, "bad-op")
      | ["del", n] => run (.del n)
      | ["iadd", v] => match parsePyVal v with | some pv => run (.iadd pv) | none => (st, "bad-op")
      | _ => (st, "bad-op")
    | "h" =>
      let run (op : HOp) : DState × String := let (h', o) := hstep st.heap op; ({ st with heap := h' }, o.show)
      let optRef (s : String) : Option (Option Nat) := if s == "-" then some none else (parseNat? s).map some
      let splitTy (kws : List String) : Option String × List String :=
        ((kws.find? (·.startsWith "type=")).map (fun s => (s.drop 5).toString), kws.filter (fun s => !s.startsWith "type="))
      match args with
      | ["reset"] => ({ st with heap := [] }, "ok")
      | ["dump"] => (st, " | ".intercalate (st.heap.map HObj.show))
      | "newmsg" :: ty :: kws => match kws.mapM parseKw with | some kw => run (.newMsg ty kw) | none => (st, "bad-op")
      | "newmeta" :: ty :: kws => match kws.mapM parseKw with | some kw => run (.newMeta ty kw) | none => (st, "bad-op")
      | ["newunk", tb, d, t] => match parsePyVal tb, parsePyVal d, parsePyVal t with
        | some a, some b, some c => run (.newUnk a b c) | _, _, _ => (st, "bad-op")
      | "copy" :: i :: kws => let (tov, rest) := splitTy kws
        match parseNat? i, rest.mapM parseKw with
        | some i, some kw => run (.copy i tov kw) | _, _ => (st, "bad-op")
      | ["freeze", i] => match optRef i with | some r => run (.freeze r) | none => (st, "bad-op")
      | ["thaw", i] => match optRef i with | some r => run (.thaw r) | none => (st, "bad-op")
      | ["set", i, n, v] => match parseNat? i, parsePyVal v with
        | some i, some pv => run (.set i n pv) | _, _ => (st, "bad-op")
      | ["del", i, n] => match parseNat? i with | some i => run (.del i n) | none => (st, "bad-op")
      | ["hash", i] => match parseNat? i with | some i => run (.hash i) | none => (st, "bad-op")
      | ["eq", a, b] => match parseNat? a, parseNat? b with
        | some a, some b => run (.eq a b) | _, _ => (st, "bad-op")
      | _ => (st, "bad-op")
    | "fromstr" => match parseNats args with
      | some cs => (st, showExcept MObj.show (fromStr (cs.map Char.ofNat)))
      | none => (st, "bad-op")
    | "tostr" => match args with
      | ty :: kws => match kws.mapM parseKw with
        | some kw => match construct ty kw with
          | .ok o => (st, "ok " ++ showList ((msg2str o).map Char.toNat))
          | .error e => (st, "err " ++ e.name)
        | none => (st, "bad-op")
      | _ => (st, "bad-op")
    | "pstream" =>
      let groups := if args.isEmpty then [] else splitTracks args
      match groups.mapM (fun g => g.mapM parseNat?) with
      | some ls => (st, " ; ".intercalate ((parseStream 1 (ls.map (·.map Char.ofNat))).map StreamOut.show))
      | none => (st, "bad-op")
    | "conc" => (st, runConc args)
    | "disc" => (st, runDisc args)
    | "preset" => ({ st with p := {} }, "ok")
    | "pfeed" => match parseInts args with
      | some bs => let (p, o) := pstep st.p (.feed bs); ({ st with p := p }, o.show)
      | none => (st, "bad-op")
    | "pfeedbyte" => match parseInts args with
      | some [b] => let (p, o) := pstep st.p (.feedByte b); ({ st with p := p }, o.show)
      | _ => (st, "bad-op")
    | "pget" => let (p, o) := pstep st.p .get; ({ st with p := p }, o.show)
    | "ppending" => let (p, o) := pstep st.p .pending; ({ st with p := p }, o.show)
    | "piternew" => let (p, o) := pstep st.p .iterNew; ({ st with p := p }, o.show)
    | "piternext" => match parseNats args with
      | some [i] => let (p, o) := pstep st.p (.iterNext i); ({ st with p := p }, o.show)
      | _ => (st, "bad-op")
    | "pput" => match parseInts args with
      | some bs => let (p, o) := pstep st.p (.putBytes bs); ({ st with p := p }, o.show)
      | none => (st, "bad-op")
    | "ppoll" => let (p, o) := pstep st.p .poll; ({ st with p := p }, o.show)
    | "piterpoll" => let (p, o) := pstep st.p .iterpoll; ({ st with p := p }, o.show)
    | _ => (st, "bad-op")

partial def loop (h : IO.FS.Stream) (out : IO.FS.Stream) (st : DState) : IO Unit := do
  let line ← h.getLine
  if line.isEmpty then return ()
  let (st', resp) := handle st (line.trimAscii.toString)
  out.putStrLn resp
  loop h out st'

def main : IO Unit := do
  let stdin ← IO.getStdin
  let stdout ← IO.getStdout
  loop stdin stdout {}
