#!/bin/bash
# usage: tools/run_all.sh <tier> <seed> [ids...] ; runs the checks one after the other and prints the summary lines
cd "$(dirname "$0")/.."
tier=${1:-quick}; seed=${2:-0}; shift; shift
ids=${@:-C01 C02 C03 C04 C05 C06 C07 C08 C09 C10 C11 C12 C13 C14 C15 C16 C17 C18 C19 C20}
for p in $ids; do
  start=$(date +%s)
  out=$(VERIF_SEED=$seed /venv/bin/python check.py $p --tier $tier --seed $seed 2>&1); rc=$?
  echo "$p rc=$rc $(( $(date +%s) - start ))s :: $(echo "$out" | grep -E 'VIOLATION|KNOWN-FINDING|tier=' | tr '\n' ' ' | cut -c1-300)"
done
