#!/usr/bin/env python3
"""Writes MANIFEST.json from the table below (keeps it schema-valid at all times)."""
import json
import os

HERE = os.path.dirname(os.path.dirname(os.path.abspath(__file__)))

NOTE_COMMON = ('Trusted: Lean 4.33 kernel; axioms propext/Classical.choice/Quot.sound only (audited each run); the '
               'hand-written model lean/MidoModel as a rendering of the source, tied by the correspondence check and '
               'the regenerated tables; the harness and the native driver; CPython semantics. ')

CHECKS = {
    'C01': dict(
        text='Theorems over the Lean model (decode∘encode = id for every valid message of all 18 types and sysex of any '
             'length; encoding refines an independent arithmetic MIDI 1.0 layout; well-formedness; length; hex round trip) '
             'plus a correspondence check of model vs. implementation that is exhaustive over all 1.33 M non-sysex messages '
             'in the thorough tier, and a property oracle on the implementation for every generated case.',
        note='Times are passed through (oracle only). Separators other than the default are not modelled.',
        technique='Lean 4 proof (case analysis + omega + kernel decide) over a hand model; exhaustive differential correspondence',
        design='5 C01'),
    'C02': dict(
        text='One decision theorem over all integer lists (any length, any magnitude, negatives): from_bytes returns a valid '
             'message re-encoding to exactly the input iff the input satisfies an independent MIDI 1.0 grammar, else ValueError; '
             'over arbitrary Python items only ValueError or (with a non-integer present) TypeError. Correspondence exhaustive '
             'over every byte string of length 0..2 (quick) / 0..3 (thorough, 16.8 M), plus malformed items, sysex shapes, from_hex.',
        note='Python sequence equality is the meaning of "reproduce the input"; iterators without len() are outside.',
        technique='Lean 4 proof (decision-logic theorem, case analysis + omega) over a hand model; exhaustive differential correspondence',
        design='5 C02'),
    'C04': dict(
        text='Invariant proved over the tokenizer fold for every byte string: the parser never raises, every yielded message is '
             'valid and re-encodes to its token; real-time messages correspond one-to-one, in order, to the defined real-time '
             'bytes; the bytes of all other messages are a Sublist of the non-real-time input. Correspondence exhaustive over '
             'all strings up to length 4/5 over a byte-class alphabet plus random streams; independent oracle on the implementation.',
        note='Inputs are integers 0..255.',
        technique='Lean 4 proof (fold invariant by induction, List.Sublist) over a hand model; exhaustive differential correspondence',
        design='5 C04'),
    'C05': dict(
        text='Refinement theorem: every history of feed/feed_byte/get_message/pending/iter/next on a Parser answers, call by call, '
             'like the abstract spec (bytes fed so far, number retrieved); chunk-independence (feed_append, any chunking) proved for '
             'the tokenizer. Correspondence: all cut sets of short streams and random histories on real Parser/ParserQueue objects.',
        note='Aliasing between tokenizer buffer and queued tokens is visible only to the correspondence. ParserQueue is tied by correspondence only.',
        technique='Lean 4 proof (simulation relation, induction over op list) over a hand model; differential correspondence on op histories',
        design='5 C05'),
    'C06': dict(
        text='Resynchronisation from ANY tokenizer state (reachable or not) for every valid message, prefix theorem for any byte prefix, '
             'concatenation theorem, real-time bytes anywhere inside a sysex. Correspondence over prefixes x messages x insertion points.',
        note='Inputs are integers 0..255.',
        technique='Lean 4 proof (case analysis, induction over payload/list) over a hand model; differential correspondence',
        design='5 C06'),
    'C09': dict(
        text='Payload round trip proved for every checked, normalised meta message of all 17 types (bit-splitting of 16/24-bit '
             'numbers, signed key byte over the whole 30-entry table, frame-rate table, power-of-two denominators up to 2**255, '
             'text under latin1, ascii and utf-8), FF-type-VLQ form, VLQ read-back and minimality for all naturals, acceptance of every documented '
             'value and rejection classes; the tables are regenerated from the source and tied by decide. Correspondence exhaustive '
             'over the finite attribute domains; KNOWN-FINDING F5 (smpte hours >= 32).',
        note='Round trip is proved outside the known finding F5 (hours < 32) and for latin1, ascii and utf-8 text; other charsets are oracle-only (C17).',
        technique='Lean 4 proof (case analysis per meta type, omega, kernel decide over tables) over a hand model; exhaustive differential correspondence',
        design='5 C09'),
    'C12': dict(
        text='Theorems for every list of tracks: the merged track holds a permutation of the non-end_of_track events at unchanged '
             'absolute ticks, sorted by time, stable (track order then in-track order), exactly one end_of_track last, total duration = '
             'max of the input durations. Correspondence: all track lists up to 3x3 over deltas {0,1}, random lists, three call routes.',
        note='CPython list.sort stability is modelled by core List.mergeSort; "inputs unmodified" is checked by deep comparison only.',
        technique='Lean 4 proof (induction, List.Perm/Pairwise/Sublist, mergeSort lemmas) over a hand model; differential correspondence',
        design='5 C12'),
    'C13': dict(
        text='Theorem: for every prefix of every merged track the cumulative yielded time equals the exact tempo-map integral (integer '
             'micro-ticks, no floats), length = last cumulative time, type 2 refuses both; play(): per-round and whole-run not-early and '
             'exact-remaining-time (no drift) theorems on an integer clock; unit inverse exact. Correspondence compares the '
             "implementation's floats with the model's exact rationals within a rounding tolerance, including play() on a fake clock.",
        note='IEEE rounding is outside the theorems (tolerance comparison); time.sleep is replaced by the assumption "returns no earlier than requested".',
        technique='Lean 4 proof (induction over the event list, omega) over a hand model in exact integer arithmetic; differential correspondence with float tolerance',
        design='5 C13'),
    'C07': dict(
        text='Theorem C07_roundtrip: for every storable file (any number of tracks and events; channel, system-common, sysex, known and '
             'unknown meta events; natural-number deltas; charset latin1, ascii or utf-8) load(save(f)) succeeds whenever save does and returns the same type, '
             'ticks_per_beat and, per track, exactly fix_end_of_track(track) - proved through the per-event lemma (running status coupling '
             'invariant between writer and reader), the size-counted reader loop, the chunk and the header. C07_roundtrip_normal: identity on '
             'files already ending in one end_of_track. C07_saved_fixed_point: the loaded form is storable, re-saves to the same bytes and '
             're-loads to itself. C07_fixed_point: for ARBITRARY byte strings that load (reader soundness: every event the reader returns is valid, every '
             'decoded meta message passes its own checks and is in normal form) and whose loaded form can be saved, load(save(load(b))) is load(b) with '
             'end_of_track normalised and every further round is the identity. Refusals: type-0 rule, bad time anywhere => ValueError, success of write_track implies all times are '
             'non-negative integers and no message is real-time. Model of writer and of the whole reader tied byte-for-byte to the '
             'implementation on generated files, unstorable variants and byte-level mutants.',
        note='Chunk bodies of 2^32 bytes or more and payloads above the reader limit of 1 000 000 bytes are excluded by '
             'explicit hypotheses; charsets other than latin1, ascii and utf-8 are oracle-only. UnknownMetaMessage with a known type byte and header fields outside 16 bits are outside the property.',
        technique='Lean 4 proof (round trip by induction over events/tracks with a writer-reader coupling invariant) over a hand model of writer and reader; byte-exact differential correspondence incl. mutants',
        design='5 C07'),
    'C08': dict(
        text='The SMF encoding is stated as a relation EncFile/EncTrack/EncBody/EncEv between events and bytes (specification level, no reader '
             'or writer mentioned: padded VLQs anywhere, running status used or not wherever the standard allows it, header chunk of 6 or more '
             'bytes). Theorem C08_read_any: the reader inverts EVERY member of the relation, with clip on or off (so clip changes nothing on '
             'valid files). Theorem C08_write_conforms: what save writes for a storable file is a member of the relation for exactly the '
             'in-memory header and fix_end_of_track of each track (exact chunk lengths, running status only directly after a channel message of '
             'equal status and never across meta/sysex, sysex as F0 len data F7); C08_roundtrip_via_spec composes the two. Plus: minimality and '
             'shape of written VLQs, every written track ends in end_of_track. clip, for ARBITRARY byte strings: C08_clip_keeps_strict (whatever '
             'clip=False loads, clip=True loads identically), C08_clip_only_difference (if clip=True loads a byte string, clip=False returns the same file '
             'or stops with the data-byte error, OSError/ValueError, never anything else), C08_clip_message / C08_clip_sysex (clipping = strict reading '
             'after each consumed data byte above 127 became 127). The reader/writer models are tied to the implementation on random conformant alternative encodings in all four '
             'clip/debug configurations; the written bytes are judged by an independent reference SMF decoder.',
        note='PARTIAL: debug=True equivalence rests on the correspondence (debug output is not modelled); payloads above the 1 000 000-byte reader '
             'limit are excluded by explicit hypotheses; text in latin1, ascii or utf-8 (other charsets oracle-only).',
        technique='Lean 4 proof (specification relation; reader inverts it by induction over the relation with a running-status coupling invariant; writer produces members) over a hand model; differential correspondence on alternative encodings; independent reference decoder as oracle',
        design='5 C08'),
    'C16': dict(
        text='The MidiFile container is modelled as a state machine over edit and observation operations; history independence, purity and '
             'erasability of observations are theorems (immediate for a state without a memo field - the assurance that the implementation '
             'is such a state comes from the correspondence); every observation (merged_track, iteration, length, save, play) of histories on '
             'real objects is compared with a freshly built file (oracle) and merged_track with the model; all short histories exhaustively.',
        note='The theorem is cheap by design; the tie to the code is the history correspondence. In-place mutation other than through setattr is not an edit route.',
        technique='Lean 4 proof (state-machine model, induction over op list) + differential correspondence on op histories with a fresh-object oracle',
        design='5 C16'),
    'C17': dict(
        text='The process-wide charset is modelled as explicit global state with the context manager restoring on both paths; theorem: after ANY '
             'sequence of loads/saves (every failure point of the reader/writer model is a value) the charset is the initial one and a probe '
             'encoding elsewhere uses it; text payload = encodeText(charset); UTF-8, latin1 and ascii encode/decode round trips proved, and C17_utf8_canonical: the strict UTF-8 decoder accepts only the canonical encoding of what it returns (decode then encode is the identity on bytes). '
             'Correspondence and oracle over 8 codecs x texts x truncation / bad data byte / bad time / undecodable text fault points.',
        note='The codecs are CPython\'s; the model implements latin1, ascii and strict UTF-8; the other five codecs are oracle-only. Concurrent loads are outside.',
        technique='Lean 4 proof (scoped-global state machine; UTF-8 codec round trip by case analysis + omega) + fault-point enumeration against the implementation',
        design='5 C17'),
    'C20': dict(
        text='Decision-logic theorems over all configurations with unbounded strings: lazy single import, explicit name beats environment, '
             'environment default only with use_environ, API suffix reaches every constructor and device query unless overridden by the call, '
             'explicit api beats the name\'s and the name is always split, name listings from the device list, open_ioport native-or-pair '
             'with exact constructor list. Correspondence exhaustive over a ~40 k configuration grid with a recording fake module; '
             'set_backend checked on the real module.',
        note='MIDO_BACKEND is read regardless of use_environ. set_backend rebinding is correspondence-only.',
        technique='Lean 4 proof (decision logic, simp/case analysis) over a hand model; exhaustive differential correspondence over the configuration grid',
        design='5 C20'),
    'C19': dict(
        text='Theorems: binary and plain-text SYX round trips for every list of valid messages (any sysex payload length, non-sysex '
             'messages dropped), no sysex => empty file => empty list, every \\s character is accepted as separator, non-hex text is '
             'ValueError (and never another error), built on the parser concatenation theorem C06. Correspondence on real files.',
        note='Files are written on a POSIX system (text mode writes LF).',
        technique='Lean 4 proof (corollary of the parser theorems + hex layout lemmas, functional induction) over a hand model; differential correspondence on real files',
        design='5 C19'),
    'C11': dict(
        text='Sequential state-machine model of BasePort/BaseInput/BaseOutput/EchoPort/MultiPort against an environment script; theorems: '
             'close idempotent, device released exactly once after the 32 reset messages iff autoreset (and exactly once also when the device '
             'stops accepting sends part-way through the resets), C11_iter_close_anywhere: for EVERY device script (self-close before, between or '
             'inside receive calls, with or without arrivals in the same step) iteration never raises, hands out every message taken in, in order, '
             'exactly once, ends closed and drained, and does end whenever the device closes; after close send is ValueError and '
             'NO operation history reaches the device again, iteration over a closed port yields exactly the queued messages and ends '
             'normally then poll is None, poll never sleeps, blocking receive returns after exactly r sleep rounds when the first message '
             'arrives in round r, MultiPort non-blocking receive total and blocking receive prompt. Correspondence on real port classes with a '
             'scripted device double: every self-close position x arrivals x queued messages exhaustively, random histories, MultiPort.',
        note='Real elapsed time is not measured ("as soon as" = no additional sleep round). __del__ only via explicit close. random.shuffle replaced by identity for comparison.',
        technique='Lean 4 proof (state machine, induction over fuel/queue/rounds) over a hand model; differential correspondence on op histories with environment scripts',
        design='5 C11'),
    'C18': dict(
        text='Theorems: a strict prefix of any valid encoding yields no token; CUT THEOREM - for every message list and every byte offset k, '
             'parsing the first k bytes yields exactly the messages whose encodings lie completely within them; segmentation independence '
             '(C05); descriptor released by the repaired close under CPython\'s makefile/close rule; format/parse of host:port inverse for '
             'every host without colon and port 1..65535 (decimal numeral round trip proved for all naturals), parse->format->parse '
             'stable. Drain-then-stop and MultiPort promptness come from C11. Correspondence on real sockets: every cut offset x '
             'segmentations over socketpair, peer-visible close, loopback PortServer with two clients, all ports.',
        note='Kernel buffering / select / TCP semantics are the OS\'s (assumed: bytes before close readable in order, then EOF). The composition '
             '"SocketPort iteration = parser cut + port drain" is tied by correspondence, the two halves are theorems. int() beyond ASCII digits is outside the address model.',
        technique='Lean 4 proof (prefix/cut theorem by induction over the message list on top of the tokenizer resync lemmas; numeral round trip) + differential correspondence on real sockets',
        design='5 C18'),
    'C03': dict(
        text='Object model of Message with arbitrary Python values; theorems: after ANY history of construct / copy with overrides / '
             'setattr / delattr / data += (accepted or rejected) the object satisfies the documented ranges (invariant by induction), a '
             'rejected op leaves it unchanged, type and attribute count never change, delete is always refused. Correspondence: op '
             'histories on real objects comparing outcome class and vars() after every op; window-exhaustive single ops per attribute '
             'and entry point; independent range-table oracle.',
        note='vars(msg)[...] = ... and skip_checks=True are outside the checked API. An unknown TYPE raises LookupError (not an attribute error). from_str is C14.',
        technique='Lean 4 proof (one-step preservation lifted by induction over op histories) over a hand model; differential correspondence on op histories',
        design='5 C03'),
    'C15': dict(
        text='Explicit heap model (object identity, class, attribute values); theorems: FRAME - no operation other than setattr on that very '
             'object changes an existing object; copy() without overrides is a new object of the same class with equal values; frozen '
             'objects reject set/del with the heap unchanged; freeze idempotent on frozen; thaw(freeze(m)) has m\'s values and class; None '
             'maps to None; equal frozen objects hash equal and hashing is total on hashable values; C15_copy_overrides: for every valid Message '
             'and EVERY override set (valid or invalid values, unknown names) copy(**ov) succeeds exactly when a fresh construction with the '
             'merged values does and returns an equal message. Correspondence compares class and '
             'vars() of EVERY live object after every op of random histories (aliasing shows up as a change of an untouched object).',
        note='For MetaMessage/UnknownMetaMessage "copy with overrides = fresh construction" holds by construction of the model (copy IS the constructor call, as in the code) and is decided by the oracle; the theorem is for Message. Creating new attribute names on UnknownMetaMessage is outside.',
        technique='Lean 4 proof (heap frame property by case analysis of the step function) over a hand model; differential correspondence on heap histories',
        design='5 C15'),
    'C14': dict(
        text='Character-level model of str.split / split("=",1) / split(",") / int() (sign, underscores) and of str2msg + the checked '
             'constructor; theorems: parse_string fails with ValueError and nothing else on EVERY text; parse_string_stream is never '
             'aborted and reports exactly skipped / message / error-with-1-based-line-number per line; from_dict(dict()) = id on every valid '
             'message; C14_from_str_str: from_str(str(m)) = m for EVERY valid message of all 18 types (any attribute values, sysex data of any '
             'length, integer times and two-decimal float times), proved at character level through split(), split("=",1), int(), float() '
             'and the parenthesised data list; int(str(n)) = n for all integers. str/from_str bytes and outcomes are tied by correspondence (valid and malformed '
             'texts, streams); str, dict and every repr/eval round trip (messages, meta, tracks of length 0/1/2+, files) are decided by the '
             'oracle on the implementation.',
        note='PARTIAL: repr/eval round trips (messages, meta messages, tracks, files) and float times beyond two decimals / exponent notation rest on the '
             'oracle + correspondence; eval, the full int()/float() grammar and float printing are CPython\'s.',
        technique='Lean 4 proof (shape invariant of parsed keyword values through the checked constructor; induction over lines) over a hand model; differential correspondence + eval-based oracle',
        design='5 C14'),
    'C10': dict(
        text='Interleaving semantics of a lock-protected port at shared-access granularity (lock acquire/release, deque test/pop/append) for ANY '
             'number of threads running ANY programs of send/poll under ANY schedule; theorems by invariant + induction over the schedule: '
             'no IndexError fault, mutual exclusion, received ++ queued = sent at every moment (at-most-once, FIFO, nothing lost, '
             'exactly-once at quiescence), received is a prefix of sent. SECOND MODEL, the locking discipline as an event machine over any number of '
             're-entrant locks and guarded queues (IOPort sharing its input lock, MultiPort with nested child locks, ParserQueue, the byte wire): '
             'for EVERY event trace of any number of threads no popleft hits an empty deque, every queue satisfies popped ++ held = appended, an '
             'access without the guarding lock or a pop without a successful test in the same critical section is flagged. Correspondence: real port classes on real threads under a '
             'deterministic scheduler that switches only at those shared accesses; all schedules with <= 2 (3) preemptions of 17 small programs '
             'on EchoPort, a byte-wise device double, IOPort, MultiPort and ParserQueue + random schedules; EchoPort executions replayed step for step through the '
             'interleaving model and the event trace of EVERY execution of EVERY port kind replayed through the discipline machine (must be accepted and end in the observed queues).',
        note='That the real code obeys the discipline (viol=0) is observed on every explored execution, not proved; end-to-end delivery through MultiPort (child queue -> its own queue), '
             'wire contiguity, the copy-on-send clause and blocking receive rest on the schedule enumeration with the oracle. Atomicity of single deque/RLock operations under the GIL is assumed; pre-emption inside a statement between shared accesses is not explored.',
        technique='Lean 4 proof (inductive invariant of an interleaving step relation over all schedules) + stateless bounded-preemption schedule enumeration on real threads with model replay',
        design='5 C10'),
}

PENDING = ['C02', 'C03', 'C04', 'C05', 'C06', 'C07', 'C08', 'C09', 'C10', 'C11', 'C12', 'C13', 'C14', 'C15',
           'C16', 'C17', 'C18', 'C19', 'C20']


SRC_TIE_TEXT = {
    'Codec': 'the dedicated encoders/decoders of encode.py/decode.py, their dispatch tables and the range checks of checks.py',
    'MetaFrame': 'MetaMessage.from_bytes (scan for the end of the length field, length check, build_meta_message call) = the model\'s metaFromBytes on every byte list; MetaMessage.bytes / UnknownMetaMessage.bytes = 0xFF, type byte, VLQ length, payload',
    'Ports': 'BasePort.close, BaseOutput.send/reset, BaseInput.receive/poll/iter_pending of ports.py (single-thread reading, object state surviving exceptions, device methods as parameters) = the sequential port model for every port state and device script',
    'FileRoundTrip': 'writer tie, reader tie and the C07 theorem composed: MidiFile._load (translated) on the bytes MidiFile.save (translated) writes gives back every storable file',
    'ParserSession': 'the Parser tie and the C05 refinement composed: any session of feed/feed_byte/get_message/pending on the translated Parser never raises and answers what the abstract specification answers',
    'MetaRoundTrip': 'the meta framing tie and the C09 theorems composed: translated from_bytes on what translated bytes() produces gives back every checked meta message',
    'MsgDecision': 'the Msg tie and the C02 decision theorem composed: the translated decode_message accepts exactly the well-formed encodings (independent grammar), returns a valid message whose translated encoding is the input, and raises ValueError otherwise',
    'PortsIter': 'BaseInput.__iter__ (for msg in port) of ports.py = the model\'s iteration for every run that does not hang: same messages, same ending (silent on a closed port), same state',
    'PortsLifecycle': 'the ports tie and the C11 lifecycle theorems composed: translated close() is idempotent, releases the device once, and send is refused afterwards',
    'FileConformance': 'the reader/writer ties and the C08 theorems composed: the translated _load reads EVERY standard-conformant encoding (relation EncFile: running status, padded quantities, longer headers) to exactly the encoded file, clip on or off; what the translated save writes is a member of that relation',
    'TracksMerge': 'the tracks tie and the C12 theorems composed: the translated merge_tracks never raises and its result has exactly the events of the inputs at their absolute ticks, sorted, stable, one final end_of_track, duration of the longest input',
    'Charset': 'the context manager meta_charset of meta.py (generator with try/yield/finally rebinding a module global), translated: for EVERY block - returning, raising, rebinding the global itself, nesting further scopes - the charset in force afterwards is the one from before, the block sees the temporary one; equals the model\'s withCharset',
    'Syx': 'read_syx_file of syx.py on the contents of the file (binary, or hex text through re.sub and bytearray.fromhex, then the Parser and the sysex filter) = the model\'s readSyx for every file of bytes; write_syx_file (both formats, the written file as its result) = writeSyxBin / writeSyxText; the C19 round trip restated about the two translated functions',
    'Sockets': 'parse_address of sockets.py (split on the colon, exactly two parts, int() as a parameter, the port range with 2**16) = the model\'s parseAddress on every text; with C18_address: every formatted host:port pair is read back',
    'Timing': 'MidiFile.__iter__ and the property MidiFile.length (type-2 refusal, then the sum over the file\'s own translated iteration) (the tempo bookkeeping of iteration / length / play), with tick2second a parameter instantiated by the exact product ticks*tempo: the times attached to the messages are the model\'s, the tempo switches after the set_tempo message is handed out, from 500000; with C13_integral: cumulative times are the tempo-map integral',
    'Parser': 'the Parser class of parser.py (feed, feed_byte, _decode over the tokenizer\'s generator, get_message, pending) = the model\'s parser operations for every state and input',
    'Msg': 'decode_message and encode_message whole (dicts as insertion-ordered association lists, SPEC_BY_STATUS / SPEC_BY_TYPE / CHANNEL_MESSAGES and both dispatch tables from the working tree): equal to the model\'s decode / encode on every int list / every message, with the round trip at source level',
    'MergedTrack': 'the property MidiFile.merged_track of midifiles.py (TypeError for a type-2 file, otherwise merge_tracks of the tracks held at the moment of the access: a pure function of the two fields it reads) = the model\'s observation of the merged track',
    'ParserResync': 'the Parser tie composed with the C04 and C06 theorems: a fresh translated Parser fed any bytes 0..255 never raises, holds valid messages whose encodings are the tokens of the input (one real-time message per defined real-time byte, the rest a subsequence of the input), recognises a complete message after any prefix, parses concatenated encodings back, and delivers real-time bytes inside a sysex ahead of it with the payload unchanged',
    'Backend': 'backend.py: _add_api (= addApi), _env (= envVar), _get_devices, open_input / open_output / open_ioport (the module class is called once with the explicit name or the environment variable and a keyword dict carrying the API; native IOPort or an Input/Output pair wrapped by ports.IOPort) and the three name listings (= namesSpec of the device list), with the process environment, what the module defines and what its classes / get_devices do as parameters',
    'Frozen': 'is_frozen, freeze_message and thaw_message of frozen.py (objects as class name + instance dict, isinstance through the table of method resolution orders read off the classes of the working tree, the message\'s own copy() a parameter) = the heap model\'s freeze / thaw: the matching class, the same instance dict, None for None, ValueError for anything else',
    'Tok': 'the Tokenizer state machine of tokenizer.py (_feed_status_byte, _feed_data_byte, feed_byte, feed)',
    'Meta': 'check_int and the encode/decode/check methods of the numeric meta specs of meta.py',
    'Vlq': 'encode_variable_int and decode_variable_int (meta.py)',
    'VlqRead': 'read_variable_int (midifiles.py)',
    'Tracks': '_to_abstime, _to_reltime, fix_end_of_track and merge_tracks of tracks.py',
    'Reader': 'MidiFile._load, read_file_header, read_track, read_message, read_sysex, read_meta_message, read_bytes, read_chunk_header and read_variable_int of midifiles.py (the message constructors they call are a parameter, instantiated with the model of those constructors)',
    'Writer': 'MidiFile.save/_save, write_track and write_chunk of midifiles.py (type-0 rule, header, both loops, running status, chunk header)',
}
SRC_TIE = {
    'C01': ['Codec', 'Msg'], 'C02': ['Codec', 'Msg', 'MsgDecision'], 'C03': ['Codec'],
    'C04': ['Tok', 'Parser', 'ParserSession', 'ParserResync'], 'C05': ['Tok', 'Parser', 'ParserSession'], 'C06': ['Tok', 'Parser', 'ParserSession', 'ParserResync'], 'C18': ['Tok', 'Sockets'], 'C19': ['Tok', 'Parser', 'Syx'],
    'C07': ['Vlq', 'VlqRead', 'Tracks', 'Writer', 'Reader', 'FileRoundTrip'], 'C08': ['Vlq', 'VlqRead', 'Writer', 'Reader', 'FileConformance'], 'C09': ['Meta', 'Vlq', 'MetaFrame', 'MetaRoundTrip'], 'C10': ['Ports', 'PortsIter'], 'C11': ['Ports', 'PortsIter', 'PortsLifecycle'], 'C12': ['Tracks', 'TracksMerge'], 'C13': ['Timing'], 'C17': ['Charset'], 'C16': ['Tracks', 'MergedTrack'], 'C20': ['Backend'], 'C15': ['Frozen'],
}


def main():
    checks = []
    for pid, c in sorted(CHECKS.items()):
        c = dict(c)
        if pid in SRC_TIE:
            what = '; '.join(SRC_TIE_TEXT[m] for m in SRC_TIE[pid])
            c['text'] += (' SOURCE TIE: on every run ' + what + ' are translated from the source text of the working tree into Lean '
                          '(harness/py2lean.py -> MidoModel/Generated/Src.lean) and theorems (MidoProofs/SrcTie) prove each translated '
                          'definition equal to the hand model for all arguments, so an edit of these functions changes a proof '
                          'obligation of this property.')
            c['note'] += (' The translator and the operator semantics MidoModel/PySem.lean (compared with CPython each run) are trusted '
                          'for the translated part; it resolves isinstance() from declared parameter types and gives lists value semantics.')
            c['technique'] += '; translator from the Python source to Lean with machine-checked equivalence to the hand model'
        checks.append({
            'property_id': pid,
            'quick_cmd': f'/venv/bin/python check.py {pid} --tier quick',
            'thorough_cmd': f'/venv/bin/python check.py {pid} --tier thorough',
            'evidence_file': f'evidence/{pid}.json',
            'replay_cmd_template': f'/venv/bin/python check.py {pid} --replay {{path}}',
            'engine': 'lean-proof+correspondence',
            'level_claimed': {'category': 'proof', 'text': c['text'], 'design_ref': c['design']},
            'level_note': NOTE_COMMON + c['note'],
            'technique': c['technique'],
        })
    man = {
        'version': 1,
        'setup_cmd': 'cd lean && lake build MidoModel MidoProofs mido_driver',
        'hooks': {
            'guard': 'MIDO_VERIF',
            'enable': 'no source hooks are needed: every observation point is reached by attribute substitution from the harness',
            'baseline_off_cmd': 'cd /repo && /venv/bin/python -m pytest -ra -q -p no:cacheprovider --timeout=900 --continue-on-collection-errors',
            'source_commits': [],
            'add_only': True,
        },
        'engines': [{
            'name': 'lean-proof+correspondence',
            'path': 'check.py',
            'serves_properties': sorted(CHECKS),
            'kind_free_text': 'Lean 4 theorems over a hand-written executable model (lean/), tied to /repo by a differential '
                              'correspondence check through a native line-protocol driver, by tables regenerated from the source, and for the byte-level core, the VLQ codec and tracks.py by a translator from the Python source text to Lean whose output is proved equal to the hand model',
        }],
        'checks': checks,
        'notes': 'See DESIGN.md. known_findings.json lists genuine defects (fixed / known).',
        'not_applicable': [{'property_id': p, 'reason': 'check not built yet in this round (work in progress; see DESIGN.md section 9)'}
                           for p in PENDING if p not in CHECKS],
    }
    with open(os.path.join(HERE, 'MANIFEST.json'), 'w') as f:
        json.dump(man, f, indent=1)
        f.write('\n')


if __name__ == '__main__':
    main()
