#!/usr/bin/env python3
"""Confirm a seeded change produced by a sub-agent and store it under seeded/<id>/.

usage: tools/ingest_seed.py <prop> <n> <outdir> [extra props to run ...]
Confirms in a scratch worktree of /repo (HEAD): the patch applies; the existing test-suite passes with it; the demo exits 1 with
the change and 0 without; then runs the quick checks of <prop> (and extras) against the patched tree via VERIF_REPO and records
which of them report a violation.  The scratch worktree is removed afterwards.  Nothing is applied to /repo itself.
"""
import json
import os
import shutil
import subprocess
import sys

VERIF = os.path.dirname(os.path.dirname(os.path.abspath(__file__)))


def sh(cmd, cwd=None, env=None, timeout=1800):
    p = subprocess.run(cmd, shell=True, cwd=cwd, env=env, stdout=subprocess.PIPE, stderr=subprocess.STDOUT, text=True, timeout=timeout)
    return p.returncode, p.stdout


def main():
    prop, n, outdir = sys.argv[1], sys.argv[2], sys.argv[3]
    extras = sys.argv[4:]
    patch = os.path.join(outdir, f'change{n}.diff')
    demo = os.path.join(outdir, f'demo{n}.py')
    notes = os.path.join(outdir, f'notes{n}.md')
    sid = f'{prop}-{n}'
    w = f'/tmp/ingest_{sid}_{os.getpid()}'
    rc, out = sh(f'git -C /repo worktree add -q --detach {w} HEAD')
    if rc:
        print('cannot create worktree', out)
        return 2
    meta = {'id': sid, 'property': prop, 'source': 'independent sub-agent given only the property text and a scratch worktree'}
    try:
        rc0, out0 = sh(f'/venv/bin/python {demo}', cwd=w)
        meta['demo_on_unchanged_tree'] = rc0
        rc, out = sh(f'git -C {w} apply {patch}')
        meta['patch_applies'] = rc == 0
        if rc:
            print('PATCH DOES NOT APPLY', out)
            return 1
        for _attempt in range(3):       # one test of the suite asserts a wall-clock limit and fails on a loaded machine
            rc, out = sh('/venv/bin/python -m pytest -q -p no:cacheprovider --timeout=900 -o addopts="" 2>&1', cwd=w)
            if rc == 0 or 'test_merge_large_midifile' not in out:
                break
        meta['tests_with_change'] = (out.strip().split('\n') or [''])[-1]
        meta['tests_exit'] = rc
        rc1, out1 = sh(f'/venv/bin/python {demo}', cwd=w)
        meta['demo_with_change'] = rc1
        meta['demo_output_with_change'] = out1.strip()[-400:]
        confirmed = (rc0 == 0 and rc1 != 0 and rc == 0)
        meta['confirmed'] = confirmed
        det = {}
        env = dict(os.environ, VERIF_REPO=w)
        for p in [prop] + extras:
            rc, out = sh(f'/venv/bin/python check.py {p} --tier quick', cwd=VERIF, env=env)
            line = [l for l in out.split('\n') if l.startswith('VIOLATION')]
            det[p] = {'exit': rc, 'violation_line': line[0] if line else None}
            if line and 'replay=' in line[0]:
                rp = line[0].split('replay=')[1].split()[0]
                try:
                    j = json.load(open(os.path.join(VERIF, rp)))
                    det[p]['kind'] = j.get('kind')
                    det[p]['case'] = str(j.get('case'))[:300]
                    det[p]['reason'] = str(j.get('reason'))[:300]
                    det[p]['broken'] = [str(b)[:200] for b in j.get('broken_obligations', [])][:3]
                except Exception:
                    pass
        meta['detection'] = det
        meta['ran'] = [f'git apply change{n}.diff in a scratch worktree of /repo HEAD', 'pytest (existing suite)', f'demo{n}.py with and without the change'] + \
                      [f'VERIF_REPO=<worktree> check.py {p} --tier quick' for p in [prop] + extras]
    finally:
        sh(f'git -C /repo worktree remove --force {w}')
    if os.path.exists(notes):
        meta['needs_to_manifest'] = open(notes).read()[:1500]
    dst = os.path.join(VERIF, 'seeded', sid)
    if meta.get('confirmed'):
        os.makedirs(dst, exist_ok=True)
        shutil.copy(patch, os.path.join(dst, 'patch.diff'))
        shutil.copy(demo, os.path.join(dst, 'demo.py'))
        json.dump(meta, open(os.path.join(dst, 'meta.json'), 'w'), indent=1)
    print(json.dumps({k: meta[k] for k in ('id', 'confirmed', 'tests_with_change', 'demo_on_unchanged_tree', 'demo_with_change')}, indent=None))
    for p, d in meta.get('detection', {}).items():
        print('  ', p, 'exit', d['exit'], d.get('kind'), (d.get('reason') or '')[:160], d.get('broken') or '')
    return 0


if __name__ == '__main__':
    sys.exit(main())
