#!/usr/bin/env python3
"""Re-run the quick checks against every stored seeded change (seeded/<id>/patch.diff) and refresh the 'detection' part of its
meta.json.  Used after the checks themselves changed, to see that nothing that was caught is now missed.

usage: tools/recheck_seeds.py [-j N] [id-prefix ...]      e.g.  tools/recheck_seeds.py -j 4 C05 C10-3
Each change is applied to its own scratch worktree of /repo HEAD under /tmp (removed afterwards); /repo itself is not touched.
"""
import concurrent.futures
import glob
import json
import os
import subprocess
import sys

VERIF = os.path.dirname(os.path.dirname(os.path.abspath(__file__)))


def sh(cmd, cwd=None, env=None, timeout=3600):
    p = subprocess.run(cmd, shell=True, cwd=cwd, env=env, stdout=subprocess.PIPE, stderr=subprocess.STDOUT, text=True, timeout=timeout)
    return p.returncode, p.stdout


def one(d):
    mp = os.path.join(d, 'meta.json')
    meta = json.load(open(mp))
    sid = meta['id']
    w = f'/tmp/recheck_{sid}_{os.getpid()}'
    rc, out = sh(f'git -C /repo worktree add -q --detach {w} HEAD')
    if rc:
        return sid, 'cannot create worktree'
    try:
        rc, out = sh(f'git -C {w} apply {os.path.join(d, "patch.diff")}')
        if rc:
            return sid, 'PATCH DOES NOT APPLY'
        env = dict(os.environ, VERIF_REPO=w)
        det = {}
        for p in meta.get('detection', {meta['property']: None}):
            rc, out = sh(f'/venv/bin/python check.py {p} --tier quick', cwd=VERIF, env=env)
            line = [l for l in out.split('\n') if l.startswith('VIOLATION')]
            det[p] = {'exit': rc, 'violation_line': line[0] if line else None}
            if line and 'replay=' in line[0]:
                rp = line[0].split('replay=')[1].split()[0]
                try:
                    j = json.load(open(os.path.join(VERIF, rp)))
                    det[p]['kind'] = j.get('kind')
                    det[p]['case'] = str(j.get('case'))[:300]
                    det[p]['reason'] = str(j.get('reason'))[:300]
                    det[p]['broken'] = [str(b)[:200] for b in j.get('broken_obligations', [])][:3]
                except Exception:
                    pass
        meta['detection'] = det
        json.dump(meta, open(mp, 'w'), indent=1)
        d0 = det[meta['property']]
        return sid, 'exit %s %s %s' % (d0['exit'], d0.get('kind'), (d0.get('reason') or '')[:120])
    finally:
        sh(f'git -C /repo worktree remove --force {w}')


def main():
    args = sys.argv[1:]
    jobs = 1     # the generated tables live in one place: runs against different trees must not overlap
    if args[:1] == ['-j']:
        jobs = int(args[1])
        args = args[2:]
    dirs = sorted(d for d in glob.glob(os.path.join(VERIF, 'seeded', '*')) if os.path.exists(os.path.join(d, 'meta.json')))
    if args:
        dirs = [d for d in dirs if any(os.path.basename(d).startswith(a) for a in args)]
    bad = 0
    with concurrent.futures.ThreadPoolExecutor(jobs) as ex:
        for sid, res in ex.map(one, dirs):
            print(sid, res, flush=True)
            if not res.startswith('exit 1'):
                bad += 1
    print('not detected:', bad)
    return 1 if bad else 0


if __name__ == '__main__':
    sys.exit(main())
