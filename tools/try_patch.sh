#!/bin/bash
# usage: tools/try_patch.sh <patch.diff> <prop> [<prop> ...]
# Applies the patch to a scratch worktree of /repo (HEAD), runs the repo's tests and the
# quick checks of the given properties against it (VERIF_REPO), then removes the worktree.
set -u
PATCH=$(realpath "$1"); shift
W=/tmp/mw_$$
git -C /repo worktree add -q --detach "$W" HEAD >/dev/null 2>&1 || { echo "cannot create worktree"; exit 2; }
trap 'git -C /repo worktree remove --force "$W" >/dev/null 2>&1' EXIT
if ! git -C "$W" apply "$PATCH"; then echo "PATCH DOES NOT APPLY"; exit 2; fi
echo "== tests on patched tree"
( cd "$W" && /venv/bin/python -m pytest -q -x -p no:cacheprovider --timeout=900 2>&1 | tail -2 )
cd "$(dirname "$0")/.."
for p in "$@"; do
  echo "== check $p"
  VERIF_REPO="$W" /venv/bin/python check.py "$p" --tier ${TIER:-quick} 2>&1 | grep -E "VIOLATION|KNOWN-FINDING|tier=" 
done
