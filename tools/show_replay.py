#!/usr/bin/env python3
"""print the newest replay of a property compactly"""
import glob, json, os, sys
pid = sys.argv[1]
f = max(glob.glob(f'replays/{pid}-*.json'), key=os.path.getmtime)
d = json.load(open(f))
W = int(sys.argv[2]) if len(sys.argv) > 2 else 260
print(f, d['kind'])
if 'case' in d:
    print('CASE', str(d['case'])[:W]); print('WHY ', d['reason'][:W])
seen = set()
for m in d.get('more', []):
    k = m['reason'][:35]
    if k in seen: continue
    seen.add(k); print('CASE', str(m['case'])[:W]); print('WHY ', m['reason'][:W])
for b in d.get('broken_obligations', []): print('BROKEN', b[:W])
seen = set()
for m in d.get('disagreements', []):
    k = (m['domain'], m['impl'][:12], m['model'][:12])
    if k in seen: continue
    seen.add(k)
    print('DIS', m['domain'], '| req', m['request'][:W]); print('   impl ', m['impl'][:W]); print('   model', m['model'][:W])
