import mido, io, math, traceback, threading, time, socket, sys
from mido import Message, MetaMessage, MidiFile, MidiTrack, UnknownMetaMessage
from mido.ports import BaseInput, BaseOutput, BaseIOPort, EchoPort, MultiPort, IOPort
import mido.ports as P
def t(label, f):
    try:
        r = f()
        print(f'{label}: OK -> {r!r}')
    except BaseException as e:
        print(f'{label}: {type(e).__name__}: {e}')
print('--- C11')
class Dev(BaseIOPort):
    def _open(self, **kw): self.log=[]; self.incoming=[]
    def _close(self): self.log.append('close')
    def _send(self, m): self.log.append(('send', m))
    def _receive(self, block=True):
        if self.incoming:
            x = self.incoming.pop(0)
            if x == 'close': self.close()
            else: self._messages.append(x)
def f():
    d = Dev(autoreset=True); d.close(); d.close(); return len(d.log), d.log[-1], d.log.count('close')
t('autoreset close twice', f)
def f():
    d = Dev(); d._messages.append(Message('clock')); d.close(); return d.poll(), d.poll()
t('poll after close', f)
def f():
    d = Dev(); d._messages.append(Message('clock')); d.close(); return list(d)
t('iter after close w/ queued', f)
def f():
    d = Dev(); d.close(); return list(d)
t('iter after close empty', f)
def f():
    d = Dev(); d.incoming=[Message('clock'), Message('start'), 'close']; return list(d)
t('iter close inside, empty queue', f)
def f():
    d = Dev(); d.incoming=['close']; d._messages.extend([Message('clock'), Message('start')]); return list(d)
t('iter: queued, close inside', f)
def f():
    d = Dev(); 
    def rc(block=True):
        d._messages.extend([Message('clock'), Message('start')]); d.close()
    d._receive = rc
    return list(d)
t('iter: close inside receive with msgs arriving', f)
def f():
    d = Dev(); d.close(); return d.send(Message('clock'))
t('send after close', f)
def f():
    d = Dev(); d.close(); return d.receive()
t('receive after close', f)
def f():
    e = EchoPort(); e.send(Message('clock')); e.close(); return list(e), e.poll()
t('echo', f)
print('--- multiport blocking')
def f():
    e = EchoPort(); e.send(Message('clock')); mp = MultiPort([e])
    res = []
    th = threading.Thread(target=lambda: res.append(mp.receive()), daemon=True); th.start(); th.join(1.0)
    return res, th.is_alive()
t('multiport blocking receive', f)
def f():
    e = EchoPort(); e.send(Message('clock')); mp = MultiPort([e])
    return mp.poll(), mp.poll()
t('multiport poll', f)
print('--- sockets')
def f():
    a, b = socket.socketpair()
    p = mido.sockets.SocketPort.__new__(mido.sockets.SocketPort)
    # use conn= path
    p = mido.sockets.SocketPort('h', 1, conn=a)
    b.sendall(bytes([0x90,1,2,0x80,1,2,0x90,5])); b.close()
    time.sleep(0.05)
    return list(p), p.closed
t('socket drain then EOF', f)
def f():
    a, b = socket.socketpair()
    p = mido.sockets.SocketPort('h', 1, conn=a)
    b.close(); time.sleep(0.05)
    return list(p), p.closed
t('socket EOF only', f)
def f():
    a, b = socket.socketpair()
    p = mido.sockets.SocketPort('h', 1, conn=a)
    p.close(); b.settimeout(0.5)
    try: return b.recv(1)
    except socket.timeout: return 'peer sees NO EOF (timeout)'
t('close seen by peer', f)
def f():
    srv = mido.sockets.PortServer('127.0.0.1', 0)
    res=[]
    th = threading.Thread(target=lambda: res.append(srv.poll()), daemon=True); th.start(); th.join(1.0)
    return res, th.is_alive()
t('server poll', f)
print('--- C13')
def f():
    mf = MidiFile(ticks_per_beat=100, tracks=[MidiTrack([Message('note_on', time=100), MetaMessage('set_tempo', tempo=1000000, time=100), Message('note_off', time=100)])])
    return [(m.type, m.time) for m in mf], mf.length
t('iter', f)
t('type2 iter', lambda: list(MidiFile(type=2)))
t('type2 length', lambda: MidiFile(type=2).length)
print('--- C05')
def f():
    p = mido.Parser(); p.feed([0x90, 1]); a = p.pending(); p.feed_byte(2); return a, p.pending(), p.get_message(), p.get_message()
t('split', f)
print('--- C20')
import types, os
calls=[]
mod = types.ModuleType('fakebackend')
class Pt:
    def __init__(self, name=None, **kw): calls.append((type(self).__name__, name, kw)); self.name=name; self._messages=[]
class Input(Pt): pass
class Output(Pt): pass
mod.Input=Input; mod.Output=Output
mod.get_devices = lambda **kw: (calls.append(('get_devices', kw)) or [{'name':'a','is_input':True,'is_output':True},{'name':'b','is_input':True,'is_output':False},{'name':'c','is_input':False,'is_output':True}, {'name':'a','is_input':False,'is_output':True}])
sys.modules['fakebackend']=mod
B = mido.Backend
t('api+slash', lambda: B('fakebackend/ALSA', api='JACK').module)
os.environ['MIDO_BACKEND']='fakebackend/ALSA'
t('env backend + api kw', lambda: (B(api='JACK').name, B(api='JACK').api))
t('env backend use_environ False', lambda: (B(use_environ=False).name))
del os.environ['MIDO_BACKEND']
os.environ['MIDO_DEFAULT_INPUT']='envin'
b = B('fakebackend/ALSA')
t('open_input env', lambda: (b.open_input(), calls[-1]))
t('open_input explicit', lambda: (b.open_input('x'), calls[-1]))
t('open_input api kw', lambda: (b.open_input('x', api='Q'), calls[-1]))
t('ioport', lambda: (b.open_ioport(), calls[-2:]))
t('names', lambda: (b.get_input_names(), b.get_output_names(), b.get_ioport_names(), calls[-1]))
os._exit(0)
