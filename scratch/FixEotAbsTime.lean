/- scratch: fix_end_of_track preserves absolute ticks of non-EOT events -/
namespace M
structure E where
  eot : Bool
  id : Nat
  t : Nat
  deriving DecidableEq, Repr

def absFrom : Nat → List E → List E
  | _, [] => []
  | s, e :: es => { e with t := s + e.t } :: absFrom (s + e.t) es

/-- fix_end_of_track without the final EOT; returns events and the final accumulator -/
def fixAcc : Nat → List E → List E × Nat
  | acc, [] => ([], acc)
  | acc, e :: es =>
    if e.eot then fixAcc (acc + e.t) es
    else
      let e' := if acc ≠ 0 then { e with t := acc + e.t } else e     -- the `if accum:` branch of the code
      let r := fixAcc 0 es
      (e' :: r.1, r.2)

def total (s : Nat) (es : List E) : Nat := es.foldl (fun a e => a + e.t) s

theorem fix_abs : ∀ (es : List E) (s acc : Nat), acc ≤ s →
    absFrom (s - acc) (fixAcc acc es).1 = (absFrom s es).filter (fun e => !e.eot)
    ∧ (total (s - acc) (fixAcc acc es).1) + (fixAcc acc es).2 = total s es := by
  intro es
  induction es with
  | nil => intro s acc h; simp [fixAcc, absFrom, total]; omega
  | cons e es ih =>
    intro s acc h
    by_cases he : e.eot
    · have := ih (s + e.t) (acc + e.t) (by omega)
      have hs : s + e.t - (acc + e.t) = s - acc := by omega
      simp only [fixAcc, he, if_true, absFrom, List.filter, total, List.foldl] at this ⊢
      rw [hs] at this
      simpa [he, total] using this
    · have := ih (s + e.t) 0 (by omega)
      simp only [Nat.sub_zero] at this
      by_cases ha : acc = 0
      · subst ha
        simp [fixAcc, he, absFrom, List.filter, total, List.foldl] at this ⊢
        exact this
      · have e1 : s - acc + (acc + e.t) = s + e.t := by omega
        simp [fixAcc, he, ha, absFrom, List.filter, total, List.foldl, e1] at this ⊢
        exact this
#print axioms fix_abs
end M
