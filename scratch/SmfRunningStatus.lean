/- scratch: reduced SMF track round trip — channel events (3-byte) + meta-like reset events,
   VLQ deltas, running status in writer, last_status in reader, fuel-based reader. -/
namespace S
def readVlq : Nat → List Nat → Option (Nat × List Nat)
  | _, [] => none
  | acc, b :: rest =>
    let acc' := acc * 128 + b % 128
    if b < 128 then some (acc', rest) else readVlq acc' rest
def encAux : Nat → List Nat → List Nat
  | 0, tail => tail
  | (n+1), tail => encAux ((n+1) / 128) (((n+1) % 128 + 128) :: tail)
decreasing_by omega
def encVlq (v : Nat) : List Nat := encAux (v / 128) [v % 128]
theorem readVlq_core : ∀ (n hi : Nat), hi ≤ n → ∀ (tail rest : List Nat) (f : Nat → Option (Nat × List Nat)),
    (∀ acc, readVlq acc (tail ++ rest) = f acc) →
    readVlq 0 (encAux hi tail ++ rest) = f hi := by
  intro n
  induction n with
  | zero =>
    intro hi h tail rest f hf
    have : hi = 0 := by omega
    subst this
    simp [encAux, hf]
  | succ n ih =>
    intro hi h tail rest f hf
    match hi, h with
    | 0, _ => simp [encAux, hf]
    | (m+1), h =>
      rw [encAux]
      have := ih ((m+1)/128) (by omega) (((m+1) % 128 + 128) :: tail) rest (fun a => f (a * 128 + (m+1) % 128)) (by
        intro acc
        simp only [List.cons_append, readVlq]
        have : ¬ ((m + 1) % 128 + 128 < 128) := by omega
        simp only [this, if_false]
        have e : ((m + 1) % 128 + 128) % 128 = (m+1) % 128 := by omega
        rw [e, hf])
      rw [this]
      congr 1; omega

theorem readVlq_enc (v : Nat) (rest : List Nat) : readVlq 0 (encVlq v ++ rest) = some (v, rest) := by
  unfold encVlq
  rw [readVlq_core (v/128) (v/128) (Nat.le_refl _) [v % 128] rest
     (fun a => some (a * 128 + v % 128, rest)) (by
       intro acc; simp only [List.cons_append, List.nil_append, readVlq]
       have : v % 128 < 128 := by omega
       simp [this])]
  simp; omega

inductive Ev
  | chan (status d1 d2 : Nat)      -- 0x80 ≤ status < 0xC0 (3-byte family), d1 d2 < 128
  | mta (ty : Nat)                -- FF ty 00 ; ty < 128 ; resets running status in the writer
  deriving DecidableEq, Repr

def Ev.ok : Ev → Prop
  | .chan s d1 d2 => 0x80 ≤ s ∧ s < 0xC0 ∧ d1 < 128 ∧ d2 < 128
  | .mta ty => ty < 128

/-- writer: running status variable `rs` -/
def writeEvs : Option Nat → List (Nat × Ev) → List Nat
  | _, [] => []
  | rs, (δ, .chan s d1 d2) :: es =>
      encVlq δ ++ (if rs = some s then [d1, d2] else [s, d1, d2]) ++ writeEvs (some s) es
  | _, (δ, .mta ty) :: es => encVlq δ ++ [0xFF, ty, 0] ++ writeEvs none es

/-- reader: `ls` = last_status; reads until input exhausted; fuel bounds the number of events -/
def readEvs : Nat → Option Nat → List Nat → Option (List (Nat × Ev))
  | 0, _, _ => none
  | _+1, _, [] => some []
  | fuel+1, ls, bs =>
    match readVlq 0 bs with
    | none => none
    | some (δ, []) => none
    | some (δ, b :: rest) =>
      if b < 0x80 then
        match ls, rest with
        | some s, d2 :: rest' => (readEvs fuel (some s) rest').map ((δ, .chan s b d2) :: ·)
        | _, _ => none
      else if b = 0xFF then
        match rest with
        | ty :: _len :: rest' => (readEvs fuel ls rest').map ((δ, .mta ty) :: ·)   -- meta does not touch last_status
        | _ => none
      else
        match rest with
        | d1 :: d2 :: rest' => (readEvs fuel (some b) rest').map ((δ, .chan b d1 d2) :: ·)
        | _ => none

/-- coupling: whenever the writer remembers a status, the reader remembers the same one -/
def Coupled (rs ls : Option Nat) : Prop := ∀ s, rs = some s → ls = some s


theorem encAux_ne_nil : ∀ (n hi : Nat), hi ≤ n → ∀ (b : Nat) (tl : List Nat), ∃ c cs, encAux hi (b :: tl) = c :: cs := by
  intro n; induction n with
  | zero => intro hi h b tl; have : hi = 0 := by omega
            subst this; exact ⟨b, tl, by simp [encAux]⟩
  | succ n ih => intro hi h b tl; match hi, h with
    | 0, _ => exact ⟨b, tl, by simp [encAux]⟩
    | m+1, h => rw [encAux]; exact ih _ (by omega) _ _
theorem encVlq_ne_nil (v : Nat) : ∃ b bs, encVlq v = b :: bs := encAux_ne_nil _ _ (Nat.le_refl _) _ _

theorem roundtrip : ∀ (es : List (Nat × Ev)) (rs ls : Option Nat) (fuel : Nat),
    (∀ e ∈ es, e.2.ok) → Coupled rs ls → es.length < fuel →
    readEvs fuel ls (writeEvs rs es) = some es := by
  intro es
  induction es with
  | nil => intro rs ls fuel _ _ hf; cases fuel with
    | zero => omega
    | succ f => simp [writeEvs, readEvs]
  | cons e es ih =>
    intro rs ls fuel hok hc hf
    obtain ⟨δ, ev⟩ := e
    cases fuel with
    | zero => simp at hf
    | succ f =>
      have hev : ev.ok := hok (δ, ev) (by simp)
      have hes : ∀ e ∈ es, e.2.ok := fun e he => hok e (by simp [he])
      have hf' : es.length < f := by simp at hf; omega
      obtain ⟨vb, vbs, hv⟩ := encVlq_ne_nil δ
      cases ev with
      | mta ty =>
        have h1 := ih none ls f hes (by intro s h; cases h) hf'
        have hr := readVlq_enc δ ([0xFF, ty, 0] ++ writeEvs none es)
        simp only [writeEvs, List.append_assoc]
        rw [hv] at hr ⊢
        simp only [List.cons_append] at hr ⊢
        simp only [readEvs, hr]
        simp [h1]
      | chan s d1 d2 =>
        simp only [Ev.ok] at hev
        have h1 := ih (some s) (some s) f hes (by intro s h; exact h) hf'
        by_cases hrs : rs = some s
        · have hls : ls = some s := hc s hrs
          have hr := readVlq_enc δ ([d1, d2] ++ writeEvs (some s) es)
          simp only [writeEvs, hrs, if_true, List.append_assoc]
          rw [hv] at hr ⊢
          simp only [List.cons_append] at hr ⊢
          simp only [readEvs, hr]
          have : d1 < 128 := hev.2.2.1
          simp [this, hls, h1]
        · have hr := readVlq_enc δ ([s, d1, d2] ++ writeEvs (some s) es)
          simp only [writeEvs, hrs, if_false, List.append_assoc]
          rw [hv] at hr ⊢
          simp only [List.cons_append] at hr ⊢
          simp only [readEvs, hr]
          have h80 : ¬ s < 128 := by omega
          have hff : s ≠ 255 := by omega
          simp [h80, hff, h1]
#print axioms roundtrip
end S
