import threading, collections, sys
from mido import Message
from mido.ports import BaseIOPort, IOPort, BaseInput, BaseOutput
class Sched:
    def __init__(self): self.cv=threading.Condition(); self.cur=None; self.threads={}; self.trace=[]; self.done=set(); self.waiting=set()
    def yp(self, ev):
        tid=threading.current_thread().name
        if tid not in self.threads: return
        with self.cv:
            self.trace.append((tid,ev)); self.waiting.add(tid); self.cur=None; self.cv.notify_all()
            while self.cur!=tid: self.cv.wait()
            self.waiting.discard(tid)
    def run(self, progs, schedule):
        res={}
        def body(name,f):
            with self.cv:
                self.waiting.add(name); self.cv.notify_all()
                while self.cur!=name: self.cv.wait()
                self.waiting.discard(name)
            try: res[name]=f()
            except BaseException as e: res[name]=type(e).__name__
            with self.cv: self.done.add(name); self.cur=None; self.cv.notify_all()
        for n,f in progs.items():
            self.threads[n]=threading.Thread(target=body,args=(n,f),name=n,daemon=True)
        for t in self.threads.values(): t.start()
        sched=list(schedule)
        with self.cv:
            while len(self.done)<len(progs):
                while len(self.waiting)+len(self.done)<len(progs): self.cv.wait()
                live=[n for n in progs if n not in self.done]
                if not live: break
                pick=None
                while sched:
                    c=sched.pop(0)
                    if c in live: pick=c; break
                if pick is None: pick=live[0]
                self.cur=pick; self.cv.notify_all()
                while self.cur is not None: self.cv.wait()
        return res
S=None
class SDeque(collections.deque):
    def __len__(self): S.yp('len'); return super().__len__()
    def __bool__(self): S.yp('bool'); return super().__len__()>0
    def popleft(self): S.yp('popleft'); return super().popleft()
    def append(self,x): S.yp('append'); return super().append(x)
class In(BaseInput): pass
class Out(BaseOutput): pass
def trial(schedule):
    global S; S=Sched()
    i=In(); o=Out(); d=SDeque(); i._parser.messages=d; i._messages=d
    d.extend([Message('clock')])
    p=IOPort(i,o)
    return S.run({'A':p.poll,'B':p.poll}, schedule), S.trace
print(trial(['A','A','A','A','B','B','B','B']))
print(trial(['A','B','A','B','A','B']))
