"""Scratch: C03 (checked API), C14 (str/dict/repr), C15 (copy/freeze/thaw) quick fuzz with independent oracles."""
import random, copy, numbers
import mido
from mido import Message, MetaMessage, MidiTrack, MidiFile, UnknownMetaMessage
from mido.frozen import freeze_message, thaw_message, is_frozen
R = random.Random(3)
SP = {s['type']: s for s in mido.messages.specs.SPECS}
RNG = {'channel':(0,15),'frame_type':(0,7),'frame_value':(0,15),'pitch':(-8192,8191),'pos':(0,16383)}
def rng(n): return RNG.get(n,(0,127))
def valid(m):
    v = vars(m)
    if set(v) != set(SP[v['type']]['value_names']) | {'type','time'}: return False
    for n, x in v.items():
        if n == 'type': continue
        if n == 'time':
            if not isinstance(x, numbers.Real): return False
        elif n == 'data':
            if not isinstance(x, tuple) or not all(isinstance(b, numbers.Integral) and 0 <= b <= 127 for b in x): return False
        else:
            lo, hi = rng(n)
            if not (isinstance(x, numbers.Integral) and lo <= x <= hi): return False
    return True
def weird(n):
    lo, hi = rng(n) if n != 'time' else (0, 10)
    return R.choice([lo-1, lo, hi, hi+1, (lo+hi)//2, 2**40, -2**40, True, 1.0, 1.5, '1', None, [1], (1,), b'\x01', float('nan')])
bad = []; stats = {}
OKERR = (ValueError, TypeError, AttributeError)
for it in range(20000):
    ty = R.choice(list(SP)); names = list(SP[ty]['value_names'])
    kw = {}
    for n in names + ['time']:
        if R.random() < .5: kw[n] = weird(n) if R.random() < .4 else (R.randint(*rng(n)) if n not in ('data','time') else ([1,2] if n == 'data' else 3))
    if R.random() < .1: kw[R.choice(['foo','note','data','channel'])] = 1
    try: m = R.choice([lambda: Message(ty, **kw), lambda: Message.from_dict(dict(kw, type=ty))])()
    except OKERR: continue
    except Exception as e: bad.append(('C03 ctor', ty, kw, repr(e))); continue
    if not valid(m): bad.append(('C03 invalid after ctor', ty, kw, vars(m))); continue
    for _ in range(6):
        before = copy.deepcopy(vars(m)); n = R.choice(names + ['time','type','foo']); v = weird(n) if n not in ('type','foo') else 'note_on'
        op = R.choice(['set','copy','del','iadd'])
        try:
            if op == 'set': setattr(m, n, v)
            elif op == 'copy':
                c = m.copy(**{n: v})
                if not valid(c) or type(c) is not Message: bad.append(('C03 invalid copy', vars(m), n, v, vars(c)))
                if vars(m) != before and not (before.get('time') != before.get('time')): bad.append(('C03 copy mutated', before, n, v))
            elif op == 'del': delattr(m, n); bad.append(('C03 del ok', vars(m), n))
            elif op == 'iadd' and ty == 'sysex': m.data += v if isinstance(v, (list, tuple, bytes)) else [v]
        except OKERR:
            now = vars(m)
            if repr(now) != repr(before): bad.append(('C03 not atomic', before, op, n, v, now))
        except Exception as e: bad.append(('C03 other exc', op, n, v, repr(e)))
        if not valid(m): bad.append(('C03 invalid', vars(m), op, n, v)); break
# C14
def rnd_valid(ty=None, t=None):
    ty = ty or R.choice(list(SP)); kw = {}
    for n in SP[ty]['value_names']:
        kw[n] = [R.randint(0,127) for _ in range(R.choice([1,2,50]))] if n == 'data' else R.choice([rng(n)[0], rng(n)[1], R.randint(*rng(n))])
    return Message(ty, time=R.choice([0, -3, 10**30, 0.5, 1e-7, 1e300, 2.5e-5]) if t is None else t, **kw)
for it in range(5000):
    m = rnd_valid()
    for name, f in [('str', lambda: Message.from_str(str(m))), ('dict', lambda: Message.from_dict(m.dict())), ('repr', lambda: eval(repr(m), vars(mido)))]:
        try:
            if f() != m: bad.append(('C14 '+name+' neq', m))
        except Exception as e: bad.append(('C14 '+name, m, repr(e)))
for m in [MetaMessage('set_tempo', tempo=5, time=3), MetaMessage('text', text="a'b\"\\\n", time=1.5), MetaMessage('key_signature', key='F#m'), MetaMessage('smpte_offset'), MetaMessage('time_signature'),
          UnknownMetaMessage(9, [1,2], time=4), MetaMessage('sequencer_specific', data=(1,2)), MetaMessage('end_of_track')]:
    try:
        if eval(repr(m), vars(mido)) != m: bad.append(('C14 meta repr neq', m))
    except Exception as e: bad.append(('C14 meta repr', m, repr(e)))
for n in [0, 2, 3]:
    tr = MidiTrack([rnd_valid(t=1) for _ in range(n)])
    try:
        if list(eval(repr(tr), vars(mido))) != list(tr): bad.append(('C14 track', n))
    except Exception as e: bad.append(('C14 track', n, repr(e)))
lines = ['note_on channel=1', '', '   ', '# c', 'note_on note=x', 'note_on note==1', 'clock time=1.5 # trailing', 'sysex data=(1,2)', 'sysex data=(1,2', 'sysex data=1,2)', 'note_on note=1 note=2', 'note_on foo=1', 'note_on channel', 'note_on time=abc', 'note_on note=128', 'note_on note=1.5']
try:
    out = list(mido.parse_string_stream(lines))
    print('stream:', [(type(a).__name__ if a else None, b) for a, b in out])
except Exception as e: bad.append(('C14 stream', repr(e)))
# C15
def pool():
    return [rnd_valid(), MetaMessage('set_tempo', tempo=R.randint(0,100), time=R.randint(0,5)), MetaMessage('track_name', name='x'), UnknownMetaMessage(R.randint(0x0a,0x1f), [1,2], time=1), rnd_valid('sysex')]
for it in range(3000):
    objs = pool()
    for step in range(10):
        o = R.choice(objs); snap = [(type(x), copy.deepcopy(vars(x))) for x in objs]
        op = R.choice(['copy','freeze','thaw','set','hash'])
        try:
            if op == 'copy':
                c = o.copy(); 
                if c is o or c != o or type(c) is not type(o): bad.append(('C15 copy', o))
                objs.append(c)
            elif op == 'freeze':
                f = freeze_message(o)
                if not is_frozen(f) or f != o or vars(f) != vars(o): bad.append(('C15 freeze', o))
                if is_frozen(o) and f is not o: bad.append(('C15 freeze idem', o))
                if thaw_message(f) != o or is_frozen(thaw_message(f)): bad.append(('C15 thaw', o))
                if hash(f) != hash(freeze_message(o.copy())): bad.append(('C15 hash', o))
                objs.append(f)
            elif op == 'thaw':
                t = thaw_message(o)
                if t != o or is_frozen(t) or t is o: bad.append(('C15 thaw2', o))
                objs.append(t)
            elif op == 'set':
                try: o.time = R.randint(0, 9)
                except ValueError:
                    if not is_frozen(o): bad.append(('C15 set refused', o))
                else:
                    if is_frozen(o): bad.append(('C15 frozen mutated', o))
            elif op == 'hash' and is_frozen(o): {o: 1}
        except Exception as e: bad.append(('C15 exc', op, type(o).__name__, repr(e)))
        for (ty, v), x in zip(snap, objs):
            if x is not o and (type(x) is not ty or vars(x) != v): bad.append(('C15 frame', op, type(o).__name__, type(x).__name__))
print('bad', len(bad))
seen = set()
for b in bad:
    k = (b[0], str(b[-1])[:60])
    if k in seen: continue
    seen.add(k); print(b[0], str(b[1:])[:260])
    if len(seen) > 25: break
