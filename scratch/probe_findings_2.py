import mido, io, math, traceback, threading, time
from mido import Message, MetaMessage, MidiFile, MidiTrack, UnknownMetaMessage
from mido.ports import BaseInput, BaseOutput, BaseIOPort, EchoPort, MultiPort, IOPort
from mido.frozen import freeze_message, thaw_message
def t(label, f):
    try:
        r = f()
        print(f'{label}: OK -> {r!r}')
    except BaseException as e:
        print(f'{label}: {type(e).__name__}: {e}')
print('--- C03')
t('note=128', lambda: Message('note_on', note=128))
t('note=1.0', lambda: Message('note_on', note=1.0))
t('note=True', lambda: Message('note_on', note=True))
t('time=None', lambda: Message('note_on', time=None))
t('time=nan', lambda: Message('note_on', time=float('nan')))
t('time=True', lambda: Message('note_on', time=True))
t('time=complex', lambda: Message('note_on', time=1j))
t('foo=1', lambda: Message('note_on', foo=1))
t('type unknown', lambda: Message('foo'))
t('data=str', lambda: Message('sysex', data='abc'))
t('data=bytes', lambda: Message('sysex', data=b'abc'))
t('data=[128]', lambda: Message('sysex', data=[128]))
t('data=5', lambda: Message('sysex', data=5))
t('data=None', lambda: Message('sysex', data=None))
def f():
    m = Message('sysex', data=[1]); 
    try: m.data += [200]
    except Exception as e: print('   +=', type(e).__name__)
    return m
t('sysex +=bad', f)
def f():
    m = Message('sysex', data=[1]); m.data += [2]; return m, type(m.data)
t('sysex +=ok', f)
def f():
    m = Message('sysex', data=[1]); m.data = m.data + (300,); return m
t('sysex = tuple+bad', f)
t('copy note=128', lambda: Message('note_on').copy(note=128))
t('copy type other', lambda: Message('note_on').copy(type='note_off'))
t('copy data on note_on', lambda: Message('note_on').copy(data=[1]))
t('copy time str', lambda: Message('note_on').copy(time='a'))
t('copy sysex data', lambda: Message('sysex').copy(data=[1,2]))
t('copy sysex data bad', lambda: Message('sysex').copy(data=[1,200]))
t('copy sysex data 300', lambda: Message('sysex').copy(data=[1,300]))
t('copy sysex data str', lambda: Message('sysex').copy(data='ab'))
t('from_dict no type', lambda: Message.from_dict({'note':1}))
t('from_dict skip_checks', lambda: Message.from_dict({'type':'note_on','note':999,'skip_checks':True}))
t('from_str note=128', lambda: Message.from_str('note_on note=128'))
def f():
    m = Message('note_on'); 
    for k,v in [('note',128),('channel',16),('type','note_off'),('foo',1),('time','x'), ('velocity', 1.5)]:
        try: setattr(m,k,v); print('   accepted',k,v)
        except Exception as e: print('  ',k,v,type(e).__name__)
    try: del m.note
    except Exception as e: print('   del', type(e).__name__)
    return m
t('setattr', f)
t('vars hack', lambda: vars(Message('note_on')).__setitem__('note', 999))
print('--- C15')
m = Message('note_on'); fm = freeze_message(m)
t('frozen set', lambda: setattr(fm, 'note', 1))
t('frozen del', lambda: delattr(fm, 'note'))
t('hash eq', lambda: hash(fm)==hash(freeze_message(Message('note_on'))))
t('hash sysex', lambda: hash(freeze_message(Message('sysex',data=[1,2]))))
t('hash meta seqspec', lambda: hash(freeze_message(MetaMessage('sequencer_specific',data=[1,2]))))
t('hash meta seqspec from_bytes', lambda: hash(freeze_message(MetaMessage.from_bytes([0xff,0x7f,1,5]))))
t('hash unknown', lambda: hash(freeze_message(UnknownMetaMessage(5,[1]))))
t('freeze none', lambda: freeze_message(None))
t('thaw none', lambda: thaw_message(None))
t('thaw frozen', lambda: (thaw_message(fm), type(thaw_message(fm))))
t('frozen copy', lambda: (fm.copy(note=3), type(fm.copy(note=3))))
t('frozen sysex data iadd', lambda: freeze_message(Message('sysex',data=[1])).data.__iadd__([2]))
t('eq time int/float', lambda: Message('note_on', time=1)==Message('note_on', time=1.0))
t('hash time int/float', lambda: hash(freeze_message(Message('note_on', time=1)))==hash(freeze_message(Message('note_on', time=1.0))))
t('meta copy override', lambda: MetaMessage('set_tempo').copy(tempo=-1))
t('meta copy override ok', lambda: MetaMessage('set_tempo').copy(tempo=5))
t('unknown copy', lambda: UnknownMetaMessage(5,[1],time=3).copy(time=4))
t('frozen unknown thaw', lambda: thaw_message(freeze_message(UnknownMetaMessage(5,[1],time=3))))
t('frozen unknown set', lambda: setattr(freeze_message(UnknownMetaMessage(5,[1],time=3)),'data',(2,)))
print('--- C12')
def tr(*ms): return MidiTrack(ms)
t('merge []', lambda: mido.merge_tracks([]))
t('merge [[]]', lambda: mido.merge_tracks([tr()]))
a = tr(Message('note_on', note=1, time=5), MetaMessage('end_of_track', time=10), Message('note_on', note=2, time=1))
b = tr(Message('note_on', note=3, time=16), MetaMessage('end_of_track', time=0))
t('merge eot mid', lambda: mido.merge_tracks([a,b]))
print('--- C19')
import tempfile, os
d = tempfile.mkdtemp()
def f(pt):
    p = os.path.join(d,'x.syx'); msgs=[Message('note_on'), Message('sysex'), Message('sysex', data=[1,2,3]), Message('clock')]
    mido.write_syx_file(p, msgs, plaintext=pt); return mido.read_syx_file(p)
t('syx bin', lambda: f(False)); t('syx txt', lambda: f(True))
def f():
    p = os.path.join(d,'x.syx'); mido.write_syx_file(p, [], plaintext=True); return mido.read_syx_file(p)
t('syx empty', f)
def g(txt):
    p = os.path.join(d,'x.syx'); open(p,'w').write(txt); return mido.read_syx_file(p)
t('syx ws', lambda: g('F0\t01\n02 \r\n F7\x0b\x0c'))
t('syx leading ws', lambda: g('  F0 01 F7'))
t('syx bad', lambda: g('F0 0G F7'))
t('syx 1 digit', lambda: g('F0 1 F7'))
t('syx nonlatin', lambda: g('F0 é F7'))
t('syx split digit', lambda: g('F0 0\n1 F7'))
t('syx unicode ws', lambda: g('F0 01 F7'))
print('--- units')
t('t2s', lambda: mido.tick2second(1, 480, 500000))
t('s2t', lambda: mido.second2tick(mido.tick2second(12345677, 3, 7), 3, 7))
