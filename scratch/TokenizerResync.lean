namespace T
/-- spec length by status byte: 0 = undefined, 1,2,3 fixed; sysex handled apart (inf) -/
def specLen (s : Nat) : Option Nat :=
  if 0x80 ≤ s ∧ s < 0xC0 then some 3
  else if 0xC0 ≤ s ∧ s < 0xE0 then some 2
  else if 0xE0 ≤ s ∧ s < 0xF0 then some 3
  else if s = 0xF1 ∨ s = 0xF3 then some 2
  else if s = 0xF2 then some 3
  else if s = 0xF6 ∨ s = 0xF8 ∨ s = 0xFA ∨ s = 0xFB ∨ s = 0xFC ∨ s = 0xFE ∨ s = 0xFF then some 1
  else none
def defined (s : Nat) : Bool := s = 0xF0 ∨ (specLen s).isSome

structure St where
  status : Nat := 0
  bytes : List Nat := []       -- stored in order
  len : Nat := 0               -- 0 = infinite (sysex)
  out : List (List Nat) := []  -- emitted tokens, oldest first

def feedStatus (st : St) (s : Nat) : St :=
  if s = 0xF7 then
    if st.status = 0xF0 then { st with out := st.out ++ [st.bytes ++ [0xF7]], bytes := st.bytes ++ [0xF7], status := 0 }
    else { st with status := 0 }
  else if 0xF8 ≤ s then
    let st1 := if st.status ≠ 0xF0 then { st with status := 0 } else st
    if defined s then { st1 with out := st1.out ++ [[s]] } else st1
  else if s = 0xF0 then { st with status := s, bytes := [s], len := 0 }
  else match specLen s with
    | some 1 => { st with out := st.out ++ [[s]], status := 0 }
    | some n => { st with status := s, bytes := [s], len := n }
    | none => st

def feedData (st : St) (b : Nat) : St :=
  if st.status ≠ 0 then
    let bs := st.bytes ++ [b]
    if bs.length = st.len then { st with bytes := bs, out := st.out ++ [bs], status := 0 }
    else { st with bytes := bs }
  else st

def feedByte (st : St) (b : Nat) : St := if b < 128 then feedData st b else feedStatus st b
def feed (st : St) (bs : List Nat) : St := bs.foldl feedByte st

theorem feed_append (st : St) (a b : List Nat) : feed (feed st a) b = feed st (a ++ b) := by
  simp [feed, List.foldl_append]

/-- out only grows -/
-- resync for a 3-byte channel message
theorem resync3 (st : St) (s d1 d2 : Nat) (hs : 0x80 ≤ s ∧ s < 0xC0) (h1 : d1 < 128) (h2 : d2 < 128) :
    (feed st [s, d1, d2]).out = st.out ++ [[s, d1, d2]] ∧ (feed st [s,d1,d2]).status = 0 := by
  have hl : specLen s = some 3 := by simp [specLen, hs]
  have hs7 : s ≠ 0xF7 := by omega
  have hs8 : ¬ (0xF8 ≤ s) := by omega
  have hs0 : s ≠ 0xF0 := by omega
  have hsd : ¬ (s < 128) := by omega
  have hsz : s ≠ 0 := by omega
  simp [feed, feedByte, feedStatus, feedData, hl, hs7, hs8, hs0, hsd, h1, h2, hsz]

/-- sysex with data: state invariant while inside sysex -/
theorem sysex_body (out : List (List Nat)) : ∀ (ds acc : List Nat) (st : St),
    (∀ d ∈ ds, d < 128) → st.status = 0xF0 → st.bytes = acc → st.len = 0 → st.out = out →
    let st' := feed st ds
    st'.status = 0xF0 ∧ st'.bytes = acc ++ ds ∧ st'.len = 0 ∧ st'.out = out := by
  intro ds
  induction ds with
  | nil => intro acc st _ h1 h2 h3 h4; simp [feed, h1, h2, h3, h4]
  | cons d ds ih =>
    intro acc st hd h1 h2 h3 h4
    have hd1 : d < 128 := hd d (by simp)
    have := ih (acc ++ [d]) (feedByte st d) (fun x hx => hd x (by simp [hx]))
      (by simp [feedByte, feedData, hd1, h1, h3])
      (by simp [feedByte, feedData, hd1, h1, h3, h2])
      (by simp [feedByte, feedData, hd1, h1, h3])
      (by simp [feedByte, feedData, hd1, h1, h3, h4])
    simpa [feed, List.append_assoc] using this

theorem resync_sysex (st : St) (ds : List Nat) (hd : ∀ d ∈ ds, d < 128) :
    (feed st ([0xF0] ++ ds ++ [0xF7])).out = st.out ++ [[0xF0] ++ ds ++ [0xF7]] := by
  rw [← feed_append, ← feed_append]
  have h0 : feed st [0xF0] = { st with status := 0xF0, bytes := [0xF0], len := 0 } := by
    simp [feed, feedByte, feedStatus]
  have := sysex_body st.out ds [0xF0] (feed st [0xF0]) hd (by simp [h0]) (by simp [h0]) (by simp [h0]) (by simp [h0])
  obtain ⟨a, b, c, d⟩ := this
  generalize feed (feed st [0xF0]) ds = s2 at a b c d
  simp [feed, feedByte, feedStatus, a, b, d]
#print axioms resync_sysex
end T
