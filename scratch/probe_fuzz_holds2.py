"""Scratch: C01 exhaustive round trip; C08 alternative encodings; C09 remaining meta types; C03 boundary probes."""
import io, random, itertools, sys
import mido
from mido import Message, MetaMessage, MidiFile, MidiTrack, UnknownMetaMessage
R = random.Random(2)
SP = mido.messages.specs.SPECS
RANGE = {'channel':range(16),'frame_type':range(8),'frame_value':range(16),'pitch':range(-8192,8192),'pos':range(16384)}
bad = []; n = 0
for s in SP:
    if s['type'] == 'sysex': continue
    names = s['value_names']
    doms = [RANGE.get(x, range(128)) for x in names]
    # thin the big 3-attribute spaces a bit for the scratch run: full channel × full note × every 5th velocity + edges
    if len(names) == 3 and names[0] == 'channel':
        doms[2] = sorted(set(list(range(0,128,5)) + [1,63,64,126,127]))
    for vals in itertools.product(*doms):
        kw = dict(zip(names, vals)); m = Message(s['type'], time=7, **kw); b = m.bytes(); n += 1
        st = s['status_byte'] | (kw.get('channel', 0) if s['status_byte'] < 0xf0 else 0)
        ok = (b[0] == st and all(0 <= x < 128 for x in b[1:]) and len(b) == len(m) == s['length']
              and Message.from_bytes(b, time=7) == m and Message.from_hex(m.hex(), time=7) == m)
        if s['type'] == 'pitchwheel': ok = ok and b[1] + 128*b[2] - 8192 == kw['pitch']
        if s['type'] == 'songpos': ok = ok and b[1] + 128*b[2] == kw['pos']
        if s['type'] == 'quarter_frame': ok = ok and b[1] == 16*kw['frame_type'] + kw['frame_value']
        if not ok: bad.append(('C01', m))
print('C01 messages', n, 'bad', len(bad))
# C08: alternative legal encodings
def vlq(n, pad=0):
    out = [n & 0x7f]; n >>= 7
    while n: out.append((n & 0x7f) | 0x80); n >>= 7
    return [0x80]*pad + out[::-1]
def enc_track(evs):
    out = []; run = None
    for m in evs:
        out += vlq(m.time, R.choice([0,0,1,3]))
        if m.is_meta:
            # re-encode length with padding
            payload = m.bytes(); hdr = payload[:2]
            # strip canonical vlq
            i = 2
            while payload[i] & 0x80: i += 1
            data = payload[i+1:]
            out += hdr + vlq(len(data), R.choice([0,1,2])) + data; run = None
        elif m.type == 'sysex':
            out += [0xf0] + vlq(len(m.data)+1, R.choice([0,1])) + list(m.data) + [0xf7]; run = None
        else:
            b = m.bytes()
            if b[0] < 0xf0 and run == b[0] and R.random() < .6: out += b[1:]
            else: out += b
            run = b[0] if b[0] < 0xf0 else None
    return bytes(out)
def rnd_ev():
    t = R.choice([0,1,127,128,20000]); r = R.random()
    if r < .6: return Message(R.choice(['note_on','note_on','note_off','control_change','program_change','aftertouch','pitchwheel','polytouch']), channel=R.choice([0,0,0,1]), time=t)
    if r < .7: return Message('sysex', data=[R.randint(0,127) for _ in range(R.choice([0,1,127,128]))], time=t)
    if r < .8: return MetaMessage('text', text='x'*R.choice([0,1,127,128,129]), time=t)
    if r < .9: return MetaMessage(R.choice(['set_tempo','time_signature','key_signature','smpte_offset','channel_prefix','sequence_number','midi_port']), time=t)
    return Message(R.choice(['songpos','song_select','quarter_frame']), time=t)
c8 = 0
for it in range(3000):
    tracks = [[rnd_ev() for _ in range(R.randint(0,10))] + [MetaMessage('end_of_track', time=R.choice([0,5]))] for _ in range(R.randint(1,3))]
    extra = bytes(R.randint(0,255) for _ in range(R.choice([0,0,1,4])))
    b = b'MThd' + (6+len(extra)).to_bytes(4,'big') + (1).to_bytes(2,'big') + len(tracks).to_bytes(2,'big') + (480).to_bytes(2,'big') + extra
    for tr in tracks:
        body = enc_track(tr); b += b'MTrk' + len(body).to_bytes(4,'big') + body
    for clip in (False, True):
        try: got = [list(t) for t in MidiFile(file=io.BytesIO(b), clip=clip).tracks]
        except Exception as e: got = repr(e)
        if got != tracks: bad.append(('C08', tracks, got)); c8 += 1
print('C08 bad', c8)
# C09 other meta types round trip through from_bytes and through a track
c9 = 0
cases = []
for k in ['text','copyright','track_name','instrument_name','lyrics','marker','cue_marker','device_name']:
    for L in [0,1,127,129,16383,16384]:
        cases.append(MetaMessage(k, **{('name' if 'name' in k else 'text'): 'a'*L}))
for n_ in [0,1,255,256,65535]: cases.append(MetaMessage('sequence_number', number=n_))
for c in [0,1,127,128,255]: cases += [MetaMessage('channel_prefix', channel=c), MetaMessage('midi_port', port=c)]
for t in [0,1,255,256,65535,65536,16777215]: cases.append(MetaMessage('set_tempo', tempo=t))
for fr in [24,25,29.97,30]:
    for h in [0,23,31]:
        for mi in [0,59]:
            for fm in [0,255]:
                for sf in [0,99]: cases.append(MetaMessage('smpte_offset', frame_rate=fr, hours=h, minutes=mi, seconds=mi, frames=fm, sub_frames=sf))
for key in mido.midifiles.meta._key_signature_encode: cases.append(MetaMessage('key_signature', key=key))
for nu in [0,255]:
    for e in range(0,11):
        cases.append(MetaMessage('time_signature', numerator=nu, denominator=2**e, clocks_per_click=nu, notated_32nd_notes_per_beat=255-nu))
for m in cases:
    b = m.bytes()
    ok = all(0 <= x < 256 for x in b) and b[0] == 0xff and MetaMessage.from_bytes(b) == m
    body = bytes([0] + b + [0,0xff,0x2f,0])
    f = b'MThd' + (6).to_bytes(4,'big') + bytes([0,1,0,1,1,224]) + b'MTrk' + len(body).to_bytes(4,'big') + body
    ok = ok and MidiFile(file=io.BytesIO(f)).tracks[0][0] == m
    if not ok: bad.append(('C09', m)); c9 += 1
print('C09 cases', len(cases), 'bad', c9)
for x in bad[:8]: print(x[0], str(x[1:])[:300])
