"""Scratch: quick independent-oracle fuzz for properties believed to hold on the pinned tree."""
import io, random, copy, tempfile, os, itertools
from fractions import Fraction
import mido
from mido import Message, MetaMessage, MidiFile, MidiTrack, UnknownMetaMessage
R = random.Random(1)
import mido.midifiles.midifiles as _mm, mido.midifiles.meta as _meta
if os.environ.get('MASK_F21'):
    _orig = _meta.build_meta_message
    def _fixed(meta_type, data, delta=0):
        m = _orig(meta_type, data, delta)
        if isinstance(m, UnknownMetaMessage): m.time = delta
        return m
    _mm.build_meta_message = _fixed
TYPES = {s['type']: s for s in mido.messages.specs.SPECS}
RANGE = {'channel':(0,15),'frame_type':(0,7),'frame_value':(0,15),'pitch':(-8192,8191),'pos':(0,16383)}
def rnd_msg(types=None, time=0):
    ty = R.choice(types or list(TYPES))
    kw = {}
    for n in TYPES[ty]['value_names']:
        if n == 'data': kw[n] = [R.choice([0,1,64,126,127]) for _ in range(R.choice([0,1,2,5,130]))]
        else:
            lo,hi = RANGE.get(n,(0,127)); kw[n] = R.choice([lo,hi,R.randint(lo,hi)])
    return Message(ty, time=time, **kw)
RT = {0xf8,0xfa,0xfb,0xfc,0xfe,0xff}
fails = []
# C04/C05/C06
for it in range(3000):
    n = R.randint(0,40)
    bs = [R.choice([R.randint(0,127), R.randint(128,255), R.choice([0xf0,0xf7,0xf8,0x90])]) for _ in range(n)]
    try: out = mido.parse_all(bs)
    except Exception as e: fails.append(('C04 raise', bs, e)); continue
    rts = [m.bytes()[0] for m in out if m.bytes()[0] in RT]
    if rts != [b for b in bs if b in RT]: fails.append(('C04 rt', bs))
    rest = [b for m in out if m.bytes()[0] not in RT for b in m.bytes()]
    it_ = iter([b for b in bs if b not in RT])
    if not all(any(x == y for y in it_) for x in rest): fails.append(('C04 subseq', bs))
    # chunking
    p = mido.Parser(); got = []
    i = 0
    while i < len(bs):
        k = R.randint(1,4); p.feed(bs[i:i+k]); i += k
        if R.random() < .5:
            m = p.get_message()
            if m is not None: got.append(m)
    got += list(p)
    if got != out: fails.append(('C05', bs))
    m = rnd_msg()
    if mido.parse_all(bs + m.bytes()) != out + [m]: fails.append(('C06', bs, m))
# C12
def ref_merge(tracks):
    ev = []
    for ti, tr in enumerate(tracks):
        t = 0
        for i, m in enumerate(tr):
            t += m.time
            ev.append((t, ti, i, m))
    end = max([e[0] for e in ev], default=0)
    ne = sorted([e for e in ev if e[3].type != 'end_of_track'], key=lambda e: (e[0], e[1], e[2]))
    return [(e[0], e[3].copy(time=0)) for e in ne], end
for it in range(2000):
    tracks = []
    for _ in range(R.randint(0,4)):
        tr = MidiTrack()
        for _ in range(R.randint(0,8)):
            if R.random() < .25: tr.append(MetaMessage('end_of_track', time=R.choice([0,0,1,5])))
            else: tr.append(rnd_msg(['note_on','note_off','sysex','clock'], time=R.choice([0,0,1,2,480])))
        tracks.append(tr)
    before = copy.deepcopy(tracks)
    out = mido.merge_tracks(tracks, skip_checks=R.random()<.5)
    if tracks != before: fails.append(('C12 mutated', tracks))
    t = 0; got = []
    for m in out:
        t += m.time
        if m.type != 'end_of_track': got.append((t, m.copy(time=0)))
    exp, end = ref_merge(before)
    if got != exp or t != end or out[-1].type != 'end_of_track' or sum(m.type=='end_of_track' for m in out) != 1:
        fails.append(('C12', before, out))
# C13
for it in range(1000):
    tpb = R.choice([1,2,96,480,32767]); tr = MidiTrack()
    for _ in range(R.randint(0,10)):
        if R.random() < .3: tr.append(MetaMessage('set_tempo', tempo=R.choice([0,1,500000,16777215,R.randint(1,10**6)]), time=R.choice([0,1,100])))
        else: tr.append(Message('note_on', time=R.choice([0,1,100,5000])))
    mf = MidiFile(type=R.choice([0,1]), ticks_per_beat=tpb, tracks=[tr])
    tempo = 500000; cum = Fraction(0); exp = []
    for m in mido.merge_tracks([tr]):
        cum += Fraction(m.time * tempo, 10**6 * tpb); exp.append(cum)
        if m.type == 'set_tempo': tempo = m.tempo
    c = 0.0; ok = True
    for m, e in zip(mf, exp):
        c += m.time
        if abs(Fraction(c) - e) > Fraction(1, 10**9) * (1 + e): ok = False
    if not ok or abs(Fraction(mf.length) - (exp[-1] if exp else 0)) > Fraction(1,10**9)*(1+(exp[-1] if exp else 0)): fails.append(('C13', tr))
    # play with fake clock
    clock = [0.0]; sleeps = []
    import mido.midifiles.midifiles as mm
    real_sleep = mm.time.sleep
    mm.time.sleep = lambda d: (sleeps.append(d), clock.__setitem__(0, clock[0] + d))
    try:
        start = clock[0]; c = 0.0
        for m in mf.play(meta_messages=True, now=lambda: clock[0]):
            c += m.time
            if clock[0] - start < c - 1e-9: fails.append(('C13 early', tr)); break
            clock[0] += R.choice([0, 0, 0.01, 1.0])
    finally: mm.time.sleep = real_sleep
# C19
d = tempfile.mkdtemp()
for it in range(300):
    msgs = [rnd_msg() for _ in range(R.randint(0,6))]
    for pt in (False, True):
        p = os.path.join(d, 'x.syx'); mido.write_syx_file(p, msgs, plaintext=pt)
        if mido.read_syx_file(p) != [m for m in msgs if m.type == 'sysex']: fails.append(('C19', msgs, pt))
# C07 round trip (storable content, excluding known F2/F5/F6)
def rnd_meta(t):
    k = R.choice(['text','set_tempo','time_signature','key_signature','sequence_number','marker','unknown','midi_port'])
    if k == 'unknown': return UnknownMetaMessage(R.choice([0x0a, 0x60, 0x7e]), [R.randint(0,255) for _ in range(R.choice([0,1,127,128,129]))], time=t)
    if k in ('text','marker'): return MetaMessage(k, text='é'*R.choice([0,1,127,129,200]), time=t)
    if k == 'set_tempo': return MetaMessage(k, tempo=R.choice([0,1,16777215]), time=t)
    if k == 'time_signature': return MetaMessage(k, numerator=R.randint(0,255), denominator=2**R.randint(0,10), time=t)
    if k == 'key_signature': return MetaMessage(k, key=R.choice(['C','F#m','Cb','A#m']), time=t)
    if k == 'sequence_number': return MetaMessage(k, number=R.choice([0,1,255,256,65535]), time=t)
    return MetaMessage(k, port=R.randint(0,255), time=t)
def fix(tr):
    out = []; acc = 0
    for m in tr:
        if m.type == 'end_of_track': acc += m.time
        else: out.append(m.copy(time=m.time+acc)); acc = 0
    return out + [MetaMessage('end_of_track', time=acc)]
for it in range(1500):
    tracks = []
    for _ in range(R.randint(1,3)):
        tr = MidiTrack()
        for _ in range(R.randint(0,12)):
            t = R.choice([0,1,127,128,16383,16384,2**28])
            r = R.random()
            if r < .5: tr.append(rnd_msg(['note_on','note_on','note_off','control_change','program_change','pitchwheel','sysex','songpos','song_select','quarter_frame'], time=t))
            elif r < .9: tr.append(rnd_meta(t))
            else: tr.append(MetaMessage('end_of_track', time=t))
        tracks.append(tr)
    mf = MidiFile(type=1, ticks_per_beat=R.choice([1,480,32767]), tracks=tracks)
    b = io.BytesIO(); mf.save(file=b)
    mf2 = MidiFile(file=io.BytesIO(b.getvalue()))
    if [list(t) for t in mf2.tracks] != [fix(t) for t in tracks] or mf2.ticks_per_beat != mf.ticks_per_beat: fails.append(('C07', tracks))
    b2 = io.BytesIO(); mf2.save(file=b2)
    if b2.getvalue() != b.getvalue(): fails.append(('C07 stable', tracks))
print('failures:', len(fails))
for f in fails[:10]: print(f[0], str(f[1:])[:300])
