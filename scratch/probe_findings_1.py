import mido, io, math, traceback
from mido import Message, MetaMessage, MidiFile, MidiTrack
def t(label, f):
    try:
        r = f()
        print(f'{label}: OK -> {r!r}')
    except BaseException as e:
        print(f'{label}: {type(e).__name__}: {e}')

print('--- C02 special-case decoders length')
t('e0 01', lambda: Message.from_bytes([0xe0,1]))
t('e0 01 02 03', lambda: Message.from_bytes([0xe0,1,2,3]))
t('f1', lambda: Message.from_bytes([0xf1]))
t('f1 01 02', lambda: Message.from_bytes([0xf1,1,2]))
t('f2 01', lambda: Message.from_bytes([0xf2,1]))
t('f2 1 2 3', lambda: Message.from_bytes([0xf2,1,2,3]))
t('f1 7f', lambda: Message.from_bytes([0xf1,0x7f]))
t('90 1', lambda: Message.from_bytes([0x90,1]))
t('[256]', lambda: Message.from_bytes([256]))
t('[-1]', lambda: Message.from_bytes([-1]))
t('[0x90, 1.5, 2]', lambda: Message.from_bytes([0x90,1.5,2]))
t('[0x90, "a", 2]', lambda: Message.from_bytes([0x90,'a',2]))
t('["a"]', lambda: Message.from_bytes(['a']))
t('[1.0]', lambda: Message.from_bytes([1.0]))
t('[0x90.0,1,2]', lambda: Message.from_bytes([144.0,1,2]))
t('[None]', lambda: Message.from_bytes([None]))
t('f0 f7', lambda: Message.from_bytes([0xf0,0xf7]))
t('f0 80 f7', lambda: Message.from_bytes([0xf0,0x80,0xf7]))
t('f0 1 f7 f7', lambda: Message.from_bytes([0xf0,1,0xf7, 0xf7]))
t('f7', lambda: Message.from_bytes([0xf7]))
t('f8 00', lambda: Message.from_bytes([0xf8, 0]))
t('from_hex bad', lambda: Message.from_hex('9x 00'))
t('from_bytes generator', lambda: Message.from_bytes(iter([0x90,1,2])))
print('--- C09')
for k in [0,1,2,3,10,29,31,47,51,58,59,93,255]:
    t(f'denominator 2**{k}', lambda: MetaMessage('time_signature', denominator=2**k).bytes()[4])
t('smpte hours 32', lambda: MetaMessage.from_bytes(MetaMessage('smpte_offset', hours=32).bytes()))
t('seqspec 300', lambda: MetaMessage('sequencer_specific', data=[300]).bytes())
for L in [0,1,127,128,129,16383,16384]:
    m = MetaMessage('text', text='a'*L)
    t(f'text len {L}', lambda: MetaMessage.from_bytes(m.bytes()) == m)
t('unknown', lambda: MetaMessage.from_bytes(mido.UnknownMetaMessage(0x60,[1,2]).bytes()))
print('--- C14')
t('track1 repr', lambda: eval(repr(MidiTrack([Message('note_on')]))))
t('sysex empty str', lambda: Message.from_str(str(Message('sysex'))))
t('sysex 1 str', lambda: Message.from_str(str(Message('sysex', data=[1]))))
t('float time', lambda: Message.from_str(str(Message('note_on', time=1e-7))))
t('inf time', lambda: Message.from_str(str(Message('note_on', time=float('inf')))))
t('parse_string unknown', lambda: mido.parse_string('foo a=1'))
t('parse_string noeq', lambda: mido.parse_string('note_on channel'))
t('parse_string empty', lambda: mido.parse_string(''))
t('parse_string unknown attr', lambda: mido.parse_string('note_on foo=1'))
t('stream', lambda: list(mido.parse_string_stream(['note_on', 'foo', '', '# c', 'note_on x', 'clock time=1.5'])))
t('data no paren', lambda: mido.parse_string('sysex data=1,2'))
t('data (1', lambda: mido.parse_string('sysex data=(1'))
t('repr unknown meta', lambda: eval('mido.'+repr(mido.UnknownMetaMessage(5,[1]))))
t('repr midifile', lambda: eval(repr(MidiFile(tracks=[MidiTrack([Message('note_on')])])), vars(mido)))
print('--- C18 address')
t('fmt', lambda: mido.sockets.format_address('localhost', 8080))
print('--- C17')
from mido.midifiles import meta
try:
    MidiFile(file=io.BytesIO(b'MThd\0\0\0\6\0\0\0\1\0\1MTrk'), charset='utf-8')
except BaseException as e: print(type(e).__name__)
print('charset after failed load:', meta._charset)
meta._charset='latin1'
print('--- C07 realtime')
for ty in ['clock','tune_request','active_sensing','reset','start','songpos','song_select','quarter_frame']:
    def f():
        mf = MidiFile(tracks=[MidiTrack([Message(ty, time=3), Message('note_on', time=1)])]); b=io.BytesIO(); mf.save(file=b); b.seek(0); return MidiFile(file=b).tracks
    t(ty, f)
print('--- C16 cache')
mf = MidiFile(); tr = mf.add_track(); tr.append(Message('note_on', time=480)); print(mf.length); tr.append(Message('note_off', time=480)); print(mf.length, MidiFile(tracks=mf.tracks).length)
