def ldiff (n m : Nat) : Nat := Nat.bitwise (fun a b => a && !b) n m
def pyLor : Int → Int → Int
  | .ofNat m, .ofNat n => .ofNat (m ||| n)
  | .ofNat m, .negSucc n => .negSucc (ldiff n m)
  | .negSucc m, .ofNat n => .negSucc (ldiff m n)
  | .negSucc m, .negSucc n => .negSucc (m &&& n)
def encPitch (p : Int) : Nat × Nat :=
  let q := (p + 8192).toNat
  (q &&& 0x7f, q >>> 7)
def decPitch (d0 d1 : Nat) : Int :=
  pyLor (d0 : Int) (((d1 : Int) * 128) + (-8192))

#eval decPitch 1 0
#eval decPitch 127 127
#eval decPitch 1 2
#eval encPitch (-7935)

theorem dec_enc_fin : ∀ d0 : Fin 128, ∀ d1 : Fin 128,
    encPitch (decPitch d0.val d1.val) = (d0.val, d1.val) := by decide +kernel

theorem dec_eq : ∀ d0 : Fin 128, ∀ d1 : Fin 128,
    decPitch d0.val d1.val = (d0.val : Int) + 128 * d1.val - 8192 := by decide +kernel

theorem nat_and (x : Nat) : x &&& 0x7f = x % 128 := Nat.and_two_pow_sub_one_eq_mod x 7
theorem nat_shr (x : Nat) : x >>> 7 = x / 128 := by simp [Nat.shiftRight_eq_div_pow]
theorem enc_dec (p : Int) (h1 : -8192 ≤ p) (h2 : p ≤ 8191) :
   let e := encPitch p; e.1 < 128 ∧ e.2 < 128 ∧ (e.1 : Int) + 128 * e.2 - 8192 = p := by
  simp only [encPitch, nat_and, nat_shr]; omega
#print axioms dec_enc_fin
#print axioms enc_dec
