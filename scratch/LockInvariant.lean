/- scratch: fine-grained interleaving model of an EchoPort-like locked port.
   Threads run `poll` (receive(block=False), first phase only) or `send m`. -/
namespace C
abbrev Tid := Nat
inductive Pc
  | idle                    -- between calls
  | pAcq | pTest | pPop | pRelHit | pRelMiss      -- poll: acquire; test; popleft; release (hit / miss)
  | sAcq (m : Nat) | sApp (m : Nat) | sRel        -- send: acquire; append; release
  deriving DecidableEq, Repr

inductive Call | poll | send (m : Nat) deriving DecidableEq, Repr

structure Th where
  prog : List Call
  pc : Pc
  got : List Nat        -- messages received, oldest first
  deriving Repr

structure W where
  lock : Option Tid
  q : List Nat
  th : Tid → Th
  fault : Bool           -- popleft on empty happened

def inCS : Pc → Bool
  | .pTest | .pPop | .pRelHit | .pRelMiss | .sApp _ | .sRel => true
  | _ => false

def upd (f : Tid → Th) (t : Tid) (x : Th) : Tid → Th := fun u => if u = t then x else f u

def step (w : W) (t : Tid) : W :=
  let th := w.th t
  match th.pc with
  | .idle => match th.prog with
    | [] => w
    | .poll :: r => { w with th := upd w.th t { th with prog := r, pc := .pAcq } }
    | .send m :: r => { w with th := upd w.th t { th with prog := r, pc := .sAcq m } }
  | .pAcq => if w.lock = none then { w with lock := some t, th := upd w.th t { th with pc := .pTest } } else w
  | .pTest => if w.q ≠ [] then { w with th := upd w.th t { th with pc := .pPop } }
              else { w with th := upd w.th t { th with pc := .pRelMiss } }
  | .pPop => match w.q with
    | [] => { w with fault := true }
    | m :: r => { w with q := r, th := upd w.th t { th with pc := .pRelHit, got := th.got ++ [m] } }
  | .pRelHit => { w with lock := none, th := upd w.th t { th with pc := .idle } }
  | .pRelMiss => { w with lock := none, th := upd w.th t { th with pc := .idle } }
  | .sAcq m => if w.lock = none then { w with lock := some t, th := upd w.th t { th with pc := .sApp m } } else w
  | .sApp m => { w with q := w.q ++ [m], th := upd w.th t { th with pc := .sRel } }
  | .sRel => { w with lock := none, th := upd w.th t { th with pc := .idle } }

def run (w : W) (σ : List Tid) : W := σ.foldl step w

structure Inv (w : W) : Prop where
  nofault : w.fault = false
  mutex : ∀ t, inCS (w.th t).pc = true ↔ w.lock = some t
  popok : ∀ t, (w.th t).pc = .pPop → w.q ≠ []


theorem upd_same (f : Tid → Th) (t : Tid) (x : Th) : upd f t x t = x := by simp [upd]
theorem upd_other (f : Tid → Th) (t u : Tid) (x : Th) (h : u ≠ t) : upd f t x u = f u := by simp [upd, h]

/-- generic: a step of `t` that keeps lock/q/fault and moves t between two non-CS pcs -/
theorem step_inv (w : W) (t : Tid) (h : Inv w) : Inv (step w t) := by
  obtain ⟨hf, hm, hp⟩ := h
  have hmt := hm t
  have others : ∀ u, u ≠ t → w.lock ≠ some t → True := fun _ _ _ => trivial
  cases hpc : (w.th t).pc <;> simp only [step, hpc] <;> (try split) <;> (try split)
  all_goals first
    | exact ⟨hf, hm, hp⟩
    | (refine ⟨by simp_all, ?_, ?_⟩
       · intro u; by_cases hu : u = t
         · subst hu; simp_all [upd_same, inCS]
         · have h1 := hm u; have h2 := hp u
           have hu' : t ≠ u := fun e => hu e.symm
           simp only [upd_other _ _ _ _ hu]
           cases hpu : (w.th u).pc <;> simp_all [inCS]
       · intro u; by_cases hu : u = t
         · subst hu; simp_all [upd_same]
         · have h1 := hm u; have h2 := hp u
           have hu' : t ≠ u := fun e => hu e.symm
           simp only [upd_other _ _ _ _ hu]
           intro hpu; simp_all [inCS])
#print axioms step_inv
theorem run_inv (w : W) (σ : List Tid) (h : Inv w) : Inv (run w σ) := by
  induction σ generalizing w with
  | nil => exact h
  | cons t σ ih => exact ih _ (step_inv w t h)
theorem no_fault (w : W) (σ : List Tid) (h : Inv w) : (run w σ).fault = false := (run_inv w σ h).nofault
end C
