import Mathlib.Tactic.Ring
import Mathlib.Tactic.FieldSimp
import Mathlib.Tactic.Linarith
import Mathlib.Algebra.Order.Field.Rat
import Mathlib.Algebra.Order.Round
import Mathlib.Data.Rat.Floor

def t2s (tick tpb tempo : Nat) : Rat := tick * ((tempo : Rat) / 1000000 / tpb)

theorem t2s_add (a b tpb tempo : Nat) : t2s (a + b) tpb tempo = t2s a tpb tempo + t2s b tpb tempo := by
  simp only [t2s]; push_cast; ring

theorem units_exact (t tpb tempo : Nat) (h1 : 0 < tempo) (h2 : 0 < tpb) :
    round (t2s t tpb tempo / ((tempo : Rat) / 1000000 / tpb)) = (t : Int) := by
  have h1' : (tempo : Rat) ≠ 0 := by exact_mod_cast h1.ne'
  have h2' : (tpb : Rat) ≠ 0 := by exact_mod_cast h2.ne'
  have : t2s t tpb tempo / ((tempo : Rat) / 1000000 / tpb) = (t : Rat) := by
    simp only [t2s]; field_simp
  rw [this]; exact_mod_cast round_natCast t
#print axioms units_exact
