namespace V
def read : Nat → List Nat → Option (Nat × List Nat)
  | _, [] => none
  | acc, b :: rest =>
    let acc' := acc * 128 + b % 128
    if b < 128 then some (acc', rest) else read acc' rest

def encAux : Nat → List Nat → List Nat
  | 0, tail => tail
  | (n+1), tail => encAux ((n+1) / 128) (((n+1) % 128 + 128) :: tail)
decreasing_by omega

def enc (v : Nat) : List Nat := encAux (v / 128) [v % 128]

theorem read_enc_core : ∀ (n hi : Nat), hi ≤ n → ∀ (tail rest : List Nat) (f : Nat → Option (Nat × List Nat)),
    (∀ acc, read acc (tail ++ rest) = f acc) →
    read 0 (encAux hi tail ++ rest) = f hi := by
  intro n
  induction n with
  | zero =>
    intro hi h tail rest f hf
    have : hi = 0 := by omega
    subst this
    simp [encAux, hf]
  | succ n ih =>
    intro hi h tail rest f hf
    match hi, h with
    | 0, _ => simp [encAux, hf]
    | (m+1), h =>
      rw [encAux]
      have := ih ((m+1)/128) (by omega) (((m+1) % 128 + 128) :: tail) rest (fun a => f (a * 128 + (m+1) % 128)) (by
        intro acc
        simp only [List.cons_append, read]
        have : ¬ ((m + 1) % 128 + 128 < 128) := by omega
        simp only [this, if_false]
        have e : ((m + 1) % 128 + 128) % 128 = (m+1) % 128 := by omega
        rw [e, hf])
      rw [this]
      congr 1; omega

theorem read_enc (v : Nat) (rest : List Nat) : read 0 (enc v ++ rest) = some (v, rest) := by
  unfold enc
  rw [read_enc_core (v/128) (v/128) (Nat.le_refl _) [v % 128] rest
     (fun a => some (a * 128 + v % 128, rest)) (by
       intro acc; simp only [List.cons_append, List.nil_append, read]
       have : v % 128 < 128 := by omega
       simp [this])]
  simp; omega
#print axioms read_enc
#eval enc 0
#eval enc 128
#eval enc 16384
end V
