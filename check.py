#!/venv/bin/python
"""Entry point: check.py <property id> [--tier quick|thorough] [--seed N] [--replay file]

exit 0: property held on everything explored (KNOWN-FINDING lines possible)
exit 1: a line `VIOLATION property=<id> replay=<path>` was printed
exit 2: harness problem (tool missing, timeout): never a verdict
"""
import argparse
import importlib
import json
import os
import sys

HERE = os.path.dirname(os.path.abspath(__file__))
sys.path.insert(0, HERE)


def main():
    ap = argparse.ArgumentParser()
    ap.add_argument('prop')
    ap.add_argument('--tier', default=os.environ.get('VERIF_TIER', 'quick'), choices=['quick', 'thorough'])
    ap.add_argument('--seed', type=int, default=int(os.environ.get('VERIF_SEED', '0')))
    ap.add_argument('--replay')
    args = ap.parse_args()
    os.chdir(HERE)
    from harness import common
    common.import_mido()
    mod = importlib.import_module('harness.props.' + args.prop)
    if args.replay:
        with open(args.replay) as f:
            rp = json.load(f)
        ck = common.Check(args.prop, args.tier, args.seed, replay=rp)
        rc = mod.replay(ck, rp)
        sys.exit(rc)
    ck = common.Check(args.prop, args.tier, args.seed)
    try:
        rc = mod.run(ck)
    except common.HarnessTimeout as e:
        print(f'harness timeout: {e}')
        sys.exit(2)
    except Exception as exc:
        import traceback
        text = ''.join(traceback.format_exception(type(exc), exc, exc.__traceback__))
        traceback.print_exc()
        repo_mark = os.path.join(os.path.realpath(common.REPO), 'mido') + os.sep
        if repo_mark in text or (os.sep + 'mido' + os.sep) in text.replace(HERE, ''):
            # the exception was raised INSIDE the library under test, at a place where the check relies on the library not
            # raising (building legal objects, reading back what was written): the correspondence no longer checks.  There
            # is no replayable input, only the traceback: reported the way the brief prescribes for that situation.
            path = ck._write_replay('no-failing-input-found', {
                'explanation': 'the library raised inside the check, at a call the check relies on not to raise on the unchanged '
                               'tree; the correspondence of this property could not be completed',
                'broken_obligations': ['correspondence run of ' + args.prop + ' (harness/props/' + args.prop + '.py)'],
                'exception': type(exc).__name__ + ': ' + str(exc)[:500],
                'traceback': text[-6000:]})
            print(f'VIOLATION property={args.prop} replay={path} no-failing-input-found')
            sys.exit(1)
        print('harness error (unexpected exception in the harness itself): no verdict')
        sys.exit(2)
    sys.exit(rc)


if __name__ == '__main__':
    main()
